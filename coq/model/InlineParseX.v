(* Model of the inline phase of parser.Parse with the inline extensions of extension.GFM, each
   of which can be switched on separately (record xcfg): a generalised copy of the inline phase
   of model/InlineParse.v.

   - extension/strikethrough.go: the strikethrough parser (trigger '~', priority 500) and its
     delimiter processor next to the emphasis one in ProcessDelimiters (delimiter.go): the two
     processors differ in OnMatch only;
   - extension/tasklist.go: the task check box parser (trigger '[', priority 0, i.e. before the
     link parser);
   - extension/linkify.go: the linkify parser (triggers ' ' '*' '_' '~' '(', priority 999, i.e.
     after the emphasis and the strikethrough parser), together with the part of parser.go
     parseBlock that only matters for a parser registered on the blank trigger (the text that
     was flushed at a space: flushedAtSpace).

   The heap types are those of InlineParse.v; every function of InlineParse.v that does not
   reach the delimiter processors or the inline parser table is used as it is.  The node kinds
   the core model has no constructor for are written as Emphasis nodes with a level no
   emphasis has (the level of an emphasis is 1 or 2):
       IEmphasis 0     a Strikethrough node
       IEmphasis (-1)  a TaskCheckBox node, not checked
       IEmphasis (-2)  a TaskCheckBox node, checked
   and the Protocol field of an AutoLink node (nil, or "http" for the www. links of the linkify
   parser) is the membership of the node's number in a list kept next to the heap (xs_http).
   itreeX translates both back when it builds the renderer tree. *)
Require Import GM.model.Base GM.model.Util GM.model.Reader GM.model.Blocks GM.model.ListItem
               GM.model.LeafBlocks GM.model.CodeSpan GM.model.LinkDest GM.model.Regex GM.model.Delim
               GM.model.HtmlWriter GM.model.Html GM.model.BlockParse GM.model.InlineParse.
From Coq Require Import ZArith.
Open Scope Z_scope.

(* which extensions are installed *)
Record xcfg := { x_strike : bool; x_task : bool; x_table : bool; x_linkify : bool }.

Definition IStrikethrough : ikind := IEmphasis 0.
Definition ITaskCheckBox (checked : bool) : ikind := IEmphasis (if checked then -2 else -1).

(* ---- delimiter.go ProcessDelimiters with both delimiter processors ---- *)
(* opener.Processor.OnMatch(consume): emphasisDelimiterProcessor for '*' and '_',
   strikethroughDelimiterProcessor for '~' *)
Definition on_match (ch : N) (consume : Z) : ikind :=
  if N.eqb ch 126 then IStrikethrough else IEmphasis consume.

Fixpoint closer_loopX (fuel : nat) (c : ictx) (closer : option nat) (b : bottom) : result ictx :=
  match fuel with
  | O => OutOfFuel
  | S f =>
    match closer with
    | None => Ok c
    | Some cl =>
      x <- dget (i_h c) cl ;;
      let '(_, c_open, c_close, c_len, c_orig, c_ch, c_prev, c_next) := x in
      if negb c_close then closer_loopX f c c_next b
      else
        (* CanOpenCloser of both processors: opener.Char == closer.Char *)
        r <- find_opener (S (length (i_h c))) (i_h c) c_prev b c_open c_len c_orig c_ch false ;;
        let '(found, maybe) := r in
        match found with
        | None =>
          c <- (if negb maybe && negb c_open then remove_delimiter c cl else Ok c) ;;
          closer_loopX f c c_next b
        | Some (op, consume) =>
          h <- consume_chars (i_h c) op consume ;;
          h <- consume_chars h cl consume ;;
          let c := cx_h c h in
          od0 <- dget (i_h c) op ;;
          let '(_, _, _, _, _, o_ch, _, _) := od0 in
          let '(c, node) := new_inode c (on_match o_ch consume) in
          opn <- iget (i_h c) op ;;
          match ipar opn with
          | None => Panic
          | Some parent =>
            child <- i_next (i_h c) op ;;
            h <- move_children (S (length (i_h c))) (i_h c) child (Some cl) node ;;
            h <- i_insert_after h parent op node ;;
            let c := cx_h c h in
            od <- dget (i_h c) op ;;
            let '(_, _, _, _, _, _, _, o_next) := od in
            c <- remove_between (S (length (i_h c))) c o_next cl ;;
            od <- dget (i_h c) op ;;
            let '(_, _, _, o_len, _, _, _, _) := od in
            c <- (if o_len =? 0 then remove_delimiter c op else Ok c) ;;
            cd <- dget (i_h c) cl ;;
            let '(_, _, _, cl_len, _, _, _, cl_next) := cd in
            if cl_len =? 0 then
              c <- remove_delimiter c cl ;;
              closer_loopX f c cl_next b
            else closer_loopX f c (Some cl) b
          end
        end
    end
  end.

Definition process_delimitersX (fuel : nat) (c : ictx) (b : bottom) : result ictx :=
  match i_dlast c with
  | None => Ok c
  | Some last =>
    closer <- match b with
              | BNil => Ok (i_dfirst c)
              | BPtr _ =>
                if is_bottom b last then Ok None
                else pv <- i_prev (i_h c) last ;; earliest_delim (S (length (i_h c))) (i_h c) pv b None
              end ;;
    match closer with
    | None => clear_delimiters c b
    | Some _ =>
      c <- closer_loopX fuel c closer b ;;
      clear_delimiters c b
    end
  end.

(* the state of parseBlock: the context and the reader, the node parseBlock remembers as
   flushedAtSpace (None = nil), and the numbers of the AutoLink nodes whose Protocol is "http" *)
Record xst := { xs_s : ist; xs_flushed : option nat; xs_http : list nat }.
Definition xst_s x v := {| xs_s := v; xs_flushed := xs_flushed x; xs_http := xs_http x |}.
Definition xst_flushed x v := {| xs_s := xs_s x; xs_flushed := v; xs_http := xs_http x |}.
Definition xst_http x v := {| xs_s := xs_s x; xs_flushed := xs_flushed x; xs_http := v |}.

Section WithTables.
Variable xc : xcfg.
Variable space_table punct_table : list N.
Variable norm : bytes -> bytes.
Variable url_table email_table : list N.
Variable re_email_domain re_open_tag re_close_tag : re.
Variable punct_rune space_rune : N -> bool.
Variable re_task re_url re_www : re.       (* taskListRegexp, urlRegexp, wwwURLRegxp *)
Variable refs : list (bytes * (bytes * option bytes)).
Notation is_space := (is_space space_table).
Notation is_punct := (is_punct punct_table).
Notation is_blank := (Reader.is_blank space_table).
Notation lookup_ref := (lookup_ref norm refs).
Notation parse_link := (parse_link space_table punct_table).
Notation parse_reference_link := (parse_reference_link space_table punct_table norm refs).
Notation find_email_index := (find_email_index email_table re_email_domain).

(* ---- link.go: processLinkLabel and linkParser.Parse over the generalised ProcessDelimiters ---- *)
Definition process_link_labelX (s : ist) (link last : nat) : result ist :=
  let '(c, b) := pop_bottom (t_c s) in
  c <- process_delimitersX (ifuel s) c b ;;
  nx <- i_next (i_h c) last ;;
  h <- move_children (S (length (i_h c))) (i_h c) nx None link ;;
  Ok (ist_c s (cx_h c h)).

Definition link_parseX (s : ist) (parent : nat) : result (ist * option nat) :=
  y <- b_peek_line (t_r s) ;;
  let '(r, line, segment) := y in
  let s := ist_r s r in
  match line with
  | None => Panic
  | Some [] => Panic
  | Some (c0 :: rest) =>
    let open_label (s : ist) (pos : Z) (is_image : bool) : result (ist * option nat) :=
      let start := if is_image then pos - 1 else pos in
      let '(c, st) := new_inode (t_c s) (ILabel (mkseg start (pos + 1)) is_image None None None None) in
      c <- push_label c st ;;
      r <- b_advance (t_r s) 1 ;;
      Ok ({| t_c := c; t_r := r |}, Some st) in
    if N.eqb c0 33 then
      match rest with
      | c1 :: _ =>
        if N.eqb c1 91 then
          r <- b_advance (t_r s) 1 ;;
          let s := {| t_c := push_bottom (t_c s); t_r := r |} in
          open_label s (s_start segment + 1) true
        else Ok (s, None)
      | [] => Ok (s, None)
      end
    else if N.eqb c0 91 then
      open_label (ist_c s (push_bottom (t_c s))) (s_start segment) false
    else
      (* ']' *)
      match i_labels (t_c s) with
      | None => Ok (s, None)
      | Some tlist =>
        x <- lget (i_h (t_c s)) tlist ;;
        let '(_, _, _, _, _, tl_last) := x in
        match tl_last with
        | None => Ok (ist_c s (fst (pop_bottom (t_c s))), None)
        | Some last =>
          r <- b_advance (t_r s) 1 ;;
          let s := ist_r s r in
          c <- remove_label (t_c s) last ;;
          let s := ist_c s c in
          len <- label_length (i_h (t_c s)) tlist ;;
          if 998 <? len then label_fail s last
          else
            lx <- lget (i_h (t_c s)) last ;;
            let '(lsg, is_image, _, _, _, _) := lx in
            ln <- iget (i_h (t_c s)) last ;;
            lpar <- match ipar ln with Some p => Ok p | None => Panic end ;;
            lparn <- iget (i_h (t_c s)) lpar ;;
            has_link <- (if is_image then Ok false
                         else contains_link (S (length (i_h (t_c s)))) (i_h (t_c s)) (from_id last (ich lparn))) ;;
            if has_link then label_fail s last
            else
              pk <- b_peek (t_r s) ;;
              let saved_l := b_line (t_r s) in
              let saved_pos := b_pos (t_r s) in
              o <- (if N.eqb pk 40 then
                      p <- parse_link (t_r s) ;;
                      let '(r, res) := p in Ok (inr (ist_r s r, res))
                    else if N.eqb pk 91 then
                      p <- parse_reference_link s last ;;
                      let '(r, res, has_value) := p in
                      match res with
                      | None => if has_value then Ok (inl (ist_r s r)) else Ok (inr (ist_r s r, None))
                      | Some _ => Ok (inr (ist_r s r, res))
                      end
                    else Ok (inr (s, None))) ;;
              match o with
              | inl s => label_fail s last
              | inr (s, res) =>
                fin <- match res with
                       | Some dt => Ok (inr (s, dt))
                       | None =>
                         r <- b_set_position (t_r s) saved_l saved_pos ;;
                         let s := ist_r s r in
                         v <- b_value (t_r s) (mkseg (s_stop lsg) (s_start segment)) ;;
                         if 999 <? zlen v then Ok (inl s)
                         else match lookup_ref v with
                              | None => Ok (inl s)
                              | Some dt => Ok (inr (s, dt))
                              end
                       end ;;
                match fin with
                | inl s => label_fail s last
                | inr (s, (dest, title)) =>
                  let '(c, link) := new_inode (t_c s) (ILink dest title) in
                  s <- process_link_labelX (ist_c s c) link last ;;
                  ln <- iget (i_h (t_c s)) last ;;
                  lpar <- match ipar ln with Some p => Ok p | None => Panic end ;;
                  h <- i_remove (i_h (t_c s)) lpar last ;;
                  let s := ist_c s (cx_h (t_c s) h) in
                  if is_image then
                    let '(c, img) := new_inode (t_c s) (IImage dest title) in
                    lk <- iget (i_h c) link ;;
                    h <- (fix mv (l : list nat) (h : iheap) : result iheap :=
                            match l with [] => Ok h | x :: t => h <- i_append h img x ;; mv t h end) (ich lk) (i_h c) ;;
                    Ok (ist_c s (cx_h c h), Some img)
                  else Ok (s, Some link)
                end
              end
        end
      end
  end.

(* ---- extension/strikethrough.go: strikethroughParser.Parse ---- *)
Definition strike_parse (s : ist) : result (ist * option nat) :=
  before <- b_preceding (t_r s) ;;
  y <- b_peek_line (t_r s) ;;
  let '(r, line, segment) := y in
  let s := ist_r s r in
  d <- scan_delimiter punct_rune space_rune (fun c => N.eqb c 126) (line_of line) before 1 ;;
  match d with
  | None => Ok (s, None)
  | Some (co, cc, len, ch) =>
    if (2 <? len) || N.eqb before 126 then Ok (s, None)
    else
      let '(c, n) := new_inode (t_c s)
                       (IDelim (seg_with_stop segment (s_start segment + len)) co cc len len ch None None) in
      r <- b_advance (t_r s) len ;;
      c <- push_delimiter c n ;;
      Ok ({| t_c := c; t_r := r |}, Some n)
  end.

(* ---- extension/tasklist.go: taskCheckBoxParser.Parse ----
   in_item: the block being parsed has a parent, is that parent's first child, and the parent
   is a ListItem (the three tests on parent.Parent()); parent.HasChildren() is read off the heap *)
Definition task_parse (in_item : bool) (s : ist) (parent : nat) : result (ist * option nat) :=
  if negb in_item then Ok (s, None)
  else
    pn <- iget (i_h (t_c s)) parent ;;
    match ich pn with
    | _ :: _ => Ok (s, None)
    | [] =>
      y <- b_peek_line (t_r s) ;;
      let '(r, line, _) := y in
      let s := ist_r s r in
      let line := line_of line in
      match re_find re_task line with
      | None => Ok (s, None)
      | Some caps =>
        match cap_at caps 0, cap_at caps 1 with
        | Some (_, m1), Some (m2, m3) =>
          (* line[m[2]:m[3]][0] *)
          if (m2 <? 0) || (m3 <? m2) || (zlen line <? m3) then Panic
          else if m3 =? m2 then Panic
          else
            let value := nth_byte line m2 in
            r <- b_advance (t_r s) m1 ;;
            let checked := N.eqb value 120 || N.eqb value 88 in
            let '(c, n) := new_inode (t_c s) (ITaskCheckBox checked) in
            Ok ({| t_c := c; t_r := r |}, Some n)
        | _, _ => Panic
        end
      end
    end.

(* ---- extension/linkify.go: linkifyParser.Parse with the default LinkifyConfig
        (AllowedProtocols nil, EmailRegexp nil) ---- *)
Definition proto_http := [104;116;116;112;58]%N.            (* http: *)
Definition proto_https := [104;116;116;112;115;58]%N.       (* https: *)
Definition proto_ftp := [102;116;112;58]%N.                 (* ftp: *)
Definition domain_www := [119;119;119;46]%N.                (* www. *)
Definition is_alnum_byte (c : N) : bool :=
  ((97 <=? c) && (c <=? 122) || (65 <=? c) && (c <=? 90) || (48 <=? c) && (c <=? 57))%N.
(* the characters dropped from the end of a link: ? ! . , : * _ ~ *)
Definition is_link_trail (c : N) : bool :=
  (N.eqb c 63 || N.eqb c 33 || N.eqb c 46 || N.eqb c 44 || N.eqb c 58 || N.eqb c 42 || N.eqb c 95 || N.eqb c 126).

(* closing - opening parentheses among the first e bytes *)
Fixpoint paren_balance (v : bytes) : Z :=
  match v with
  | [] => 0
  | c :: r => (if N.eqb c 41 then 1 else if N.eqb c 40 then -1 else 0) + paren_balance r
  end.
(* for ; i >= 0; i-- { if IsAlphaNumeric(line[i]) continue; break } *)
Fixpoint back_alnum (fuel : nat) (line : bytes) (i : Z) : Z :=
  match fuel with
  | O => i
  | S f => if (0 <=? i) && is_alnum_byte (nth_byte line i) then back_alnum f line (i - 1) else i
  end.
(* for ; i > 0; i-- { the trailing punctuation } *)
Fixpoint back_trail (fuel : nat) (line : bytes) (i : Z) : Z :=
  match fuel with
  | O => i
  | S f => if (0 <? i) && is_link_trail (nth_byte line i) then back_trail f line (i - 1) else i
  end.
Fixpoint index_byte (c : N) (v : bytes) (i : Z) : Z :=
  match v with
  | [] => -1
  | x :: r => if N.eqb x c then i else index_byte c r (i + 1)
  end.

(* m[0] == 0 is kept, anything else is dropped *)
Definition match_at_zero (o : option caps) : option Z :=
  match o with
  | Some caps => match cap_at caps 0 with Some (a, e) => if a =? 0 then Some e else None | None => None end
  | None => None
  end.

(* the end of the match after the rules for a final '.', ')' and ';' *)
Definition url_match_end (line : bytes) (e : Z) : result Z :=
  last_char <- at_ line (e - 1) ;;
  if N.eqb last_char 46 then Ok (e - 1)
  else if N.eqb last_char 41 then
    let closing := paren_balance (zfirst e line) in
    Ok (if 0 <? closing then e - closing else e)
  else if N.eqb last_char 59 then
    let i := back_alnum (length line) line (e - 2) in
    if negb (i =? e - 2) then
      c <- at_ line i ;;
      Ok (if N.eqb c 38 then i else e)
    else Ok e
  else Ok e.

(* result: the new state and the node with its Protocol (true = "http") *)
Definition linkify_parse (s : ist) (parent : nat) : result (ist * option (nat * bool)) :=
  match i_labels (t_c s) with
  | Some _ => Ok (s, None)                                   (* pc.IsInLinkLabel() *)
  | None =>
    y <- b_peek_line (t_r s) ;;
    let '(r, line, segment) := y in
    let s := ist_r s r in
    match line with
    | None | Some [] => Panic                                (* line[0] *)
    | Some ((c0 :: tl) as whole) =>
      let skip := N.eqb c0 32 || N.eqb c0 42 || N.eqb c0 95 || N.eqb c0 126 || N.eqb c0 40 in
      let consumes := if skip then 1 else 0 in
      let start := s_start segment + consumes in
      let line := if skip then tl else whole in
      let m1 := if prefix_of proto_http line || prefix_of proto_https line || prefix_of proto_ftp line
                then re_find re_url line else None in
      let www := (match m1 with None => true | Some _ => false end) && prefix_of domain_www line in
      let m2 := if www then re_find re_www line else m1 in
      (* the end of the link, or the node is refused *)
      e <- match match_at_zero m2 with
           | Some e => e' <- url_match_end line e ;; Ok (Some (e', false))
           | None =>
             if (match line with c :: _ => is_punct c | [] => false end) then Ok None
             else
               let stop := find_email_index line in
               if stop <? 0 then Ok None
               else
                 let at_i := index_byte 64%N line 0 in
                 (* m = {0, stop, at, stop - 1};  line[m[2]:m[3]] *)
                 if (at_i <? 0) || (stop - 1 <? at_i) || (zlen line <? stop - 1) then Panic
                 else if index_byte 46%N (zfirst (stop - 1 - at_i) (zskip at_i line)) 0 <? 0 then Ok None
                 else
                   last_char <- at_ line (stop - 1) ;;
                   let e := if N.eqb last_char 46 then stop - 1 else stop in
                   if e <? zlen line then
                     next_char <- at_ line e ;;
                     if N.eqb next_char 45 || N.eqb next_char 95 then Ok None else Ok (Some (e, true))
                   else Ok (Some (e, true))
           end ;;
      match e with
      | None => Ok (s, None)
      | Some (e, email) =>
        c <- (if skip then merge_or_append (t_c s) parent (seg_with_stop segment (s_start segment + 1))
              else Ok (t_c s)) ;;
        let i := back_trail (length line) line (e - 1) + 1 in
        r <- b_advance (t_r s) (consumes + i) ;;
        let '(c, n) := new_inode c (IAutoLink email (mkseg start (start + i))) in
        Ok ({| t_c := c; t_r := r |}, Some (n, www))
      end
    end
  end.

(* ---- the inline parser table: the default parsers and those of the installed extensions,
        by priority (TaskCheckBox 0, CodeSpan 100, Link 200, AutoLink 300, RawHTML 400,
        Emphasis 500, Strikethrough 500, Linkify 999) ---- *)
Inductive iparserX := XCore (p : iparser) | XStrike | XTask | XLinkify.
Definition inline_parsersX (c : N) : list iparserX :=
  let lk := if x_linkify xc then [XLinkify] else [] in
  if N.eqb c 96 then [XCore IPCodeSpan]
  else if N.eqb c 91 then (if x_task xc then [XTask] else []) ++ [XCore IPLink]
  else if (N.eqb c 33 || N.eqb c 93) then [XCore IPLink]
  else if N.eqb c 60 then [XCore IPAutoLink; XCore IPRawHTML]
  else if (N.eqb c 42 || N.eqb c 95) then [XCore IPEmphasis] ++ lk
  else if N.eqb c 126 then (if x_strike xc then [XStrike] else []) ++ lk
  else if (N.eqb c 32 || N.eqb c 40) then lk
  else [].

Definition ip_parseX (in_item : bool) (p : iparserX) (s : ist) (parent : nat) : result (ist * option (nat * bool)) :=
  let plain (x : result (ist * option nat)) : result (ist * option (nat * bool)) :=
    y <- x ;; Ok (fst y, match snd y with Some n => Some (n, false) | None => None end) in
  match p with
  | XCore IPCodeSpan => plain (code_span_parse_s space_table s)
  | XCore IPLink => plain (link_parseX s parent)
  | XCore IPAutoLink => plain (autolink_parse url_table email_table re_email_domain s)
  | XCore IPRawHTML => plain (raw_html_parse re_open_tag re_close_tag s)
  | XCore IPEmphasis => plain (emphasis_parse punct_rune space_rune s)
  | XStrike => plain (strike_parse s)
  | XTask => plain (task_parse in_item s parent)
  | XLinkify => linkify_parse s parent
  end.

Fixpoint try_inlineX (in_item : bool) (ips : list iparserX) (s : ist) (parent : nat) (sl : Z) (sp : seg)
  : result (ist * option (nat * bool)) :=
  match ips with
  | [] => Ok (s, None)
  | p :: rest =>
    x <- ip_parseX in_item p s parent ;;
    let '(s, n) := x in
    match n with
    | Some _ => Ok (s, n)
    | None => r <- b_set_position (t_r s) sl sp ;; try_inlineX in_item rest (ist_r s r) parent sl sp
    end
  end.

(* the scan of one line: inl = an inline node was appended (retry), inr (n, start) = end of line *)
Fixpoint scan_lineX (in_item : bool) (fuel : nat) (line : bytes) (i : Z) (line_length : Z) (n : Z) (escaped : bool)
                    (start_pos : seg) (x : xst) (parent : nat) : result ((xst * bool) + (xst * Z * seg)) :=
  match fuel with
  | O => OutOfFuel
  | S f =>
    if line_length <=? i then Ok (inr (x, n, start_pos))
    else
      match zskip i line with
      | [] => Ok (inr (x, n, start_pos))
      | c :: _ =>
        if N.eqb c 10 then Ok (inr (x, n, start_pos))
        else
          let isspace := is_space c && negb (N.eqb c 13) && negb (N.eqb c 10) in
          let ispunct := is_punct c in
          (* p.escapedSpace is false: no extension of GFM sets it *)
          let consult := (ispunct && negb escaped) || isspace || (i =? 0) in
          let pchar := if isspace || ((i =? 0) && negb ispunct) then 32%N else c in
          let ips := if consult then inline_parsersX pchar else [] in
          r <- match ips with
               | [] => Ok (inr (x, n, start_pos))
               | _ =>
                 let s := xs_s x in
                 rd <- b_advance (t_r s) n ;;
                 let s := ist_r s rd in
                 let sl := b_line (t_r s) in
                 let sp := b_pos (t_r s) in
                 t <- (if negb (i =? 0) then
                         bt <- seg_between start_pos sp ;;
                         c' <- merge_or_append (t_c s) parent bt ;;
                         Ok (ist_c s c', sp)
                       else Ok (s, start_pos)) ;;
                 let '(s, start_pos) := t in
                 y <- try_inlineX in_item ips s parent sl sp ;;
                 let '(s, node) := y in
                 match node with
                 | Some (nd, http) =>
                   h <- i_append (i_h (t_c s)) parent nd ;;
                   let x := xst_s x (ist_c s (cx_h (t_c s) h)) in
                   Ok (inl (if http then xst_http x (nd :: xs_http x) else x))
                 | None =>
                   pn <- iget (i_h (t_c s)) parent ;;
                   let x := xst_s x s in
                   (* if isSpace && i != 0 { flushedAtSpace = parent.LastChild() } *)
                   let x := if isspace && negb (i =? 0) then xst_flushed x (last_id (ich pn)) else x in
                   Ok (inr (x, 0, start_pos))
                 end
               end ;;
          match r with
          | inl x => Ok (inl (x, escaped))
          | inr (x, n, start_pos) =>
            if escaped then scan_lineX in_item f line (i + 1) line_length (n + 1) false start_pos x parent
            else if N.eqb c 92 then scan_lineX in_item f line (i + 1) line_length (n + 1) true start_pos x parent
            else scan_lineX in_item f line (i + 1) line_length (n + 1) false start_pos x parent
          end
      end
  end.

(* parseBlock: the loop over the lines of the block *)
Fixpoint parse_block_loopX (in_item : bool) (fuel : nat) (x : xst) (parent : nat) (escaped : bool) : result xst :=
  match fuel with
  | O => OutOfFuel
  | S f =>
    y <- b_peek_line (t_r (xs_s x)) ;;
    let '(r, line, _) := y in
    let x := xst_s x (ist_r (xs_s x) r) in
    match line with
    | None => Ok x
    | Some line =>
      let ll := zlen line in
      let has_nl := N.eqb (last_byte line 1) 10 in
      let '(line_length, hard, visible, soft) :=
        if has_nl && ends_with_unescaped_backslash (zfirst (ll - 1) line) then (ll - 2, true, true, false)
        else if has_nl && (2 <=? ll) && N.eqb (last_byte line 2) 13 && ends_with_unescaped_backslash (zfirst (ll - 2) line)
             then (ll - 3, true, true, false)
        else if (3 <=? ll) && N.eqb (last_byte line 3) 32 && N.eqb (last_byte line 2) 32 && has_nl then (ll - 3, true, false, false)
        else if (4 <=? ll) && N.eqb (last_byte line 4) 32 && N.eqb (last_byte line 3) 32 && N.eqb (last_byte line 2) 13 && has_nl
             then (ll - 4, true, false, false)
        else if has_nl then (ll, false, false, true)
        else (ll, false, false, false) in
      let l := b_line (t_r (xs_s x)) in
      let start_pos := b_pos (t_r (xs_s x)) in
      z <- scan_lineX in_item (S (length line)) line 0 line_length 0 escaped start_pos x parent ;;
      match z with
      | inl (x, escaped) => parse_block_loopX in_item f x parent escaped
      | inr (x, n, start_pos) =>
        let s := xs_s x in
        r <- (if negb (n =? 0) then b_advance (t_r s) n else Ok (t_r s)) ;;
        let s := ist_r s r in
        let x := xst_s x s in
        let cur_l := b_line (t_r s) in
        let cur_pos := b_pos (t_r s) in
        if negb (l =? cur_l) then parse_block_loopX in_item f x parent false
        else
          diff <- seg_between start_pos cur_pos ;;
          (* inl: the line break went to the text flushed at a space; inr: a text node is appended *)
          t <- (if hard && visible then Ok (inr (t_c s, diff))
                else
                  trimmed <- seg_trim_right_space space_table (b_src (t_r s)) diff ;;
                  if seg_is_empty trimmed then
                    pn <- iget (i_h (t_c s)) parent ;;
                    match last_id (ich pn) with
                    | Some lst =>
                      ln <- iget (i_h (t_c s)) lst ;;
                      match ik ln with
                      | IText ts sf hd raw =>
                        if (s_stop ts =? s_start diff) && negb raw && negb sf && negb hd then
                          ts' <- seg_trim_right_space space_table (b_src (t_r s)) ts ;;
                          if negb (seg_is_empty ts') && opt_nat_eqb (Some lst) (xs_flushed x) then
                            h <- iupd (i_h (t_c s)) lst (fun m => iset_kind m (IText ts' soft hard raw)) ;;
                            Ok (inl (cx_h (t_c s) h))
                          else
                            h <- iupd (i_h (t_c s)) lst (fun m => iset_kind m (IText ts' sf hd raw)) ;;
                            Ok (inr (cx_h (t_c s) h, trimmed))
                        else Ok (inr (t_c s, trimmed))
                      | _ => Ok (inr (t_c s, trimmed))
                      end
                    | None => Ok (inr (t_c s, trimmed))
                    end
                  else Ok (inr (t_c s, trimmed))) ;;
          match t with
          | inl c =>
            r <- b_advance_line (t_r s) ;;
            parse_block_loopX in_item f (xst_s x {| t_c := c; t_r := r |}) parent false
          | inr (c, tseg) =>
            let '(c, tx) := new_inode c (IText tseg soft hard false) in
            h <- i_append (i_h c) parent tx ;;
            r <- b_advance_line (t_r s) ;;
            parse_block_loopX in_item f (xst_s x {| t_c := cx_h c h; t_r := r |}) parent false
          end
      end
    end
  end.

(* the inline children of one block with the given lines: the heap and the "http" autolinks *)
Definition parse_blockX (in_item : bool) (src : bytes) (lines : list seg) : result (ictx * list nat) :=
  r <- new_block_reader src lines ;;
  let x := {| xs_s := {| t_c := init_ictx; t_r := r |}; xs_flushed := None; xs_http := [] |} in
  x <- parse_block_loopX in_item (2 * length src + 2 * length lines + 8) x 0%nat false ;;
  c <- process_delimitersX (ifuel (xs_s x)) (t_c (xs_s x)) BNil ;;
  c <- link_close_block c ;;
  Ok (c, xs_http x).

End WithTables.

(* ---- from the inline heap to renderer trees ---- *)
Definition s_http_prefix := [104;116;116;112;58;47;47]%N.   (* http:// *)
Fixpoint itreeX (fuel : nat) (src : bytes) (h : iheap) (http : list nat) (i : nat) : result tree :=
  match fuel with
  | O => OutOfFuel
  | S f =>
    n <- iget h i ;;
    kids <- map_res (itreeX f src h http) (ich n) ;;
    k <- match ik n with
         | IRoot => Ok KOther
         | IText s soft hard raw => Ok (KText s soft hard raw)
         | ICodeSpan => Ok KCodeSpan
         | IEmphasis l =>
           Ok (if l =? 0 then KStrikethrough
               else if l =? -1 then KTaskCheckBox false
               else if l =? -2 then KTaskCheckBox true
               else KEmphasis l)
         | ILink d t => Ok (KLink d t)
         | IImage d t => Ok (KImage d t)
         | IAutoLink e sg =>
           v <- seg_value src sg ;;
           Ok (KAutoLink e (if existsb (Nat.eqb i) http then s_http_prefix ++ v else v) v)
         | IRawHTML segs => Ok (KRawHTML segs)
         | IDelim _ _ _ _ _ _ _ _ => Ok KOther
         | ILabel _ _ _ _ _ _ => Ok KOther
         end ;;
    Ok (Node k [] None kids)
  end.

Section Children.
Variable xc : xcfg.
Variable space_table punct_table : list N.
Variable norm : bytes -> bytes.
Variable url_table email_table : list N.
Variable re_email_domain re_open_tag re_close_tag : re.
Variable punct_rune space_rune : N -> bool.
Variable re_task re_url re_www : re.
Variable refs : list (bytes * (bytes * option bytes)).

Definition inline_childrenX (in_item : bool) (src : bytes) (lines : list seg) : result (list tree) :=
  x <- parse_blockX xc space_table punct_table norm url_table email_table re_email_domain re_open_tag re_close_tag
                    punct_rune space_rune re_task re_url re_www refs in_item src lines ;;
  let '(c, http) := x in
  t <- itreeX (S (length (i_h c))) src (i_h c) http 0%nat ;;
  Ok (t_children t).
End Children.
