(* Model of parser/code_span.go codeSpanParser.Parse over the block-reader model.
   Result: inl segs = a CodeSpan whose children are raw Text nodes with these segments;
           inr seg  = no closing run: a Text node with the opening backticks. *)
Require Import GM.model.Base GM.model.Util GM.model.Reader GM.model.ListItem GM.model.LeafBlocks.
From Coq Require Import ZArith.
Open Scope Z_scope.

Section WithTables.
Variable space_table : list N.

(* the inner scan of one line for a closing run of exactly `opener` backticks: the index just
   after the run, if any.  i is the index of the first byte of l. *)
Fixpoint find_closer (fuel : nat) (l : bytes) (i opener : Z) : option Z :=
  match fuel with
  | O => None
  | S f =>
    match l with
    | [] => None
    | c :: r =>
      if N.eqb c 96 then
        let n := count_byte 96 l in
        if n =? opener then Some (i + n)
        else
          (* i stops on the first byte after the run; the outer loop's i++ skips that byte too *)
          find_closer f (zskip (n + 1) l) (i + n + 1) opener
      else find_closer f r (i + 1) opener
    end
  end.

Definition is_space_or_newline (c : N) : bool := (N.eqb c 32 || N.eqb c 10)%bool.

(* the loop over the lines of the block: children collected so far (in order) *)
Fixpoint code_span_lines (fuel : nat) (r : breader) (opener : Z) (acc : list seg) : result (option (list seg * breader)) :=
  match fuel with
  | O => OutOfFuel
  | S f =>
    x <- b_peek_line r ;;
    let '(r, line, sg) := x in
    match line with
    | None => Ok None
    | Some line =>
      match find_closer (S (length line)) line 0 opener with
      | Some i =>
        let sg' := seg_with_stop sg (s_start sg + i - opener) in
        let acc := if seg_is_empty sg' then acc else acc ++ [sg'] in
        r <- b_advance r i ;;
        Ok (Some (acc, r))
      | None =>
        r <- b_advance_line r ;;
        code_span_lines f r opener (acc ++ [sg])
      end
    end
  end.

Fixpoint all_blank (src : bytes) (segs : list seg) : result bool :=
  match segs with
  | [] => Ok true
  | s :: rest => v <- seg_value src s ;; if is_blank space_table v then all_blank src rest else Ok false
  end.

Definition update_last {A} (l : list A) (f : A -> A) : list A :=
  match rev l with [] => [] | x :: r => rev (f x :: r) end.
Definition update_first {A} (l : list A) (f : A -> A) : list A :=
  match l with [] => [] | x :: r => f x :: r end.

Definition code_span_parse (r : breader) : result ((list seg + seg) * breader) :=
  x <- b_peek_line r ;;
  let '(r, line, start_seg) := x in
  let line := match line with Some l => l | None => [] end in
  let opener := count_byte 96 line in
  r <- b_advance r opener ;;
  let '(l, pos) := (b_line r, b_pos r) in
  y <- code_span_lines (S (length (b_segs r))) r opener [] ;;
  match y with
  | None =>
    r <- b_set_position r l pos ;;
    Ok (inr (seg_with_stop start_seg (s_start start_seg + opener)), r)
  | Some (segs, r) =>
    blank <- all_blank (b_src r) segs ;;
    if blank then Ok (inl segs, r)
    else
      match segs, rev segs with
      | first :: _, last :: _ =>
        cf <- (if seg_is_empty first then Ok false
               else c <- at_ (b_src r) (s_start first) ;; Ok (is_space_or_newline c)) ;;
        cl <- (if seg_is_empty last then Ok false
               else c <- at_ (b_src r) (s_stop last - 1) ;; Ok (is_space_or_newline c)) ;;
        if (cf && cl)%bool then
          let segs := update_first segs (fun t => seg_with_start t (s_start t + 1)) in
          let segs := update_last segs (fun t => seg_with_stop t (s_stop t - 1)) in
          Ok (inl segs, r)
        else Ok (inl segs, r)
      | _, _ => Panic          (* node.FirstChild() is nil *)
      end
  end.

End WithTables.
