(* Model of parser/attribute.go: ParseAttributes, parseAttribute, parseAttributeValue,
   parseAttributeArray, parseAttributeString, parseAttributeNumber (with the syntax and range
   errors of strconv.ParseFloat), parseAttributeOthers, over the reader model.  Numbers are
   kept as their spelling (sign, mantissa digits, fraction digits, exponent): the harness
   compares acceptance and the kind of value, not floating point results. *)
Require Import GM.model.Base GM.model.Util GM.model.Reader GM.model.ListItem.
From Coq Require Import ZArith.
Open Scope Z_scope.

Inductive pval :=
| PBytes (v : bytes)
| PNumber
| PBool (b : bool)
| PNull
| PArray (l : list pval)
| PAttrs (l : list (bytes * pval)).

Definition n_id := [105;100]%N.
Definition n_class := [99;108;97;115;115]%N.
Definition is_name_start (c : N) : bool :=
  (((97 <=? c) && (c <=? 122)) || ((65 <=? c) && (c <=? 90)) || (c =? 95) || (c =? 58))%N.
Definition is_name_char (c : N) : bool :=
  (is_name_start c || ((48 <=? c) && (c <=? 57)) || (c =? 46) || (c =? 45))%N.
Fixpoint take_while (f : N -> bool) (l : bytes) : bytes :=
  match l with c :: r => if f c then c :: take_while f r else [] | [] => [] end.

(* strconv.ParseFloat(mantissa digits [. fraction digits] [e [sign] exponent digits], 64) fails
   on an exponent marker without digits (syntax) and on overflow (range): value >= 2^1024 - 2^970 *)
Fixpoint digits_val (l : bytes) (acc : Z) : Z :=
  match l with c :: r => digits_val r (acc * 10 + (Z.of_N c - 48)) | [] => acc end.
Definition float_threshold : Z := 2 ^ 1024 - 2 ^ 970.
Definition parse_float_ok (int_digits frac_digits : bytes) (has_exp : bool) (exp_neg : bool) (exp_digits : bytes) : bool :=
  if has_exp && Nat.eqb (length exp_digits) 0 then false
  else
    let m := digits_val (int_digits ++ frac_digits) 0 in
    if m =? 0 then true
    else
      (* exponents beyond six digits decide by their sign alone (the mantissa has < 10^6 digits) *)
      let stripped := skipn (length (take_while (fun c => N.eqb c 48) exp_digits)) exp_digits in
      if Nat.ltb 7 (length stripped) then exp_neg
      else
        let e := (if exp_neg then - digits_val stripped 0 else digits_val stripped 0) - zlen frac_digits in
        if 0 <=? e then
          if 400 <? e then false else m * 10 ^ e <? float_threshold
        else
          if 2000 <? - e then true else m <? float_threshold * 10 ^ (- e).

Section WithTables.
Variable space_table punct_table : list N.
Notation is_space := (is_space space_table).
Notation is_punct := (is_punct punct_table).

Definition rfuel (r : reader) : nat := length (r_src r) + 8.
Definition skip_sp (r : reader) : result reader :=
  x <- r_skip_spaces space_table (rfuel r) r ;; let '(r, _, _, _) := x in Ok r.
Definition peek_line_b (r : reader) : result (reader * bytes) :=
  x <- r_peek_line r ;; let '(r, l, _) := x in Ok (r, match l with Some v => v | None => [] end).

(* scanAttributeDecimal *)
Fixpoint scan_decimal (fuel : nat) (r : reader) (acc : bytes) : result (reader * bytes) :=
  match fuel with
  | O => OutOfFuel
  | S f =>
    c <- r_peek r ;;
    if is_numeric c then (r <- r_advance r 1 ;; scan_decimal f r (acc ++ [c])) else Ok (r, acc)
  end.

(* parseAttributeNumber: the reader afterwards and success *)
Definition parse_number (r : reader) : result (reader * bool) :=
  c <- r_peek r ;;
  r <- (if (N.eqb c 45 || N.eqb c 43) then r_advance r 1 else Ok r) ;;
  c <- r_peek r ;;
  if negb (is_numeric c) then Ok (r, false)
  else
    x <- scan_decimal (rfuel r) r [] ;;
    let '(r, ints) := x in
    c <- r_peek r ;;
    y <- (if N.eqb c 46 then (r <- r_advance r 1 ;; scan_decimal (rfuel r) r []) else Ok (r, [])) ;;
    let '(r, fracs) := y in
    c <- r_peek r ;;
    if (N.eqb c 101 || N.eqb c 69) then
      r <- r_advance r 1 ;;
      c <- r_peek r ;;
      r <- (if (N.eqb c 45 || N.eqb c 43) then r_advance r 1 else Ok r) ;;
      z <- scan_decimal (rfuel r) r [] ;;
      let '(r, exps) := z in
      Ok (r, parse_float_ok ints fracs true (N.eqb c 45) exps)
    else Ok (r, parse_float_ok ints fracs false false []).

(* parseAttributeString (the reader stands on the opening quote) *)
Fixpoint string_scan (fuel : nat) (line : bytes) (i : Z) (acc : bytes) : option (bytes * Z) :=
  match fuel with
  | O => None
  | S f =>
    match line with
    | [] => None
    | c :: rest =>
      match rest with
      | n :: rest' =>
        if N.eqb c 92 then
          if (N.eqb n 34 || N.eqb n 47 || N.eqb n 92) then string_scan f rest' (i + 2) (acc ++ [n])
          else if N.eqb n 98 then string_scan f rest' (i + 2) (acc ++ [8%N])
          else if N.eqb n 102 then string_scan f rest' (i + 2) (acc ++ [12%N])
          else if N.eqb n 110 then string_scan f rest' (i + 2) (acc ++ [10%N])
          else if N.eqb n 114 then string_scan f rest' (i + 2) (acc ++ [13%N])
          else if N.eqb n 116 then string_scan f rest' (i + 2) (acc ++ [9%N])
          else string_scan f rest (i + 1) (acc ++ [92%N])
        else if N.eqb c 34 then Some (acc, i + 1)
        else string_scan f rest (i + 1) (acc ++ [c])
      | [] =>
        (* the last byte: a backslash is an ordinary byte here *)
        if N.eqb c 34 then Some (acc, i + 1) else None
      end
    end
  end.
Definition parse_string (r : reader) : result (reader * option bytes) :=
  r <- r_advance r 1 ;;
  x <- peek_line_b r ;;
  let '(r, line) := x in
  match string_scan (S (length line)) line 0 [] with
  | Some (v, adv) => r <- r_advance r adv ;; Ok (r, Some v)
  | None => Ok (r, None)
  end.

Definition b_true := [116;114;117;101]%N.
Definition b_false := [102;97;108;115;101]%N.
Definition b_null := [110;117;108;108]%N.
(* parseAttributeOthers *)
Definition parse_others (r : reader) : result (reader * option pval) :=
  x <- peek_line_b r ;;
  let '(r, line) := x in
  match line with
  | [] => Panic                                   (* line[0] *)
  | c :: _ =>
    if negb (is_name_start c) then Ok (r, None)
    else
      let v := take_while is_name_char line in
      r <- r_advance r (zlen v) ;;
      Ok (r, Some (if bytes_eqb v b_true then PBool true else if bytes_eqb v b_false then PBool false
                   else if bytes_eqb v b_null then PNull else PBytes v))
  end.

(* #id / .class value: not white space and (not punctuation or one of _ - : .) *)
Definition short_char (c : N) : bool :=
  negb (is_space c) && (negb (is_punct c) || N.eqb c 95 || N.eqb c 45 || N.eqb c 58 || N.eqb c 46).

(* append or merge a class attribute (ParseAttributes' findUpdate) *)
Fixpoint merge_class (l : list (bytes * pval)) (v : bytes) : option (list (bytes * pval)) :=
  match l with
  | [] => None
  | (n, x) :: tl =>
    if bytes_eqb n n_class then
      match x with
      | PBytes old => Some ((n, PBytes (old ++ [32%N] ++ v)) :: tl)
      | _ => None                                  (* v.([]byte) would panic; parseAttribute rules it out *)
      end
    else match merge_class tl v with Some tl' => Some ((n, x) :: tl') | None => None end
  end.

(* the mutually recursive value / array / attributes parsers, on one fuel *)
Fixpoint parse_value (fuel : nat) (r : reader) : result (reader * option pval) :=
  match fuel with
  | O => OutOfFuel
  | S f =>
    r <- skip_sp r ;;
    c <- r_peek r ;;
    if N.eqb c 255 then Ok (r, None)
    else if N.eqb c 123 then
      x <- parse_attributes f r ;;
      let '(r, res) := x in Ok (r, match res with Some l => Some (PAttrs l) | None => None end)
    else if N.eqb c 91 then
      r <- r_advance r 1 ;;
      x <- parse_array f r 0 [] ;;
      let '(r, res) := x in Ok (r, match res with Some l => Some (PArray l) | None => None end)
    else if N.eqb c 34 then
      x <- parse_string r ;;
      let '(r, res) := x in Ok (r, match res with Some v => Some (PBytes v) | None => None end)
    else if (N.eqb c 45 || N.eqb c 43 || is_numeric c) then
      x <- parse_number r ;;
      let '(r, ok) := x in Ok (r, if ok then Some PNumber else None)
    else parse_others r
  end
with parse_array (fuel : nat) (r : reader) (i : Z) (acc : list pval) : result (reader * option (list pval)) :=
  match fuel with
  | O => OutOfFuel
  | S f =>
    c <- r_peek r ;;
    let comma := negb (i =? 0) && N.eqb c 44 in
    r <- (if comma then r_advance r 1 else Ok r) ;;
    if N.eqb c 93 then
      (if negb comma then (r <- r_advance r 1 ;; Ok (r, Some acc)) else Ok (r, None))
    else
      r <- skip_sp r ;;
      x <- parse_value f r ;;
      let '(r, v) := x in
      match v with
      | None => Ok (r, None)
      | Some v => r <- skip_sp r ;; parse_array f r (i + 1) (acc ++ [v])
      end
  end
with parse_attributes (fuel : nat) (r0 : reader) : result (reader * option (list (bytes * pval))) :=
  match fuel with
  | O => OutOfFuel
  | S f =>
    let sl := r_line r0 in
    let sp := r_pos r0 in
    let fail (r : reader) := (r <- r_set_position r sl sp ;; Ok (r, None)) in
    r <- skip_sp r0 ;;
    c <- r_peek r ;;
    if negb (N.eqb c 123) then fail r
    else
      r <- r_advance r 1 ;;
      (fix loop (n : nat) (r : reader) (attrs : list (bytes * pval)) : result (reader * option (list (bytes * pval))) :=
         match n with
         | O => OutOfFuel
         | S n' =>
           c <- r_peek r ;;
           if N.eqb c 125 then (r <- r_advance r 1 ;; Ok (r, Some attrs))
           else
             (* parseAttribute *)
             r <- skip_sp r ;;
             c <- r_peek r ;;
             a <- (if (N.eqb c 35 || N.eqb c 46) then
                     r <- r_advance r 1 ;;
                     x <- peek_line_b r ;;
                     let '(r, line) := x in
                     let v := take_while short_char line in
                     r <- r_advance r (zlen v) ;;
                     Ok (r, Some (if N.eqb c 35 then n_id else n_class, PBytes v))
                   else
                     x <- peek_line_b r ;;
                     let '(r, line) := x in
                     match line with
                     | [] => Ok (r, None)
                     | c0 :: _ =>
                       if negb (is_name_start c0) then Ok (r, None)
                       else
                         let name := take_while is_name_char line in
                         r <- r_advance r (zlen name) ;;
                         r <- skip_sp r ;;
                         c <- r_peek r ;;
                         if negb (N.eqb c 61) then Ok (r, None)
                         else
                           r <- r_advance r 1 ;;
                           r <- skip_sp r ;;
                           y <- parse_value f r ;;
                           let '(r, v) := y in
                           match v with
                           | None => Ok (r, None)
                           | Some v =>
                             if bytes_eqb name n_class then
                               match v with PBytes _ => Ok (r, Some (name, v)) | _ => Ok (r, None) end
                             else Ok (r, Some (name, v))
                           end
                     end) ;;
             let '(r, attr) := a in
             match attr with
             | None => fail r
             | Some (name, v) =>
               let attrs :=
                 if bytes_eqb name n_class then
                   match v with
                   | PBytes vb => match merge_class attrs vb with Some l => l | None => attrs ++ [(name, v)] end
                   | _ => attrs ++ [(name, v)]
                   end
                 else attrs ++ [(name, v)] in
               r <- skip_sp r ;;
               c <- r_peek r ;;
               r <- (if N.eqb c 44 then (r <- r_advance r 1 ;; skip_sp r) else Ok r) ;;
               loop n' r attrs
             end
         end) (rfuel r) r []
  end.

Definition ParseAttributesModel (r : reader) : result (reader * option (list (bytes * pval))) :=
  (* the mutual recursion of values and arrays spends two units per nesting level while one byte
     is consumed: twice the length *)
  parse_attributes (2 * rfuel r) r.

End WithTables.
