(* Specification-side decoder for the four character references EscapeHTML produces
   (what a browser does with them), used to state the round-trip law of C19 and the
   attribute-value decoding of C04. *)
Require Import GM.model.Base.
Open Scope N_scope.

Definition r_quot : bytes := [38; 113; 117; 111; 116; 59].   (* &quot; *)
Definition r_amp  : bytes := [38; 97; 109; 112; 59].         (* &amp;  *)
Definition r_lt   : bytes := [38; 108; 116; 59].             (* &lt;   *)
Definition r_gt   : bytes := [38; 103; 116; 59].             (* &gt;   *)

(* strip p s = Some r  iff  s = p ++ r *)
Fixpoint strip (p s : bytes) : option bytes :=
  match p, s with
  | [], _ => Some s
  | a :: p', b :: s' => if a =? b then strip p' s' else None
  | _ :: _, [] => None
  end.

Fixpoint html_decode_fuel (fuel : nat) (v : bytes) : bytes :=
  match fuel with
  | O => []
  | S f =>
    match v with
    | [] => []
    | c :: rest =>
      match strip r_quot v with
      | Some r => 34 :: html_decode_fuel f r
      | None =>
        match strip r_amp v with
        | Some r => 38 :: html_decode_fuel f r
        | None =>
          match strip r_lt v with
          | Some r => 60 :: html_decode_fuel f r
          | None =>
            match strip r_gt v with
            | Some r => 62 :: html_decode_fuel f r
            | None => c :: html_decode_fuel f rest
            end
          end
        end
      end
    end
  end.
Definition html_decode (v : bytes) : bytes := html_decode_fuel (length v) v.

(* The output language of EscapeHTML: plain bytes other than lt, gt, double-quote and ampersand, and the four references. *)
Inductive EscOut : bytes -> Prop :=
| eo_nil : EscOut []
| eo_plain c w : c <> 60 -> c <> 62 -> c <> 34 -> c <> 38 -> EscOut w -> EscOut (c :: w)
| eo_quot w : EscOut w -> EscOut (r_quot ++ w)
| eo_amp w : EscOut w -> EscOut (r_amp ++ w)
| eo_lt w : EscOut w -> EscOut (r_lt ++ w)
| eo_gt w : EscOut w -> EscOut (r_gt ++ w).

(* the escape table the four-reference decoder is the inverse of *)
Definition esc_std (c : N) : option bytes :=
  if c =? 34 then Some r_quot else if c =? 38 then Some r_amp
  else if c =? 60 then Some r_lt else if c =? 62 then Some r_gt else None.
