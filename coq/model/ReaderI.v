(* The reader model instantiated with the tables dumped from the running code. *)
Require Import GM.model.Base GM.model.Util GM.model.Reader.
Require Import GM.gen.Tables.

Definition RPeekLine := r_peek_line.
Definition RSkipBlankLines := r_skip_blank_lines space_table.
Definition RSkipSpaces := r_skip_spaces space_table.
Definition RReadRune := r_read_rune.
Definition RFindClosure := r_find_closure punct_table.
Definition BSkipBlankLines := b_skip_blank_lines space_table.
Definition BSkipSpaces := b_skip_spaces space_table.
Definition BReadRune := b_read_rune.
Definition BFindClosure := b_find_closure punct_table.
Definition SegTrimRightSpace := seg_trim_right_space space_table.
Definition SegTrimLeftSpace := seg_trim_left_space space_table.
