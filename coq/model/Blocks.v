(* Models of block-level components used by C08 / C09 / C02: util.IndentWidth, the block-quote
   marker code (parser/blockquote.go process), and the line-end arithmetic of block parsers that
   consume "the rest of the line" (HTML block Open/Continue after the fix: commit). *)
Require Import GM.model.Base GM.model.Util GM.model.Reader.
From Coq Require Import ZArith.
Open Scope Z_scope.

(* util.IndentWidth(bs, currentPos) = (width, pos) *)
Fixpoint indent_width_pos (bs : bytes) (cur w pos : Z) : Z * Z :=
  match bs with
  | c :: r =>
    if N.eqb c 32 then indent_width_pos r cur (w + 1) (pos + 1)
    else if N.eqb c 9 then indent_width_pos r cur (w + (4 - (cur + w) mod 4)) (pos + 1)
    else (w, pos)
  | [] => (w, pos)
  end.
Definition indent_width (bs : bytes) (cur : Z) : Z * Z := indent_width_pos bs cur 0 0.

Definition tab_width (cur : Z) : Z := 4 - cur mod 4.

(* blockquoteParser.process: (reader, matched) *)
Definition bq_process (r : reader) : result (reader * bool) :=
  x <- r_peek_line r ;;
  let '(r, line, _) := x in
  match line with
  | None => Panic                                      (* util.IndentWidth(nil..) then line[pos]: pos >= len -> false *)
  | Some line =>
    y <- r_line_offset r ;;
    let '(r, off) := y in
    let '(w, pos) := indent_width line off in
    if (3 <? w) || (zlen line <=? pos) then Ok (r, false)
    else
      c <- at_ line pos ;;
      if negb (N.eqb c 62) then Ok (r, false)
      else
        let pos := pos + 1 in
        if zlen line <=? pos then (r <- r_advance r pos ;; Ok (r, true))
        else
          d <- at_ line pos ;;
          if N.eqb d 10 then (r <- r_advance r pos ;; Ok (r, true))
          else
            r <- r_advance r pos ;;
            if N.eqb d 32 || N.eqb d 9 then
              z <- r_line_offset r ;;
              let '(r, off2) := z in
              let padding := if N.eqb d 9 then tab_width off2 - 1 else 0 in
              r <- r_advance_and_set_padding r 1 padding ;;
              Ok (r, true)
            else Ok (r, true)
  end.

(* with a nil line the Go code computes IndentWidth(nil) = (0,0) and pos >= len(line): false *)
Definition bq_process_total (r : reader) : result (reader * bool) :=
  x <- r_peek_line r ;;
  let '(r', line, _) := x in
  match line with
  | None => Ok (r', false)
  | Some _ => bq_process r
  end.

Section WithTables.
Variable space_table : list N.
(* the amount a block parser advances to consume a line up to (not including) its trailing
   white space: segment.Len() - util.TrimRightSpaceLength(line) *)
Definition rest_of_line_advance (line : bytes) : Z := zlen line - trim_right_space_len space_table line.
End WithTables.
