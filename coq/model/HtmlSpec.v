(* Specification side of the L1 renderer: the well-formedness predicate on trees (the
   hypothesis of every renderer theorem; it is C05's statement restricted to what the renderer
   relies on, and is evaluated on the real parser's output on every run), the language of inert
   markup (C03, with the URL clause of C04 built into the attribute predicate), and the three
   option rewrite relations (C10). *)
Require Import GM.model.Base GM.model.Util GM.model.Reader GM.model.HtmlDecode GM.model.HtmlWriter GM.model.Html.
From Coq Require Import ZArith.
Open Scope N_scope.

(* ---------- well-formed trees ---------- *)
Definition seg_in (src : bytes) (s : seg) : bool :=
  ((0 <=? s_start s) && (s_start s <=? s_stop s) && (s_stop s <=? zlen src) && (0 <=? s_pad s))%Z.
Definition all_bytes_b (v : bytes) : bool := forallb (fun c => c <? 256) v.
Definition attrs_ok (a : option (list attr)) : bool :=
  match a with
  | None => true
  | Some l => forallb (fun x => attr_name_ok (a_name x) && all_bytes_b (aval_bytes (a_val x))) l
  end.

(* a character reference body between & and ; *)
Definition ref_body_ok (n : bytes) : bool :=
  match n with
  | [] => false
  | 35 :: x :: ds => if (x =? 120) || (x =? 88) then negb (match ds with [] => true | _ => false end) && forallb is_hex ds
                     else forallb is_numeric (x :: ds)
  | 35 :: [] => false
  | _ => forallb is_alnum n
  end.
(* text that a browser cannot take for markup: no raw < > double-quote; every & starts a reference *)
Fixpoint text_ok_fuel (fuel : nat) (v : bytes) : bool :=
  match fuel with
  | O => match v with [] => true | _ => false end
  | S f =>
    match v with
    | [] => true
    | c :: rest =>
      if (c =? 60) || (c =? 62) || (c =? 34) then false
      else if c =? 38 then
        let '(body, tl) := read_while (fun x => negb (x =? 59) && negb (x =? 38) && negb (x =? 60) && negb (x =? 62) && negb (x =? 34) && negb (x =? 32)) rest in
        match tl with
        | 59 :: tl' => ref_body_ok body && text_ok_fuel f tl'
        | _ => false
        end
      else text_ok_fuel f rest
    end
  end.
Definition text_ok (v : bytes) : bool := text_ok_fuel (length v) v.

Definition is_table_cell (t : tree) : bool := match t_kind t with KTableCell _ => true | _ => false end.
Definition is_table_row (t : tree) : bool := match t_kind t with KTableRow => true | _ => false end.
Definition is_text_node (t : tree) : bool := match t_kind t with KText _ _ _ _ => true | _ => false end.
Definition style_ok (a : option (list attr)) : bool :=
  match a with
  | Some l => match find_attr a_style l with Some (AVBytes _) | None => true | Some _ => false end
  | None => true
  end.

(* local conditions on one node (children given for the shape conditions) *)
Definition node_ok (src : bytes) (in_table : bool) (t : tree) : bool :=
  match t with
  | Node k lines attrs cs =>
    forallb (seg_in src) lines && attrs_ok attrs &&
    match k with
    | KHeading lv => ((1 <=? lv) && (lv <=? 6))%Z
    | KFencedCodeBlock (Some lg) => all_bytes_b lg
    | KHTMLBlock (Some cl) => seg_in src cl
    | KText s _ _ _ => seg_in src s
    | KString v raw code => all_bytes_b v && (negb code || text_ok v)
    | KCodeSpan => forallb is_text_node cs
    | KLink d (Some ti) | KImage d (Some ti) => all_bytes_b d && all_bytes_b ti
    | KLink d None | KImage d None => all_bytes_b d
    | KAutoLink _ u l => all_bytes_b u && all_bytes_b l
    | KRawHTML segs => forallb (seg_in src) segs
    | KTable =>
        match cs with
        | Node KTableHeader _ _ hc :: rows => forallb is_table_cell hc && forallb is_table_row rows
        | _ => false
        end
    | KTableHeader | KTableRow => in_table && forallb is_table_cell cs
    | KTableCell _ => style_ok attrs
    | _ => true
    end
  end.

(* in_table: the node is a child of a Table; in_row: a child of a TableHeader / TableRow *)
Fixpoint wf_node (src : bytes) (in_table in_row : bool) (t : tree) {struct t} : bool :=
  node_ok src in_table t &&
  (match t_kind t with KTableCell _ => in_row | _ => true end) &&
  (fix go (l : list tree) : bool :=
     match l with
     | [] => true
     | ch :: rest =>
       wf_node src (match t_kind t with KTable => true | _ => false end)
                   (match t_kind t with KTableHeader | KTableRow => true | _ => false end) ch && go rest
     end) (t_children t).

Definition wf_tree (src : bytes) (t : tree) : bool := all_bytes_b src && wf_node src false false t.

(* ---------- inert markup ---------- *)
Inductive TextOut : bytes -> Prop :=
| to_nil : TextOut []
| to_plain c w : c <> 60 -> c <> 62 -> c <> 34 -> c <> 38 -> TextOut w -> TextOut (c :: w)
| to_ref body w : ref_body_ok body = true -> TextOut w -> TextOut ([38] ++ body ++ [59] ++ w).

Definition a_href := [104;114;101;102].
Definition a_src := [115;114;99].
(* one attribute:  SP name =" value "  ; the value of href / src is additionally not a URL a
   browser would run or read from the local disk (C04) *)
Inductive AttrOut : bytes -> Prop :=
| at_one name val : attr_name_ok name = true -> TextOut val ->
    ((name = a_href \/ name = a_src) -> browser_dangerous val = false) ->
    AttrOut ([32] ++ name ++ [61;34] ++ val ++ [34]).
Inductive AttrsT : bytes -> Prop :=
| att_nil : AttrsT []
| att_cons a w : AttrOut a -> AttrsT w -> AttrsT (a ++ w).

Definition void_names : list bytes := [n_hr; [98;114]; [105;109;103]; [105;110;112;117;116]].   (* hr br img input *)
Definition elem_names : list bytes :=
  [[104;49]; [104;50]; [104;51]; [104;52]; [104;53]; [104;54]; n_blockquote; n_pre; n_code; n_ul; n_ol; n_li; n_p; n_a;
   n_em; n_strong; n_del; n_table; n_thead; n_tbody; n_tr; n_th; n_td; [100;105;118]; [115;117;112]; n_dl; n_dt; n_dd].

Inductive Inert : bytes -> Prop :=
| in_nil : Inert []
| in_app a b : Inert a -> Inert b -> Inert (a ++ b)
| in_text t : TextOut t -> Inert t
| in_omitted : Inert omitted
| in_void name attrs (x : bool) : In name void_names -> AttrsT attrs ->
    Inert ([60] ++ name ++ attrs ++ (if x then [32;47;62] else [62]))
| in_elem name attrs body : In name elem_names -> AttrsT attrs -> Inert body ->
    Inert ([60] ++ name ++ attrs ++ [62] ++ body ++ [60;47] ++ name ++ [62]).

(* XHTML: every void element is written with " />" *)
Inductive InertX : bytes -> Prop :=
| ix_nil : InertX []
| ix_app a b : InertX a -> InertX b -> InertX (a ++ b)
| ix_text t : TextOut t -> InertX t
| ix_omitted : InertX omitted
| ix_void name attrs : In name void_names -> AttrsT attrs -> InertX ([60] ++ name ++ attrs ++ [32;47;62])
| ix_elem name attrs body : In name elem_names -> AttrsT attrs -> InertX body ->
    InertX ([60] ++ name ++ attrs ++ [62] ++ body ++ [60;47] ++ name ++ [62]).

(* ---------- option rewrite relations (C10) ---------- *)
(* b is a with void elements closed by " />" instead of ">" *)
Inductive XhtmlRel : bytes -> bytes -> Prop :=
| xr_eq a : XhtmlRel a a
| xr_app a a' b b' : XhtmlRel a a' -> XhtmlRel b b' -> XhtmlRel (a ++ b) (a' ++ b')
| xr_void name attrs : In name void_names -> XhtmlRel ([60] ++ name ++ attrs ++ [62]) ([60] ++ name ++ attrs ++ [32;47;62]).

(* b is a with a <br> (in the dialect's spelling) put before the newline of soft line breaks *)
Inductive HardWrapRel (x : bool) : bytes -> bytes -> Prop :=
| hr_eq a : HardWrapRel x a a
| hr_app a a' b b' : HardWrapRel x a a' -> HardWrapRel x b b' -> HardWrapRel x (a ++ b) (a' ++ b')
| hr_br : HardWrapRel x [10] (if x then [60;98;114;32;47;62;10] else [60;98;114;62;10]).

(* b is a with placeholder comments replaced by raw bytes and blanked URLs by actual ones *)
Inductive UnsafeRel : bytes -> bytes -> Prop :=
| ur_eq a : UnsafeRel a a
| ur_app a a' b b' : UnsafeRel a a' -> UnsafeRel b b' -> UnsafeRel (a ++ b) (a' ++ b')
| ur_raw raw : UnsafeRel omitted raw
| ur_raw_nl raw : UnsafeRel (omitted ++ [10]) raw
| ur_url v : UnsafeRel [] v.
