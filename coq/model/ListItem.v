(* Model of the list-item arithmetic of parser/list.go and parser/list_item.go (after the fix:
   commit on column-based offsets): parseListItem, matchesListItem, calcListOffset,
   util.IndentPosition(Padding) and listItemParser.Open, over the reader model.  Used by C02
   (marker gaps written with blanks or tabs) and C08. *)
Require Import GM.model.Base GM.model.Util GM.model.Reader GM.model.Blocks.
From Coq Require Import ZArith.
Open Scope Z_scope.

Section WithTables.
Variable space_table : list N.
Notation is_space := (is_space space_table).

Fixpoint count_blanks (l : bytes) : Z :=
  match l with c :: r => if N.eqb c 32 then 1 + count_blanks r else 0 | [] => 0 end.
Fixpoint count_digits (l : bytes) : Z :=
  match l with c :: r => if (N.leb 48 c && N.leb c 57)%bool then 1 + count_digits r else 0 | [] => 0 end.
Definition zskip {A} (n : Z) (l : list A) : list A := skipn (Z.to_nat n) l.
Definition zfirst {A} (n : Z) (l : list A) : list A := firstn (Z.to_nat n) l.
Definition nth_byte (l : bytes) (i : Z) : N := nth (Z.to_nat i) l 0%N.   (* only used under i < len *)

Record lmatch := { m1 : Z; m2 : Z; m3 : Z; m4 : Z; m5 : Z }.   (* match[1..5]; match[0] is always 0 *)
Definition no_match : lmatch := {| m1 := 0; m2 := 0; m3 := 0; m4 := 0; m5 := 0 |}.

(* the common tail of parseListItem once the marker has been read up to index i (= match[3]) *)
Definition parse_list_item_tail (line : bytes) (ind i : Z) (typ : N) : lmatch * N :=
  let l := zlen line in
  let ret := {| m1 := ind; m2 := ind; m3 := i; m4 := 0; m5 := 0 |} in
  if ((i <? l) && negb (N.eqb (nth_byte line i) 10) && (fst (indent_width (zskip i line) 0) =? 0))%bool
  then (ret, 0%N)
  else if l <=? i then ({| m1 := ind; m2 := ind; m3 := i; m4 := -1; m5 := -1 |}, typ)
  else
    let e := if (N.eqb (nth_byte line (l - 1)) 10 && negb (N.eqb (nth_byte line i) 10))%bool then l - 1 else l in
    ({| m1 := ind; m2 := ind; m3 := i; m4 := i; m5 := e |}, typ).

(* parseListItem: typ 0 = notList, 1 = bullet, 2 = ordered *)
Definition parse_list_item (line : bytes) : lmatch * N :=
  let l := zlen line in
  let i := count_blanks line in
  if 3 <? i then (no_match, 0%N)
  else if l <=? i then ({| m1 := i; m2 := i; m3 := 0; m4 := 0; m5 := 0 |}, 0%N)
  else
    let c := nth_byte line i in
    if (N.eqb c 45 || N.eqb c 42 || N.eqb c 43)%bool then parse_list_item_tail line i (i + 1) 1%N
    else
      let nd := count_digits (zskip i line) in
      let j := i + nd in
      if ((nd =? 0) || (9 <? nd))%bool then ({| m1 := i; m2 := i; m3 := j; m4 := 0; m5 := 0 |}, 0%N)
      else if ((j <? l) && (N.eqb (nth_byte line j) 46 || N.eqb (nth_byte line j) 41))%bool
           then parse_list_item_tail line i (j + 1) 2%N
           else ({| m1 := i; m2 := i; m3 := j; m4 := 0; m5 := 0 |}, 0%N).

Definition is_blank (v : bytes) : bool := forallb is_space v.

(* calcListOffset(source, match, lineOffset) *)
Definition calc_list_offset (line : bytes) (m : lmatch) (line_offset : Z) : Z :=
  if ((m4 m <? 0) || is_blank (zskip (m4 m) line))%bool then 1
  else
    let w := fst (indent_width (zskip (m4 m) line) (line_offset + m4 m)) in
    if 4 <? w then 1 else w.

(* util.IndentPositionPadding(bs, currentPos, paddingv, width): the loop, returning (w, i) *)
Fixpoint indent_position_loop (bs : bytes) (cur w i p width : Z) : Z * Z :=
  match bs with
  | [] => (w, i)
  | c :: r =>
    if 0 <? p then indent_position_loop r cur (w + 1) (i + 1) (p - 1) width
    else if (N.eqb c 9 && (w <? width))%bool then indent_position_loop r cur (w + tab_width (cur + w)) (i + 1) p width
    else if (N.eqb c 32 && (w <? width))%bool then indent_position_loop r cur (w + 1) (i + 1) p width
    else (w, i)
  end.
Definition indent_position_padding (bs : bytes) (cur paddingv width : Z) : Z * Z :=
  if width =? 0 then (0, paddingv)
  else let '(w, i) := indent_position_loop bs cur 0 0 paddingv width in
       if width <=? w then (i - paddingv, w - width) else (-1, -1).
Definition indent_position (bs : bytes) (cur width : Z) : Z * Z := indent_position_padding bs cur 0 width.

(* listItemParser.Open for a parent list whose last item has offset last_offset (0 when the
   list is empty).  None: the parser declines (reader untouched).  Some (offset, r', children):
   a ListItem with that Offset; children = false when the item starts with a blank line. *)
Definition list_item_open (last_offset : Z) (r : reader) : result (option (Z * reader * bool)) :=
  x <- r_peek_line r ;;
  let '(r, line, _) := x in
  match line with
  | None => Ok None                      (* parseListItem(nil): notList *)
  | Some line =>
    let '(m, typ) := parse_list_item line in
    if N.eqb typ 0 then Ok None
    else if 3 <? m1 m - last_offset then Ok None
    else
      y <- r_line_offset r ;;
      let '(r, off) := y in
      let item_offset := calc_list_offset line m off in
      let node_offset := m3 m + item_offset in
      if ((m4 m <? 0) || is_blank (zfirst (m5 m - m4 m) (zskip (m4 m) line)))%bool then Ok (Some (node_offset, r, false))
      else
        let '(pos, padding) := indent_position (zskip (m4 m) line) (off + m4 m) item_offset in
        r <- r_advance_and_set_padding r (m3 m + pos) padding ;;
        Ok (Some (node_offset, r, true))
  end.

End WithTables.
