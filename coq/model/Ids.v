(* Model of parser.ids (parser.go:65): Generate and Put on the per-document id table (C15). *)
Require Import GM.model.Base GM.model.Util.
Open Scope N_scope.

Section WithTables.
Variable utf8len_table : list N.
Variable space_table : list N.
Variable spaces : bytes.

Definition mem (t : list bytes) (x : bytes) : bool := existsb (bytes_eqb x) t.

(* one byte of the slug: letters and digits (lower-cased), space-like and - _ become '-' *)
Definition slug1 (c : N) : bytes :=
  if is_alnum c then [if (65 <=? c) && (c <=? 90) then c + 32 else c]
  else if is_space space_table c || (c =? 45) || (c =? 95) then [45]
  else [].

(* for i := 0; i < len(value); { l := UTF8Len(value[i]); i += l; if l != 1 continue; ... } *)
Fixpoint slug_loop (fuel : nat) (v : bytes) : bytes :=
  match fuel with
  | O => []
  | S f =>
    match v with
    | [] => []
    | c :: rest =>
      let l := u8len utf8len_table c in
      if l =? 1 then slug1 c ++ slug_loop f rest
      else slug_loop f (skipn (N.to_nat l - 1) rest)
    end
  end.

Definition slug (v : bytes) (is_heading : bool) : bytes :=
  let v := trim_right (trim_left v spaces) spaces in
  match slug_loop (length v) v with
  | [] => if is_heading then [104; 101; 97; 100; 105; 110; 103]   (* "heading" *) else [105; 100]  (* "id" *)
  | r => r
  end.

(* fmt %d *)
Fixpoint dec_fuel (fuel : nat) (n : N) (acc : bytes) : bytes :=
  match fuel with
  | O => acc
  | S f => if n <? 10 then (48 + n) :: acc else dec_fuel f (n / 10) ((48 + n mod 10) :: acc)
  end.
Definition dec (n : N) : bytes := dec_fuel (S (N.to_nat (N.log2 n))) n [].

(* for i := 1; ; i++ { if result-i is free, take it } *)
Fixpoint probe (fuel : nat) (t : list bytes) (base : bytes) (i : N) : result bytes :=
  match fuel with
  | O => OutOfFuel
  | S f =>
    let cand := base ++ [45] ++ dec i in
    if mem t cand then probe f t base (i + 1) else Ok cand
  end.

Definition generate (t : list bytes) (v : bytes) (is_heading : bool) : result (bytes * list bytes) :=
  let r := slug v is_heading in
  if mem t r then (c <- probe (S (length t)) t r 1 ;; Ok (c, c :: t))
  else Ok (r, r :: t).

Definition put (t : list bytes) (v : bytes) : list bytes := v :: t.

(* a document: the ids of its headings, in order, from a fresh table *)
Fixpoint generate_all (t : list bytes) (vs : list bytes) : result (list bytes) :=
  match vs with
  | [] => Ok []
  | v :: rest =>
    x <- generate t v true ;;
    let '(r, t') := x in
    rs <- generate_all t' rest ;;
    Ok (r :: rs)
  end.

End WithTables.

Definition id_char (c : N) : bool :=
  ((97 <=? c) && (c <=? 122)) || ((48 <=? c) && (c <=? 57)) || (c =? 45).
