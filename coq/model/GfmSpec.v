(* C17 as a predicate on trees, for the GFM parser model (model/GfmI.v): every Table node is
   rectangular.  GfmTablesOk evaluates it on the model's tree (case kind GfmTablesOk in the
   correspondence runs: the expected answer is always true); proofs/GfmTableRect.v proves it. *)
Require Import GM.model.Base GM.model.Util GM.model.Reader GM.model.Regex GM.model.HtmlWriter GM.model.Html GM.model.HtmlI
               GM.model.TableX GM.model.BlockParse GM.model.InlineParse GM.model.BlockParseX GM.model.InlineParseX
               GM.model.GfmParse GM.model.GfmI.
From Coq Require Import List ZArith Bool.
Import ListNotations.

Definition align_eqb (a b : align) : bool :=
  match a, b with ALeft, ALeft | ARight, ARight | ACenter, ACenter | ANone, ANone => true | _, _ => false end.
Definition cell_align (t : tree) : option align := match t with Node (KTableCell a) _ _ _ => Some a | _ => None end.
Definition is_cell (t : tree) : bool := match cell_align t with Some _ => true | None => false end.
(* a Table: its first child is the header, the others are rows; all hold cells only; every row
   is as long as the header, and every cell written in the source (a cell with a line) has the
   alignment of its column *)
Definition table_rect (t : tree) : bool :=
  match t with
  | Node KTable _ _ (Node KTableHeader _ _ hc :: rows) =>
      negb (match hc with [] => true | _ => false end) && forallb is_cell hc &&
      forallb (fun r => match r with
                        | Node KTableRow _ _ cs => forallb is_cell cs && Nat.eqb (length cs) (length hc) &&
                            forallb (fun p => match fst p with
                                              | Node _ [] _ _ => true   (* a cell that pads a short row: not written in the source *)
                                              | _ => match cell_align (fst p), cell_align (snd p) with
                                                     | Some a, Some b => align_eqb a b | _, _ => false end
                                              end) (combine cs hc)
                        | _ => false end) rows
  | Node KTable _ _ _ => false
  | _ => true
  end.
(* every node of the tree that is a Table is rectangular; rows, headers and cells occur nowhere else *)
Fixpoint tables_ok (in_table : bool) (t : tree) {struct t} : bool :=
  match t with
  | Node k _ _ kids =>
    table_rect t &&
    (match k with KTableHeader | KTableRow => in_table | _ => true end) &&
    (fix go (l : list tree) : bool := match l with [] => true | x :: r => tables_ok (match k with KTable => true | _ => false end) x && go r end) kids
  end.

Definition GfmTablesOk (xc : xcfg) (src : bytes) : result bool :=
  t <- ParseTreeX xc src ;; Ok (tables_ok false t).
