(* The regular expressions regenerated from the code, looked up by name (correspondence kind Regex). *)
Require Import GM.model.Base GM.model.Regex GM.gen.Regexes.
Fixpoint lookup_re (name : bytes) (l : list (bytes * (re * nat))) : option (re * nat) :=
  match l with
  | [] => None
  | (n, v) :: tl => if bytes_eqb n name then Some v else lookup_re name tl
  end.
Definition RegexFind (name s : bytes) : option (option caps * nat) :=
  match lookup_re name all_regexes with
  | Some (r, g) => Some (re_find r s, g)
  | None => None
  end.
