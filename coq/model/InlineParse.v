(* Model of the inline phase of parser.Parse for the default configuration: parser.go
   parseBlock (with the fix: commits), the five default inline parsers (code_span.go via
   model/CodeSpan.v, link.go, auto_link.go, raw_html.go, emphasis.go), delimiter.go
   ProcessDelimiters, the delimiter list of the parse context (PushDelimiter, RemoveDelimiter,
   ClearDelimiters), the link label state list and the link bottom stack, transcribed function
   by function.  The inline nodes of one block live in a heap addressed by number (node 0 is
   the block itself); delimiters and label states are nodes of that heap, as in the Go code. *)
Require Import GM.model.Base GM.model.Util GM.model.Reader GM.model.Blocks GM.model.ListItem
               GM.model.LeafBlocks GM.model.CodeSpan GM.model.LinkDest GM.model.Regex GM.model.Delim
               GM.model.HtmlWriter GM.model.Html GM.model.BlockParse.
From Coq Require Import ZArith.
Open Scope Z_scope.

Inductive ikind :=
| IRoot
| IText (s : seg) (soft hard raw : bool)
| ICodeSpan
| IEmphasis (level : Z)
| ILink (dest : bytes) (title : option bytes)
| IImage (dest : bytes) (title : option bytes)
| IAutoLink (email : bool) (s : seg)
| IRawHTML (segs : list seg)
| IDelim (s : seg) (can_open can_close : bool) (len orig : Z) (ch : N) (dprev dnext : option nat)
| ILabel (s : seg) (is_image : bool) (lprev lnext lfirst llast : option nat).

Record inode := { ik : ikind; ipar : option nat; ich : list nat }.
Definition iheap := list inode.
Definition iget (h : iheap) (i : nat) : result inode :=
  match nth_error h i with Some n => Ok n | None => Panic end.
Fixpoint iset (h : iheap) (i : nat) (n : inode) : iheap :=
  match h, i with
  | [], _ => []
  | _ :: t, O => n :: t
  | x :: t, S k => x :: iset t k n
  end.
Definition iupd (h : iheap) (i : nat) (f : inode -> inode) : result iheap :=
  n <- iget h i ;; Ok (iset h i (f n)).
Definition iset_kind n k := {| ik := k; ipar := ipar n; ich := ich n |}.
Definition iset_par n p := {| ik := ik n; ipar := p; ich := ich n |}.
Definition iset_ch n c := {| ik := ik n; ipar := ipar n; ich := c |}.

(* the bottom argument of ProcessDelimiters / ClearDelimiters: a nil interface, or an
   interface holding a *Delimiter that may itself be nil (pushLinkBottom stores
   pc.LastDelimiter() whatever it is) *)
Inductive bottom := BNil | BPtr (p : option nat).
Definition is_bottom (b : bottom) (x : nat) : bool :=
  match b with BPtr (Some y) => Nat.eqb x y | _ => false end.

Record ictx := {
  i_h : iheap;
  i_dfirst : option nat; i_dlast : option nat;      (* pc.delimiters, pc.lastDelimiter *)
  i_labels : option nat;                            (* linkLabelStateKey *)
  i_bottoms : list (option nat)                     (* linkBottom: [] nil, [x] a node, else a slice *)
}.
Definition cx_h c v := {| i_h := v; i_dfirst := i_dfirst c; i_dlast := i_dlast c; i_labels := i_labels c; i_bottoms := i_bottoms c |}.
Definition cx_d c f l := {| i_h := i_h c; i_dfirst := f; i_dlast := l; i_labels := i_labels c; i_bottoms := i_bottoms c |}.
Definition cx_labels c v := {| i_h := i_h c; i_dfirst := i_dfirst c; i_dlast := i_dlast c; i_labels := v; i_bottoms := i_bottoms c |}.
Definition cx_bottoms c v := {| i_h := i_h c; i_dfirst := i_dfirst c; i_dlast := i_dlast c; i_labels := i_labels c; i_bottoms := v |}.

Definition new_inode (c : ictx) (k : ikind) : ictx * nat :=
  (cx_h c (i_h c ++ [{| ik := k; ipar := None; ich := [] |}]), length (i_h c)).

(* ---- tree surgery (ast.BaseNode, list-of-children view proved in C13) ---- *)
Definition i_detach (h : iheap) (c : nat) : result iheap :=
  n <- iget h c ;;
  match ipar n with
  | None => Ok h
  | Some p =>
    h <- iupd h p (fun m => iset_ch m (remove_id c (ich m))) ;;
    iupd h c (fun m => iset_par m None)
  end.
Definition i_append (h : iheap) (p c : nat) : result iheap :=
  h <- i_detach h c ;;
  h <- iupd h c (fun m => iset_par m (Some p)) ;;
  iupd h p (fun m => iset_ch m (ich m ++ [c])).
Definition i_remove (h : iheap) (p c : nat) : result iheap :=
  n <- iget h c ;;
  if opt_nat_eqb (ipar n) (Some p) then i_detach h c else Ok h.
Fixpoint insert_before_id (x y : nat) (l : list nat) : list nat :=
  match l with [] => [y] | z :: t => if Nat.eqb x z then y :: z :: t else z :: insert_before_id x y t end.
(* InsertBefore(self, ref, new) with ref a child of self *)
Definition i_insert_before (h : iheap) (p ref new : nat) : result iheap :=
  r <- iget h ref ;;
  if opt_nat_eqb (ipar r) (Some p) then
    h <- i_detach h new ;;
    h <- iupd h p (fun m => iset_ch m (insert_before_id ref new (ich m))) ;;
    iupd h new (fun m => iset_par m (Some p))
  else i_append h p new.
Definition i_replace (h : iheap) (p old new : nat) : result iheap :=
  h <- i_insert_before h p old new ;;
  i_remove h p old.
Fixpoint next_in (x : nat) (l : list nat) : option nat :=
  match l with
  | y :: ((z :: _) as tl) => if Nat.eqb x y then Some z else next_in x tl
  | _ => None
  end.
Fixpoint prev_in (x : nat) (l : list nat) (prev : option nat) : option nat :=
  match l with
  | [] => None
  | y :: tl => if Nat.eqb x y then prev else prev_in x tl (Some y)
  end.
Definition i_next (h : iheap) (x : nat) : result (option nat) :=
  n <- iget h x ;;
  match ipar n with None => Ok None | Some p => pn <- iget h p ;; Ok (next_in x (ich pn)) end.
Definition i_prev (h : iheap) (x : nat) : result (option nat) :=
  n <- iget h x ;;
  match ipar n with None => Ok None | Some p => pn <- iget h p ;; Ok (prev_in x (ich pn) None) end.
(* InsertAfter(self, ref, new) *)
Definition i_insert_after (h : iheap) (p ref new : nat) : result iheap :=
  r <- iget h ref ;;
  if opt_nat_eqb (ipar r) (Some p) then
    h <- i_detach h new ;;
    nx <- i_next h ref ;;
    match nx with
    | Some y => i_insert_before h p y new
    | None => i_append h p new
    end
  else i_append h p new.

Definition mk_text (s : seg) : ikind := IText s false false false.

(* ast.MergeOrAppendTextSegment *)
Definition merge_or_append (c : ictx) (parent : nat) (s : seg) : result ictx :=
  pn <- iget (i_h c) parent ;;
  let fresh :=
    let '(c, t) := new_inode c (mk_text s) in
    h <- i_append (i_h c) parent t ;; Ok (cx_h c h) in
  match last_id (ich pn) with
  | None => fresh
  | Some l =>
    ln <- iget (i_h c) l ;;
    match ik ln with
    | IText ts soft hard raw =>
      if (s_stop ts =? s_start s) && negb soft then
        h <- iupd (i_h c) l (fun m => iset_kind m (IText (seg_with_stop ts (s_stop s)) soft hard raw)) ;;
        Ok (cx_h c h)
      else fresh
    | _ => fresh
    end
  end.

(* ast.MergeOrReplaceTextSegment(parent, n, s) *)
Definition merge_or_replace (c : ictx) (parent n : nat) (s : seg) : result ictx :=
  pv <- i_prev (i_h c) n ;;
  let repl :=
    let '(c, t) := new_inode c (mk_text s) in
    h <- i_replace (i_h c) parent n t ;; Ok (cx_h c h) in
  match pv with
  | None => repl
  | Some p =>
    pn <- iget (i_h c) p ;;
    match ik pn with
    | IText ts soft hard raw =>
      if (s_stop ts =? s_start s) && negb soft then
        h <- iupd (i_h c) p (fun m => iset_kind m (IText (seg_with_stop ts (s_stop s)) soft hard raw)) ;;
        h <- i_remove h parent n ;;
        Ok (cx_h c h)
      else repl
    | _ => repl
    end
  end.

(* ---- delimiters of the parse context ---- *)
Definition dget (h : iheap) (d : nat) : result (seg * bool * bool * Z * Z * N * option nat * option nat) :=
  n <- iget h d ;;
  match ik n with
  | IDelim s co cc len orig ch p nx => Ok (s, co, cc, len, orig, ch, p, nx)
  | _ => Panic
  end.
Definition dset_links (h : iheap) (d : nat) (p nx : option nat) : result iheap :=
  n <- iget h d ;;
  match ik n with
  | IDelim s co cc len orig ch _ _ => Ok (iset h d (iset_kind n (IDelim s co cc len orig ch p nx)))
  | _ => Panic
  end.
Definition dset_prev (h : iheap) (d : nat) (p : option nat) : result iheap :=
  x <- dget h d ;; let '(_, _, _, _, _, _, _, nx) := x in dset_links h d p nx.
Definition dset_next (h : iheap) (d : nat) (nx : option nat) : result iheap :=
  x <- dget h d ;; let '(_, _, _, _, _, _, p, _) := x in dset_links h d p nx.

(* PushDelimiter *)
Definition push_delimiter (c : ictx) (d : nat) : result ictx :=
  match i_dfirst c with
  | None => Ok (cx_d c (Some d) (Some d))
  | Some _ =>
    match i_dlast c with
    | None => Panic
    | Some l =>
      h <- dset_next (i_h c) l (Some d) ;;
      h <- dset_prev h d (Some l) ;;
      Ok (cx_d (cx_h c h) (i_dfirst c) (Some d))
    end
  end.

(* RemoveDelimiter *)
Definition remove_delimiter (c : ictx) (d : nat) : result ictx :=
  x <- dget (i_h c) d ;;
  let '(sg, _, _, len, _, _, p, nx) := x in
  c <- match p with
       | None => Ok (cx_d c nx (i_dlast c))
       | Some pp =>
         h <- dset_next (i_h c) pp nx ;;
         h <- match nx with Some n => dset_prev h n (Some pp) | None => Ok h end ;;
         Ok (cx_h c h)
       end ;;
  let c := match nx with None => cx_d c (i_dfirst c) p | Some _ => c end in
  h <- match i_dfirst c with Some f => dset_prev (i_h c) f None | None => Ok (i_h c) end ;;
  h <- match i_dlast c with Some l => dset_next h l None | None => Ok h end ;;
  h <- dset_links h d None None ;;
  let c := cx_h c h in
  n <- iget (i_h c) d ;;
  match ipar n with
  | None => Panic                                   (* d.Parent() is nil *)
  | Some par =>
    if negb (len =? 0) then merge_or_replace c par d sg
    else h <- i_remove (i_h c) par d ;; Ok (cx_h c h)
  end.

Definition is_delim (h : iheap) (x : nat) : result bool :=
  n <- iget h x ;; Ok (match ik n with IDelim _ _ _ _ _ _ _ _ => true | _ => false end).

(* ClearDelimiters(bottom) *)
Fixpoint clear_loop (fuel : nat) (c : ictx) (cur : option nat) (b : bottom) : result ictx :=
  match fuel with
  | O => OutOfFuel
  | S f =>
    match cur with
    | None => Ok c
    | Some x =>
      if is_bottom b x then Ok c
      else
        pv <- i_prev (i_h c) x ;;
        isd <- is_delim (i_h c) x ;;
        c <- (if isd then remove_delimiter c x else Ok c) ;;
        clear_loop f c pv b
    end
  end.
Definition clear_delimiters (c : ictx) (b : bottom) : result ictx :=
  match i_dlast c with
  | None => Ok c
  | Some l => clear_loop (S (length (i_h c))) c (Some l) b
  end.

(* Delimiter.CalcComsumption *)
Definition calc_consumption (o_close : bool) (o_len o_orig : Z) (c_open : bool) (c_len c_orig : Z) : Z :=
  if (o_close || c_open) && ((o_orig + c_orig) mod 3 =? 0) && negb (c_orig mod 3 =? 0) then 0
  else if (2 <=? o_len) && (2 <=? c_len) then 2 else 1.

(* the search for an opener: (found opener, consume, maybeOpener) *)
Fixpoint find_opener (fuel : nat) (h : iheap) (cur : option nat) (b : bottom)
                     (cl_open : bool) (cl_len cl_orig : Z) (cl_ch : N) (maybe : bool)
  : result (option (nat * Z) * bool) :=
  match fuel with
  | O => OutOfFuel
  | S f =>
    match cur with
    | None => Ok (None, maybe)
    | Some o =>
      if is_bottom b o then Ok (None, maybe)
      else
        x <- dget h o ;;
        let '(_, co, cc, len, orig, ch, p, _) := x in
        if co && N.eqb ch cl_ch then
          let consume := calc_consumption cc len orig cl_open cl_len cl_orig in
          if 0 <? consume then Ok (Some (o, consume), true)
          else find_opener f h p b cl_open cl_len cl_orig cl_ch true
        else find_opener f h p b cl_open cl_len cl_orig cl_ch maybe
    end
  end.

(* ConsumeCharacters *)
Definition consume_chars (h : iheap) (d : nat) (n : Z) : result iheap :=
  nd <- iget h d ;;
  match ik nd with
  | IDelim s co cc len orig ch p nx =>
    let len' := len - n in
    Ok (iset h d (iset_kind nd (IDelim (seg_with_stop s (s_start s + len')) co cc len' orig ch p nx)))
  | _ => Panic
  end.

(* move the siblings after `from` up to (not including) `stop` under `node` *)
Fixpoint move_children (fuel : nat) (h : iheap) (cur : option nat) (stop : option nat) (node : nat) : result iheap :=
  match fuel with
  | O => OutOfFuel
  | S f =>
    match cur with
    | None => Ok h
    | Some x =>
      if opt_nat_eqb (Some x) stop then Ok h
      else
        nx <- i_next h x ;;
        h <- i_append h node x ;;
        move_children f h nx stop node
    end
  end.

(* remove the delimiters strictly between opener and closer *)
Fixpoint remove_between (fuel : nat) (c : ictx) (cur : option nat) (closer : nat) : result ictx :=
  match fuel with
  | O => OutOfFuel
  | S f =>
    match cur with
    | None => Ok c
    | Some x =>
      if Nat.eqb x closer then Ok c
      else
        d <- dget (i_h c) x ;;
        let '(_, _, _, _, _, _, _, nx) := d in
        c <- remove_delimiter c x ;;
        remove_between f c nx closer
    end
  end.

Fixpoint closer_loop (fuel : nat) (c : ictx) (closer : option nat) (b : bottom) : result ictx :=
  match fuel with
  | O => OutOfFuel
  | S f =>
    match closer with
    | None => Ok c
    | Some cl =>
      x <- dget (i_h c) cl ;;
      let '(_, c_open, c_close, c_len, c_orig, c_ch, c_prev, c_next) := x in
      if negb c_close then closer_loop f c c_next b
      else
        r <- find_opener (S (length (i_h c))) (i_h c) c_prev b c_open c_len c_orig c_ch false ;;
        let '(found, maybe) := r in
        match found with
        | None =>
          c <- (if negb maybe && negb c_open then remove_delimiter c cl else Ok c) ;;
          closer_loop f c c_next b
        | Some (op, consume) =>
          h <- consume_chars (i_h c) op consume ;;
          h <- consume_chars h cl consume ;;
          let c := cx_h c h in
          let '(c, node) := new_inode c (IEmphasis consume) in
          opn <- iget (i_h c) op ;;
          match ipar opn with
          | None => Panic
          | Some parent =>
            child <- i_next (i_h c) op ;;
            h <- move_children (S (length (i_h c))) (i_h c) child (Some cl) node ;;
            h <- i_insert_after h parent op node ;;
            let c := cx_h c h in
            od <- dget (i_h c) op ;;
            let '(_, _, _, _, _, _, _, o_next) := od in
            c <- remove_between (S (length (i_h c))) c o_next cl ;;
            od <- dget (i_h c) op ;;
            let '(_, _, _, o_len, _, _, _, _) := od in
            c <- (if o_len =? 0 then remove_delimiter c op else Ok c) ;;
            cd <- dget (i_h c) cl ;;
            let '(_, _, _, cl_len, _, _, _, cl_next) := cd in
            if cl_len =? 0 then
              c <- remove_delimiter c cl ;;
              closer_loop f c cl_next b
            else closer_loop f c (Some cl) b
          end
        end
    end
  end.

(* the first closer candidate when a bottom is given: the earliest Delimiter among the
   previous siblings of lastDelimiter, down to the bottom *)
Fixpoint earliest_delim (fuel : nat) (h : iheap) (cur : option nat) (b : bottom) (acc : option nat) : result (option nat) :=
  match fuel with
  | O => OutOfFuel
  | S f =>
    match cur with
    | None => Ok acc
    | Some x =>
      if is_bottom b x then Ok acc
      else
        isd <- is_delim h x ;;
        pv <- i_prev h x ;;
        earliest_delim f h pv b (if isd then Some x else acc)
    end
  end.

(* ProcessDelimiters(bottom, pc) *)
Definition process_delimiters (fuel : nat) (c : ictx) (b : bottom) : result ictx :=
  match i_dlast c with
  | None => Ok c
  | Some last =>
    closer <- match b with
              | BNil => Ok (i_dfirst c)
              | BPtr _ =>
                if is_bottom b last then Ok None
                else pv <- i_prev (i_h c) last ;; earliest_delim (S (length (i_h c))) (i_h c) pv b None
              end ;;
    match closer with
    | None => clear_delimiters c b
    | Some _ =>
      c <- closer_loop fuel c closer b ;;
      clear_delimiters c b
    end
  end.


(* ---- the link label state list (link.go) ---- *)
Definition lget (h : iheap) (x : nat) : result (seg * bool * option nat * option nat * option nat * option nat) :=
  n <- iget h x ;;
  match ik n with
  | ILabel s im p nx fs ls => Ok (s, im, p, nx, fs, ls)
  | _ => Panic
  end.
Definition lset (h : iheap) (x : nat) (p nx fs ls : option nat) : result iheap :=
  n <- iget h x ;;
  match ik n with
  | ILabel s im _ _ _ _ => Ok (iset h x (iset_kind n (ILabel s im p nx fs ls)))
  | _ => Panic
  end.

(* pushLinkLabelState *)
Definition push_label (c : ictx) (v : nat) : result ictx :=
  match i_labels c with
  | None =>
    x <- lget (i_h c) v ;;
    let '(_, _, p, nx, _, _) := x in
    h <- lset (i_h c) v p nx (Some v) (Some v) ;;
    Ok (cx_labels (cx_h c h) (Some v))
  | Some lst =>
    x <- lget (i_h c) lst ;;
    let '(_, _, p, nx, fs, ls) := x in
    match ls with
    | None => Panic                                 (* l.Next = v with l == nil *)
    | Some l =>
      h <- lset (i_h c) lst p nx fs (Some v) ;;
      y <- lget h l ;;
      let '(_, _, lp, _, lf, ll) := y in
      h <- lset h l lp (Some v) lf ll ;;
      z <- lget h v ;;
      let '(_, _, _, vn, vf, vl) := z in
      h <- lset h v (Some l) vn vf vl ;;
      Ok (cx_h c h)
    end
  end.

(* removeLinkLabelState *)
Definition remove_label (c : ictx) (d : nat) : result ictx :=
  match i_labels c with
  | None => Ok c
  | Some lst0 =>
    x <- lget (i_h c) d ;;
    let '(_, _, dp, dn, _, dl) := x in
    r <- match dp with
         | None =>
           match dn with
           | Some nl =>
             y <- lget (i_h c) nl ;;
             let '(_, _, _, nn, _, _) := y in
             h <- lset (i_h c) nl None nn (Some d) dl ;;
             Ok (cx_labels (cx_h c h) (Some nl), Some nl)
           | None => Ok (cx_labels c None, None)
           end
         | Some pp =>
           y <- lget (i_h c) pp ;;
           let '(_, _, ppv, _, pf, pl) := y in
           h <- lset (i_h c) pp ppv dn pf pl ;;
           h <- match dn with
                | Some nl => z <- lget h nl ;; let '(_, _, _, nn, nf, nl2) := z in lset h nl (Some pp) nn nf nl2
                | None => Ok h
                end ;;
           Ok (cx_h c h, Some lst0)
         end ;;
    let '(c, lst) := r in
    (* d.Next is read again after the relinking above (it is unchanged by it) *)
    h <- match lst, dn with
         | Some l, None =>
           y <- lget (i_h c) l ;; let '(_, _, lp, ln, lf, _) := y in lset (i_h c) l lp ln lf dp
         | _, _ => Ok (i_h c)
         end ;;
    h <- lset h d None None None None ;;
    Ok (cx_h c h)
  end.

(* linkLabelStateLength(v) for the list head captured before the removal *)
Definition label_length (h : iheap) (v : nat) : result Z :=
  x <- lget h v ;;
  let '(_, _, _, _, fs, ls) := x in
  match fs, ls with
  | Some f, Some l =>
    a <- lget h f ;; b <- lget h l ;;
    let '(sf, _, _, _, _, _) := a in
    let '(sl, _, _, _, _, _) := b in
    Ok (s_stop sl - s_start sf)
  | _, _ => Ok 0
  end.

(* pushLinkBottom / popLinkBottom *)
Definition push_bottom (c : ictx) : ictx := cx_bottoms c (i_bottoms c ++ [i_dlast c]).
Definition pop_bottom (c : ictx) : ictx * bottom :=
  match rev (i_bottoms c) with
  | [] => (c, BNil)
  | v :: pre => (cx_bottoms c (rev pre), BPtr v)
  end.

Section WithTables.
Variable space_table punct_table : list N.
Variable norm : bytes -> bytes.
Variable url_table email_table : list N.
Variable re_email_domain re_open_tag re_close_tag : re.
Variable punct_rune space_rune : N -> bool.
Variable refs : list (bytes * (bytes * option bytes)).
Notation is_space := (is_space space_table).
Notation is_punct := (is_punct punct_table).
Notation is_blank := (Reader.is_blank space_table).

Record ist := { t_c : ictx; t_r : breader }.
Definition ist_c s v := {| t_c := v; t_r := t_r s |}.
Definition ist_r s v := {| t_c := t_c s; t_r := v |}.
Definition ifuel (s : ist) : nat := 3 * length (b_src (t_r s)) + 3 * length (i_h (t_c s)) + 16.

Definition lookup_ref (label : bytes) : option (bytes * option bytes) :=
  let key := norm label in
  match find (fun e => bytes_eqb (fst e) key) refs with Some (_, v) => Some v | None => None end.

(* containsLink(last): last, its following siblings, and their descendants *)
Fixpoint contains_link (fuel : nat) (h : iheap) (ids : list nat) : result bool :=
  match fuel with
  | O => OutOfFuel
  | S f =>
    match ids with
    | [] => Ok false
    | x :: rest =>
      n <- iget h x ;;
      match ik n with
      | ILink _ _ => Ok true
      | _ => a <- contains_link f h (ich n) ;; if a then Ok true else contains_link f h rest
      end
    end
  end.
Fixpoint from_id (x : nat) (l : list nat) : list nat :=
  match l with [] => [] | y :: t => if Nat.eqb x y then l else from_id x t end.

(* processLinkLabel(parent, link, last, pc) *)
Definition process_link_label (s : ist) (link last : nat) : result ist :=
  let '(c, b) := pop_bottom (t_c s) in
  c <- process_delimiters (ifuel s) c b ;;
  nx <- i_next (i_h c) last ;;
  h <- move_children (S (length (i_h c))) (i_h c) nx None link ;;
  Ok (ist_c s (cx_h c h)).

(* the label-failure exit used four times in linkParser.Parse *)
Definition label_fail (s : ist) (last : nat) : result (ist * option nat) :=
  x <- lget (i_h (t_c s)) last ;;
  let '(sg, _, _, _, _, _) := x in
  n <- iget (i_h (t_c s)) last ;;
  match ipar n with
  | None => Panic
  | Some p =>
    c <- merge_or_replace (t_c s) p last sg ;;
    let '(c, _) := pop_bottom c in
    Ok (ist_c s c, None)
  end.

Definition bvalue (s : ist) (sg : seg) : result bytes := b_value (t_r s) sg.
Fixpoint bvalues (r : breader) (l : list seg) : result bytes :=
  match l with [] => Ok [] | x :: t => v <- b_value r x ;; w <- bvalues r t ;; Ok (v ++ w) end.

(* parseLinkTitle *)
Definition parse_link_title (r : breader) : result (breader * option bytes) :=
  x <- b_skip_spaces space_table (bfuel r) r ;;
  let '(r, _, _, _) := x in
  opener <- b_peek r ;;
  if negb (N.eqb opener 34 || N.eqb opener 39 || N.eqb opener 40) then Ok (r, None)
  else
    let closer := if N.eqb opener 40 then 41%N else opener in
    r <- b_advance r 1 ;;
    z <- b_find_closure punct_table (bfuel r) r opener closer link_fc_opts ;;
    let '(r, segs) := z in
    match segs with
    | None => Ok (r, None)
    | Some segs => t <- bvalues r segs ;; Ok (r, Some t)
    end.

Definition skip_spaces_r (r : breader) : result breader :=
  x <- b_skip_spaces space_table (bfuel r) r ;; let '(r, _, _, _) := x in Ok r.

(* parseLink: Some (dest, title) or None; the reader is left where the Go code leaves it *)
Definition parse_link (r : breader) : result (breader * option (bytes * option bytes)) :=
  r <- b_advance r 1 ;;
  r <- skip_spaces_r r ;;
  pk <- b_peek r ;;
  if N.eqb pk 41 then (r <- b_advance r 1 ;; Ok (r, Some ([], None)))
  else
    d <- b_parse_link_destination space_table punct_table r ;;
    let '(r, dest) := d in
    match dest with
    | None => Ok (r, None)
    | Some dest =>
      r <- skip_spaces_r r ;;
      pk <- b_peek r ;;
      if N.eqb pk 41 then (r <- b_advance r 1 ;; Ok (r, Some (dest, None)))
      else
        t <- parse_link_title r ;;
        let '(r, title) := t in
        match title with
        | None => Ok (r, None)
        | Some title =>
          r <- skip_spaces_r r ;;
          pk <- b_peek r ;;
          if N.eqb pk 41 then (r <- b_advance r 1 ;; Ok (r, Some (dest, Some title)))
          else Ok (r, None)
        end
    end.

(* parseReferenceLink: (link data, hasValue) *)
Definition parse_reference_link (s : ist) (last : nat) : result (breader * option (bytes * option bytes) * bool) :=
  let r := t_r s in
  let orgpos := b_pos r in
  r <- b_advance r 1 ;;
  z <- b_find_closure punct_table (bfuel r) r 91%N 93%N link_fc_opts ;;
  let '(r, segs) := z in
  match segs with
  | None => Ok (r, None, false)
  | Some segs =>
    v <- bvalues r segs ;;
    x <- lget (i_h (t_c s)) last ;;
    let '(lsg, _, _, _, _, _) := x in
    v <- (if is_blank v then b_value r (mkseg (s_stop lsg) (s_start orgpos - 1)) else Ok v) ;;
    if 999 <? zlen v then Ok (r, None, true)
    else
      match lookup_ref v with
      | None => Ok (r, None, true)
      | Some (d, t) => Ok (r, Some (d, t), true)
      end
  end.

(* linkParser.Parse *)
Definition link_parse (s : ist) (parent : nat) : result (ist * option nat) :=
  y <- b_peek_line (t_r s) ;;
  let '(r, line, segment) := y in
  let s := ist_r s r in
  match line with
  | None => Panic
  | Some [] => Panic
  | Some (c0 :: rest) =>
    let open_label (s : ist) (pos : Z) (is_image : bool) : result (ist * option nat) :=
      let start := if is_image then pos - 1 else pos in
      let '(c, st) := new_inode (t_c s) (ILabel (mkseg start (pos + 1)) is_image None None None None) in
      c <- push_label c st ;;
      r <- b_advance (t_r s) 1 ;;
      Ok ({| t_c := c; t_r := r |}, Some st) in
    if N.eqb c0 33 then
      match rest with
      | c1 :: _ =>
        if N.eqb c1 91 then
          r <- b_advance (t_r s) 1 ;;
          let s := {| t_c := push_bottom (t_c s); t_r := r |} in
          open_label s (s_start segment + 1) true
        else Ok (s, None)
      | [] => Ok (s, None)
      end
    else if N.eqb c0 91 then
      open_label (ist_c s (push_bottom (t_c s))) (s_start segment) false
    else
      (* ']' *)
      match i_labels (t_c s) with
      | None => Ok (s, None)
      | Some tlist =>
        x <- lget (i_h (t_c s)) tlist ;;
        let '(_, _, _, _, _, tl_last) := x in
        match tl_last with
        | None => Ok (ist_c s (fst (pop_bottom (t_c s))), None)
        | Some last =>
          r <- b_advance (t_r s) 1 ;;
          let s := ist_r s r in
          c <- remove_label (t_c s) last ;;
          let s := ist_c s c in
          len <- label_length (i_h (t_c s)) tlist ;;
          if 998 <? len then label_fail s last
          else
            lx <- lget (i_h (t_c s)) last ;;
            let '(lsg, is_image, _, _, _, _) := lx in
            ln <- iget (i_h (t_c s)) last ;;
            lpar <- match ipar ln with Some p => Ok p | None => Panic end ;;
            lparn <- iget (i_h (t_c s)) lpar ;;
            has_link <- (if is_image then Ok false
                         else contains_link (S (length (i_h (t_c s)))) (i_h (t_c s)) (from_id last (ich lparn))) ;;
            if has_link then label_fail s last
            else
              pk <- b_peek (t_r s) ;;
              let saved_l := b_line (t_r s) in
              let saved_pos := b_pos (t_r s) in
              (* outcome: inl = give up (already merged), inr (s, link data option) *)
              o <- (if N.eqb pk 40 then
                      p <- parse_link (t_r s) ;;
                      let '(r, res) := p in Ok (inr (ist_r s r, res))
                    else if N.eqb pk 91 then
                      p <- parse_reference_link s last ;;
                      let '(r, res, has_value) := p in
                      match res with
                      | None => if has_value then Ok (inl (ist_r s r)) else Ok (inr (ist_r s r, None))
                      | Some _ => Ok (inr (ist_r s r, res))
                      end
                    else Ok (inr (s, None))) ;;
              match o with
              | inl s => label_fail s last
              | inr (s, res) =>
                fin <- match res with
                       | Some dt => Ok (inr (s, dt))
                       | None =>
                         (* maybe a shortcut reference *)
                         r <- b_set_position (t_r s) saved_l saved_pos ;;
                         let s := ist_r s r in
                         v <- b_value (t_r s) (mkseg (s_stop lsg) (s_start segment)) ;;
                         if 999 <? zlen v then Ok (inl s)
                         else match lookup_ref v with
                              | None => Ok (inl s)
                              | Some dt => Ok (inr (s, dt))
                              end
                       end ;;
                match fin with
                | inl s => label_fail s last
                | inr (s, (dest, title)) =>
                  let '(c, link) := new_inode (t_c s) (ILink dest title) in
                  s <- process_link_label (ist_c s c) link last ;;
                  ln <- iget (i_h (t_c s)) last ;;
                  lpar <- match ipar ln with Some p => Ok p | None => Panic end ;;
                  h <- i_remove (i_h (t_c s)) lpar last ;;
                  let s := ist_c s (cx_h (t_c s) h) in
                  if is_image then
                    (* ast.NewImage(link): the children move to the image *)
                    let '(c, img) := new_inode (t_c s) (IImage dest title) in
                    lk <- iget (i_h c) link ;;
                    h <- (fix mv (l : list nat) (h : iheap) : result iheap :=
                            match l with [] => Ok h | x :: t => h <- i_append h img x ;; mv t h end) (ich lk) (i_h c) ;;
                    Ok (ist_c s (cx_h c h), Some img)
                  else Ok (s, Some link)
                end
              end
        end
      end
  end.

(* linkParser.CloseBlock *)
Fixpoint close_labels (fuel : nat) (c : ictx) (cur : option nat) : result ictx :=
  match fuel with
  | O => OutOfFuel
  | S f =>
    match cur with
    | None => Ok c
    | Some x =>
      l <- lget (i_h c) x ;;
      let '(sg, _, _, nx, _, _) := l in
      c <- remove_label c x ;;
      n <- iget (i_h c) x ;;
      match ipar n with
      | None => Panic
      | Some p =>
        let '(c, t) := new_inode c (mk_text sg) in
        h <- i_replace (i_h c) p x t ;;
        close_labels f (cx_h c h) nx
      end
    end
  end.
Definition link_close_block (c : ictx) : result ictx :=
  let c := cx_bottoms c [] in
  close_labels (S (length (i_h c))) c (i_labels c).

(* ---- auto_link.go with util.FindEmailIndex / FindURLIndex ---- *)
Definition tbit (t : list N) (c : N) (mask : N) : bool := N.eqb (N.land (tbl t 0%N c) mask) mask.
Fixpoint count_while (f : N -> bool) (l : bytes) : Z :=
  match l with c :: r => if f c then 1 + count_while f r else 0 | [] => 0 end.
Definition find_email_index (b : bytes) : Z :=
  let i := count_while (fun c => tbit email_table c 1) b in
  if i =? 0 then -1
  else if (zlen b <=? i) || negb (N.eqb (nth_byte b i) 64) then -1
  else
    let i := i + 1 in
    if zlen b <=? i then -1
    else match re_find re_email_domain (zskip i b) with
         | Some caps => match cap_at caps 0 with Some (_, e) => i + e | None => -1 end
         | None => -1
         end.
Definition find_url_index (b : bytes) : Z :=
  match b with
  | [] => -1
  | c0 :: rest =>
    if negb (tbit url_table c0 7) then -1
    else
      let i := 1 + count_while (fun c => tbit url_table c 4) rest in
      if (i =? 1) || (33 <? i) || (zlen b <=? i) then -1
      else if negb (N.eqb (nth_byte b i) 58) then -1
      else (i + 1) + count_while (fun c => tbit url_table c 1) (zskip (i + 1) b)
  end.

Definition autolink_parse (s : ist) : result (ist * option nat) :=
  y <- b_peek_line (t_r s) ;;
  let '(r, line, segment) := y in
  let s := ist_r s r in
  match line with
  | None | Some [] => Panic
  | Some (_ :: tl) =>
    let e := find_email_index tl in
    let '(stop, email) := if e <? 0 then (find_url_index tl, false) else (e, true) in
    if stop <? 0 then Ok (s, None)
    else
      let stop := stop + 1 in
      let l := line_of line in
      if (zlen l <=? stop) || negb (N.eqb (nth_byte l stop) 62) then Ok (s, None)
      else
        let '(c, n) := new_inode (t_c s) (IAutoLink email (mkseg (s_start segment + 1) (s_start segment + stop))) in
        r <- b_advance (t_r s) (stop + 1) ;;
        Ok ({| t_c := c; t_r := r |}, Some n)
  end.

(* ---- raw_html.go ---- *)
Fixpoint index_of (pat s : bytes) (i : Z) : Z :=
  match s with
  | [] => match pat with [] => i | _ => -1 end
  | _ :: tl => if prefix_of pat s then i else index_of pat tl (i + 1)
  end.

(* parseUntil / the tail loop of parseComment: collect segments until the closer *)
Fixpoint raw_until (fuel : nat) (r : breader) (closer : bytes) (offset : Z) (acc : list seg) : result (option (list seg * breader)) :=
  match fuel with
  | O => OutOfFuel
  | S f =>
    y <- b_peek_line r ;;
    let '(r, line, segment) := y in
    match line with
    | None => Ok None
    | Some line =>
      let idx := index_of closer (zskip offset line) 0 in
      if -1 <? idx then
        let n := offset + idx + zlen closer in
        r <- b_advance r n ;;
        Ok (Some (acc ++ [seg_with_stop segment (s_start segment + n)], r))
      else
        r <- b_advance_line r ;;
        raw_until f r closer 0 (acc ++ [segment])
    end
  end.

(* the bytes the regular expression engine reads through ReadRune: up to the end of the block
   or the first invalid byte / U+FFFD *)
Fixpoint rune_input (fuel : nat) (r : breader) (acc : bytes) : result bytes :=
  match fuel with
  | O => OutOfFuel
  | S f =>
    x <- b_read_rune r ;;
    let '(r, rn, _, eof) := x in
    if eof then Ok acc else rune_input f r (acc ++ encode_rune rn)
  end.

(* parseMultiLineRegexp *)
Fixpoint raw_regexp_lines (fuel : nat) (r : breader) (sline : Z) (sstart : Z) (eline : Z) (estart : Z) (acc : list seg)
  : result (list seg * breader) :=
  match fuel with
  | O => OutOfFuel
  | S f =>
    y <- b_peek_line r ;;
    let '(r, line, segment) := y in
    match line with
    | None => Ok (acc, r)
    | Some _ =>
      let l := b_line r in
      let start := if l =? sline then sstart else s_start segment in
      let e := if l =? eline then estart else s_stop segment in
      let acc := acc ++ [mkseg start e] in
      if l =? eline then (r <- b_advance r (e - start) ;; Ok (acc, r))
      else (r <- b_advance_line r ;; raw_regexp_lines f r sline sstart eline estart acc)
    end
  end.
Definition raw_regexp (s : ist) (rx : re) : result (ist * option nat) :=
  let r0 := t_r s in
  let sline := b_line r0 in
  let sseg := b_pos r0 in
  inp <- rune_input (S (length (b_src r0))) r0 [] ;;
  match re_find rx inp with
  | None =>
    r <- b_set_position r0 sline sseg ;; Ok (ist_r s r, None)
  | Some caps =>
    match cap_at caps 0 with
    | None => Panic
    | Some (a, b) =>
      r <- b_set_position r0 sline sseg ;;
      r <- b_advance r (b - a) ;;
      let eline := b_line r in
      let eseg := b_pos r in
      r <- b_set_position r sline sseg ;;
      x <- raw_regexp_lines (S (length (b_segs r))) r sline (s_start sseg) eline (s_start eseg) [] ;;
      let '(segs, r) := x in
      let '(c, n) := new_inode (t_c s) (IRawHTML segs) in
      Ok ({| t_c := c; t_r := r |}, Some n)
    end
  end.

Definition b_lt := [60]%N.
Definition open_comment := [60;33;45;45]%N.
Definition close_comment := [45;45;62]%N.
Definition empty_comment1 := [60;33;45;45;62]%N.
Definition empty_comment2 := [60;33;45;45;45;62]%N.
Definition open_pi := [60;63]%N.
Definition close_pi := [63;62]%N.
Definition open_cdata := [60;33;91;67;68;65;84;65;91]%N.
Definition close_cdata := [93;93;62]%N.
Definition is_alnum_b (c : N) : bool :=
  ((97 <=? c) && (c <=? 122) || (65 <=? c) && (c <=? 90) || (48 <=? c) && (c <=? 57))%N.

Definition raw_collect (s : ist) (closer : bytes) (offset : Z) : result (ist * option nat) :=
  let r0 := t_r s in
  x <- raw_until (S (length (b_segs r0))) r0 closer offset [] ;;
  match x with
  | None => r <- b_set_position r0 (b_line r0) (b_pos r0) ;; Ok (ist_r s r, None)
  | Some (segs, r) =>
    let '(c, n) := new_inode (t_c s) (IRawHTML segs) in
    Ok ({| t_c := c; t_r := r |}, Some n)
  end.

Definition raw_html_parse (s : ist) : result (ist * option nat) :=
  y <- b_peek_line (t_r s) ;;
  let '(r, line, segment) := y in
  let s := ist_r s r in
  let line := line_of line in
  let at1 := nth_byte line 1 in
  let at2 := nth_byte line 2 in
  if (1 <? zlen line) && is_alnum_b at1 then raw_regexp s re_open_tag
  else if (2 <? zlen line) && N.eqb at1 47 && is_alnum_b at2 then raw_regexp s re_close_tag
  else if prefix_of open_comment line then
    if prefix_of empty_comment1 line then
      let '(c, n) := new_inode (t_c s) (IRawHTML [seg_with_stop segment (s_start segment + 5)]) in
      r <- b_advance (t_r s) 5 ;; Ok ({| t_c := c; t_r := r |}, Some n)
    else if prefix_of empty_comment2 line then
      let '(c, n) := new_inode (t_c s) (IRawHTML [seg_with_stop segment (s_start segment + 6)]) in
      r <- b_advance (t_r s) 6 ;; Ok ({| t_c := c; t_r := r |}, Some n)
    else raw_collect s close_comment 4
  else if prefix_of open_pi line then raw_collect s close_pi 0
  else if (2 <? zlen line) && N.eqb at1 33 && ((65 <=? at2) && (at2 <=? 90))%N then raw_collect s [62%N] 0
  else if prefix_of open_cdata line then raw_collect s close_cdata 0
  else Ok (s, None).

(* ---- emphasis.go ---- *)
Definition emphasis_parse (s : ist) : result (ist * option nat) :=
  before <- b_preceding (t_r s) ;;
  y <- b_peek_line (t_r s) ;;
  let '(r, line, segment) := y in
  let s := ist_r s r in
  d <- scan_delimiter punct_rune space_rune (fun c => (N.eqb c 42 || N.eqb c 95)) (line_of line) before 1 ;;
  match d with
  | None => Ok (s, None)
  | Some (co, cc, len, ch) =>
    let '(c, n) := new_inode (t_c s)
                     (IDelim (seg_with_stop segment (s_start segment + len)) co cc len len ch None None) in
    r <- b_advance (t_r s) len ;;
    c <- push_delimiter c n ;;
    Ok ({| t_c := c; t_r := r |}, Some n)
  end.

(* ---- code_span.go (model/CodeSpan.v) ---- *)
Definition code_span_parse_s (s : ist) : result (ist * option nat) :=
  x <- code_span_parse space_table (t_r s) ;;
  let '(res, r) := x in
  match res with
  | inr sg =>
    let '(c, n) := new_inode (t_c s) (mk_text sg) in
    Ok ({| t_c := c; t_r := r |}, Some n)
  | inl segs =>
    let '(c, n) := new_inode (t_c s) ICodeSpan in
    c <- (fix add (l : list seg) (c : ictx) : result ictx :=
            match l with
            | [] => Ok c
            | sg :: t =>
              let '(c, x) := new_inode c (IText sg false false true) in
              h <- i_append (i_h c) n x ;; add t (cx_h c h)
            end) segs c ;;
    Ok ({| t_c := c; t_r := r |}, Some n)
  end.

(* ---- the inline parser table of the default configuration ---- *)
Inductive iparser := IPCodeSpan | IPLink | IPAutoLink | IPRawHTML | IPEmphasis.
Definition inline_parsers (c : N) : list iparser :=
  if N.eqb c 96 then [IPCodeSpan]
  else if (N.eqb c 33 || N.eqb c 91 || N.eqb c 93) then [IPLink]
  else if N.eqb c 60 then [IPAutoLink; IPRawHTML]
  else if (N.eqb c 42 || N.eqb c 95) then [IPEmphasis]
  else [].
Definition ip_parse (p : iparser) (s : ist) (parent : nat) : result (ist * option nat) :=
  match p with
  | IPCodeSpan => code_span_parse_s s
  | IPLink => link_parse s parent
  | IPAutoLink => autolink_parse s
  | IPRawHTML => raw_html_parse s
  | IPEmphasis => emphasis_parse s
  end.

Fixpoint try_inline (ips : list iparser) (s : ist) (parent : nat) (sl : Z) (sp : seg) : result (ist * option nat) :=
  match ips with
  | [] => Ok (s, None)
  | p :: rest =>
    x <- ip_parse p s parent ;;
    let '(s, n) := x in
    match n with
    | Some _ => Ok (s, n)
    | None => r <- b_set_position (t_r s) sl sp ;; try_inline rest (ist_r s r) parent sl sp
    end
  end.

(* endsWithUnescapedBackslash *)
Fixpoint count_trailing_bs (rv : bytes) : nat :=
  match rv with c :: r => if N.eqb c 92 then S (count_trailing_bs r) else O | [] => O end.
Definition ends_with_unescaped_backslash (v : bytes) : bool := Nat.odd (count_trailing_bs (rev v)).

(* the scan of one line: inl = an inline node was appended (retry), inr (n, escaped) = end of line *)
Fixpoint scan_line (fuel : nat) (line : bytes) (i : Z) (line_length : Z) (n : Z) (escaped : bool)
                   (start_pos : seg) (s : ist) (parent : nat) : result ((ist * bool) + (ist * Z * seg)) :=
  match fuel with
  | O => OutOfFuel
  | S f =>
    if line_length <=? i then Ok (inr (s, n, start_pos))
    else
      match zskip i line with
      | [] => Ok (inr (s, n, start_pos))
      | c :: _ =>
        if N.eqb c 10 then Ok (inr (s, n, start_pos))
        else
          let isspace := is_space c && negb (N.eqb c 13) && negb (N.eqb c 10) in
          let ispunct := is_punct c in
          let consult := (ispunct && negb escaped) || isspace || (i =? 0) in
          let pchar := if isspace || ((i =? 0) && negb ispunct) then 32%N else c in
          let ips := if consult then inline_parsers pchar else [] in
          r <- match ips with
               | [] => Ok (inr (s, n, start_pos))
               | _ =>
                 rd <- b_advance (t_r s) n ;;
                 let s := ist_r s rd in
                 let sl := b_line (t_r s) in
                 let sp := b_pos (t_r s) in
                 t <- (if negb (i =? 0) then
                         bt <- seg_between start_pos sp ;;
                         c' <- merge_or_append (t_c s) parent bt ;;
                         Ok (ist_c s c', sp)
                       else Ok (s, start_pos)) ;;
                 let '(s, start_pos) := t in
                 x <- try_inline ips s parent sl sp ;;
                 let '(s, node) := x in
                 match node with
                 | Some nd =>
                   h <- i_append (i_h (t_c s)) parent nd ;;
                   Ok (inl (ist_c s (cx_h (t_c s) h)))
                 | None => Ok (inr (s, 0, start_pos))
                 end
               end ;;
          match r with
          | inl s => Ok (inl (s, escaped))
          | inr (s, n, start_pos) =>
            if escaped then scan_line f line (i + 1) line_length (n + 1) false start_pos s parent
            else if N.eqb c 92 then scan_line f line (i + 1) line_length (n + 1) true start_pos s parent
            else scan_line f line (i + 1) line_length (n + 1) false start_pos s parent
          end
      end
  end.

Definition last_byte (l : bytes) (k : Z) : N := nth_byte l (zlen l - k).

(* parseBlock: the loop over the lines of the block *)
Fixpoint parse_block_loop (fuel : nat) (s : ist) (parent : nat) (escaped : bool) : result ist :=
  match fuel with
  | O => OutOfFuel
  | S f =>
    y <- b_peek_line (t_r s) ;;
    let '(r, line, _) := y in
    let s := ist_r s r in
    match line with
    | None => Ok s
    | Some line =>
      let ll := zlen line in
      let has_nl := N.eqb (last_byte line 1) 10 in
      let '(line_length, hard, visible, soft) :=
        if has_nl && ends_with_unescaped_backslash (zfirst (ll - 1) line) then (ll - 2, true, true, false)
        else if has_nl && (2 <=? ll) && N.eqb (last_byte line 2) 13 && ends_with_unescaped_backslash (zfirst (ll - 2) line)
             then (ll - 3, true, true, false)
        else if (3 <=? ll) && N.eqb (last_byte line 3) 32 && N.eqb (last_byte line 2) 32 && has_nl then (ll - 3, true, false, false)
        else if (4 <=? ll) && N.eqb (last_byte line 4) 32 && N.eqb (last_byte line 3) 32 && N.eqb (last_byte line 2) 13 && has_nl
             then (ll - 4, true, false, false)
        else if has_nl then (ll, false, false, true)
        else (ll, false, false, false) in
      let l := b_line (t_r s) in
      let start_pos := b_pos (t_r s) in
      x <- scan_line (S (length line)) line 0 line_length 0 escaped start_pos s parent ;;
      match x with
      | inl (s, escaped) => parse_block_loop f s parent escaped
      | inr (s, n, start_pos) =>
        r <- (if negb (n =? 0) then b_advance (t_r s) n else Ok (t_r s)) ;;
        let s := ist_r s r in
        let cur_l := b_line (t_r s) in
        let cur_pos := b_pos (t_r s) in
        if negb (l =? cur_l) then parse_block_loop f s parent false
        else
          diff <- seg_between start_pos cur_pos ;;
          t <- (if hard && visible then Ok (t_c s, diff)
                else
                  trimmed <- seg_trim_right_space space_table (b_src (t_r s)) diff ;;
                  if seg_is_empty trimmed then
                    pn <- iget (i_h (t_c s)) parent ;;
                    match last_id (ich pn) with
                    | Some lst =>
                      ln <- iget (i_h (t_c s)) lst ;;
                      match ik ln with
                      | IText ts sf hd raw =>
                        if (s_stop ts =? s_start diff) && negb raw && negb sf && negb hd then
                          ts' <- seg_trim_right_space space_table (b_src (t_r s)) ts ;;
                          h <- iupd (i_h (t_c s)) lst (fun m => iset_kind m (IText ts' sf hd raw)) ;;
                          Ok (cx_h (t_c s) h, trimmed)
                        else Ok (t_c s, trimmed)
                      | _ => Ok (t_c s, trimmed)
                      end
                    | None => Ok (t_c s, trimmed)
                    end
                  else Ok (t_c s, trimmed)) ;;
          let '(c, tseg) := t in
          let '(c, tx) := new_inode c (IText tseg soft hard false) in
          h <- i_append (i_h c) parent tx ;;
          r <- b_advance_line (t_r s) ;;
          parse_block_loop f {| t_c := cx_h c h; t_r := r |} parent false
      end
    end
  end.

Definition init_ictx : ictx :=
  {| i_h := [{| ik := IRoot; ipar := None; ich := [] |}]; i_dfirst := None; i_dlast := None; i_labels := None; i_bottoms := [] |}.

(* the inline children of one block with the given lines *)
Definition parse_block (src : bytes) (lines : list seg) : result ictx :=
  r <- new_block_reader src lines ;;
  let s := {| t_c := init_ictx; t_r := r |} in
  s <- parse_block_loop (2 * length src + 2 * length lines + 8) s 0%nat false ;;
  c <- process_delimiters (ifuel s) (t_c s) BNil ;;
  link_close_block c.

(* ---- from the inline heap to renderer trees ---- *)
Fixpoint itree (fuel : nat) (src : bytes) (h : iheap) (i : nat) : result tree :=
  match fuel with
  | O => OutOfFuel
  | S f =>
    n <- iget h i ;;
    kids <- map_res (itree f src h) (ich n) ;;
    k <- match ik n with
         | IRoot => Ok KOther
         | IText s soft hard raw => Ok (KText s soft hard raw)
         | ICodeSpan => Ok KCodeSpan
         | IEmphasis l => Ok (KEmphasis l)
         | ILink d t => Ok (KLink d t)
         | IImage d t => Ok (KImage d t)
         | IAutoLink e sg => v <- seg_value src sg ;; Ok (KAutoLink e v v)
         | IRawHTML segs => Ok (KRawHTML segs)
         | IDelim _ _ _ _ _ _ _ _ => Ok KOther
         | ILabel _ _ _ _ _ _ => Ok KOther
         end ;;
    Ok (Node k [] None kids)
  end.

Definition inline_children (src : bytes) (lines : list seg) : result (list tree) :=
  c <- parse_block src lines ;;
  t <- itree (S (length (i_h c))) src (i_h c) 0%nat ;;
  Ok (t_children t).

End WithTables.

(* the blocks whose lines are parsed for inlines (ast IsRaw false and lines present):
   paragraphs, text blocks and headings of the default configuration *)
Definition has_inlines (k : kind) : bool :=
  match k with KParagraph | KTextBlock | KHeading _ => true | _ => false end.

Section Attach.
Variable inl : list seg -> result (list tree).
Fixpoint attach_inlines (t : tree) : result tree :=
  match t with
  | Node k lines a kids =>
    if has_inlines k then (ch <- inl lines ;; Ok (Node k lines a ch))
    else
      kids' <- (fix go (l : list tree) : result (list tree) :=
                  match l with
                  | [] => Ok []
                  | x :: r => y <- attach_inlines x ;; z <- go r ;; Ok (y :: z)
                  end) kids ;;
      Ok (Node k lines a kids')
  end.
End Attach.

(* the hypothesis the inline phase relies on, as booleans (evaluated in the correspondence runs,
   proved of the block phase in proofs/): the lines of every inline-bearing block are non-empty,
   inside the source, without padding or forced newline, and in source order *)
Definition seg_ok_b (src : bytes) (s : seg) : bool :=
  ((0 <=? s_start s) && (s_start s <? s_stop s) && (s_stop s <=? zlen src) && (s_pad s =? 0))%Z && negb (s_fnl s).
Fixpoint segs_sorted_b (l : list seg) : bool :=
  match l with
  | a :: ((b :: _) as tl) => (s_stop a <=? s_start b)%Z && segs_sorted_b tl
  | _ => true
  end.
Fixpoint tree_lines_ok (src : bytes) (t : tree) {struct t} : bool :=
  match t with
  | Node k lines _ kids =>
    (if has_inlines k then forallb (seg_ok_b src) lines && segs_sorted_b lines else true) &&
    (fix go (l : list tree) : bool := match l with [] => true | x :: r => tree_lines_ok src x && go r end) kids
  end.
