(* Interleaving model of N concurrent calls on one shared instance (C07): the three sync.Once
   sites (parser tables, renderer tables, entity map) and the reads of what they initialise.
   Per-call state (context, readers, writer, the tree) is private to the call (model/Instance.v).
   A thread runs a list of actions; a schedule is a list of thread ids. *)
Require Import GM.model.Base.
From Coq Require Import Arith.
Open Scope nat_scope.

Definition tid := nat.
Definition loc := nat.        (* a shared location (a frozen table) *)
Definition oid_ := nat.       (* a sync.Once *)

Inductive action :=
| ADo (o : oid_)              (* once.Do(closure): the closure of o writes its locations *)
| ARead (f : loc).            (* read of a frozen location *)

(* which locations the closure of each Once initialises, and with which value *)
Record once_spec := { o_writes : list (loc * nat) }.

Inductive ostate := ONotStarted | ORunning (t : tid) (todo : list (loc * nat)) | ODone.

Inductive event :=
| EWrite (t : tid) (o : oid_) (f : loc) (v : nat)
| EDoExit (t : tid) (o : oid_)       (* the initialising thread leaves Do *)
| EDoSkip (t : tid) (o : oid_)       (* a later caller returns from Do without running the closure *)
| ERead (t : tid) (f : loc) (v : option nat).

Record cstate := {
  c_once : oid_ -> ostate;
  c_mem : loc -> option nat;           (* None = not yet initialised *)
  c_threads : tid -> list action;      (* remaining actions *)
  c_trace : list event
}.

Definition upd_fun {A} (f : nat -> A) (k : nat) (v : A) : nat -> A := fun x => if Nat.eqb x k then v else f x.

(* one step of thread t, if it is enabled *)
Definition cstep (spec : oid_ -> once_spec) (s : cstate) (t : tid) : option cstate :=
  match c_threads s t with
  | [] => None
  | ADo o :: rest =>
    match c_once s o with
    | ODone =>
        Some {| c_once := c_once s; c_mem := c_mem s; c_threads := upd_fun (c_threads s) t rest;
                c_trace := c_trace s ++ [EDoSkip t o] |}
    | ONotStarted =>
        (* t wins: it starts running the closure *)
        Some {| c_once := upd_fun (c_once s) o (ORunning t (o_writes (spec o))); c_mem := c_mem s;
                c_threads := c_threads s; c_trace := c_trace s |}
    | ORunning t' todo =>
        if Nat.eqb t t' then
          match todo with
          | (f, v) :: todo' =>
              Some {| c_once := upd_fun (c_once s) o (ORunning t todo'); c_mem := upd_fun (c_mem s) f (Some v);
                      c_threads := c_threads s; c_trace := c_trace s ++ [EWrite t o f v] |}
          | [] =>
              Some {| c_once := upd_fun (c_once s) o ODone; c_mem := c_mem s;
                      c_threads := upd_fun (c_threads s) t rest; c_trace := c_trace s ++ [EDoExit t o] |}
          end
        else None                       (* blocked: another thread is inside Do *)
    end
  | ARead f :: rest =>
      Some {| c_once := c_once s; c_mem := c_mem s; c_threads := upd_fun (c_threads s) t rest;
              c_trace := c_trace s ++ [ERead t f (c_mem s f)] |}
  end.

(* run a schedule; a scheduled thread that is not enabled is skipped *)
Fixpoint crun (spec : oid_ -> once_spec) (s : cstate) (sched : list tid) : cstate :=
  match sched with
  | [] => s
  | t :: rest => crun spec (match cstep spec s t with Some s' => s' | None => s end) rest
  end.

Definition init_state (progs : tid -> list action) : cstate :=
  {| c_once := fun _ => ONotStarted; c_mem := fun _ => None; c_threads := progs; c_trace := [] |}.

(* a program is well-formed when every read of a location is preceded, in the same thread, by
   the Do of a Once that initialises it (this is what accesses_ok + the code structure give) *)
Fixpoint reads_guarded (spec : oid_ -> once_spec) (did : list oid_) (p : list action) : bool :=
  match p with
  | [] => true
  | ADo o :: r => reads_guarded spec (o :: did) r
  | ARead f :: r => existsb (fun o => existsb (fun w => Nat.eqb (fst w) f) (o_writes (spec o))) did && reads_guarded spec did r
  end.
