(* Model of the inline phase of parser.Parse with the inline parser of the Footnote extension
   (extension/footnote.go footnoteParser: triggers '!' and '[', priority 101, i.e. before the
   link parser) on top of the default inline parsers: a generalised copy of the inline loop of
   model/InlineParse.v (parser.go parseBlock).  Every function of InlineParse.v that does not
   reach the inline parser table is used as it is.

   The parser reads and updates data that outlives a block: the FootnoteList of the parse
   context (the Ref and Index of its definitions, its Count) and the list of the FootnoteLink
   nodes created so far (footnoteLinkListKey).  That data is the record fstate, threaded through
   the blocks in the order parser.Parse walks them.

   The core inline heap has no constructor for a FootnoteLink node; it is written as an
   Emphasis node with a level no emphasis has (the level of an emphasis is 1 or 2):
       IEmphasis (-3 - k)   the FootnoteLink that is the k-th element of the link list
   (its Index is the k-th element of fs_links; RefCount and RefIndex are set by the AST
   transformer, model/FootnoteParse.v).  itreeF translates it into
   KFootnoteLink Index 0 k: the third field temporarily holds the position in the link list. *)
Require Import GM.model.Base GM.model.Util GM.model.Reader GM.model.Blocks GM.model.ListItem
               GM.model.LeafBlocks GM.model.CodeSpan GM.model.LinkDest GM.model.Regex GM.model.Delim
               GM.model.HtmlWriter GM.model.Html GM.model.BlockParse GM.model.InlineParse
               GM.model.FootnoteX GM.model.FootnoteParseBlock.
From Coq Require Import ZArith.
Open Scope Z_scope.

(* fs_defs: None = no FootnoteList in the context; Some l = the children of the list in order *)
Record fstate := { fs_defs : option (list fdef); fs_count : Z; fs_links : list Z }.

Definition IFootnoteLink (serial : Z) : ikind := IEmphasis (-3 - serial).

Record fist := { fi_s : ist; fi_f : fstate }.
Definition fist_s x v := {| fi_s := v; fi_f := fi_f x |}.

Section WithTables.
Variable space_table punct_table : list N.
Variable norm : bytes -> bytes.
Variable url_table email_table : list N.
Variable re_email_domain re_open_tag re_close_tag : re.
Variable punct_rune space_rune : N -> bool.
Variable refs : list (bytes * (bytes * option bytes)).
Notation is_space := (is_space space_table).
Notation is_punct := (is_punct punct_table).
Notation ip_parse := (ip_parse space_table punct_table norm url_table email_table re_email_domain re_open_tag
                               re_close_tag punct_rune space_rune refs).

(* ---- footnoteParser.Parse ---- *)
Definition footnote_parse (x : fist) (parent : nat) : result (fist * option nat) :=
  let s := fi_s x in
  y <- b_peek_line (t_r s) ;;
  let '(r, line, segment) := y in
  let s := ist_r s r in
  let x := fist_s x s in
  let line := line_of line in
  let bang := match line with c :: _ => N.eqb c 33 | [] => false end in
  let pos := if bang then 2 else 1 in
  if (zlen line <=? pos) || negb (N.eqb (nth_byte line pos) 94) then Ok (x, None)
  else
    let pos := pos + 1 in
    if zlen line <=? pos then Ok (x, None)
    else
      let open := pos in
      let closure := find_closure_bytes punct_table (zskip pos line) 91%N 93%N in
      if closure <? 0 then Ok (x, None)
      else
        let closes := pos + closure in
        value <- b_value (t_r s) (mkseg (s_start segment + open) (s_start segment + closes)) ;;
        r <- b_advance (t_r s) (closes + 1) ;;
        let s := ist_r s r in
        let x := fist_s x s in
        let fs := fi_f x in
        match fs_defs fs with
        | None => Ok (x, None)
        | Some defs =>
          let '(defs', count', found) := assign defs (fs_count fs) value in
          match found with
          | None => Ok (x, None)                       (* index == 0 *)
          | Some index =>
            let serial := zlen (fs_links fs) in
            let '(c, n) := new_inode (t_c s) (IFootnoteLink serial) in
            let fs' := {| fs_defs := Some defs'; fs_count := count'; fs_links := fs_links fs ++ [index] |} in
            c <- (match line with
                  | [] => Panic                        (* line[0] *)
                  | c0 :: _ =>
                    if N.eqb c0 33 then
                      let '(c, t) := new_inode c (mk_text (mkseg (s_start segment) (s_start segment + 1))) in
                      h <- i_append (i_h c) parent t ;; Ok (cx_h c h)
                    else Ok c
                  end) ;;
            Ok ({| fi_s := {| t_c := c; t_r := t_r s |}; fi_f := fs' |}, Some n)
          end
        end.

(* ---- the inline parser table: CodeSpan 100, Footnote 101, Link 200, AutoLink 300,
        RawHTML 400, Emphasis 500 ---- *)
Inductive iparserF := FIn (p : iparser) | FFn.
Definition inline_parsersF (c : N) : list iparserF :=
  if (N.eqb c 33 || N.eqb c 91) then [FFn; FIn IPLink] else map FIn (inline_parsers c).

Definition ip_parseF (p : iparserF) (x : fist) (parent : nat) : result (fist * option nat) :=
  match p with
  | FIn p => y <- ip_parse p (fi_s x) parent ;; Ok (fist_s x (fst y), snd y)
  | FFn => footnote_parse x parent
  end.

Fixpoint try_inlineF (ips : list iparserF) (x : fist) (parent : nat) (sl : Z) (sp : seg) : result (fist * option nat) :=
  match ips with
  | [] => Ok (x, None)
  | p :: rest =>
    y <- ip_parseF p x parent ;;
    let '(x, n) := y in
    match n with
    | Some _ => Ok (x, n)
    | None => r <- b_set_position (t_r (fi_s x)) sl sp ;; try_inlineF rest (fist_s x (ist_r (fi_s x) r)) parent sl sp
    end
  end.

(* the scan of one line: inl = an inline node was appended (retry), inr (n, start) = end of line *)
Fixpoint scan_lineF (fuel : nat) (line : bytes) (i : Z) (line_length : Z) (n : Z) (escaped : bool)
                    (start_pos : seg) (x : fist) (parent : nat) : result ((fist * bool) + (fist * Z * seg)) :=
  match fuel with
  | O => OutOfFuel
  | S f =>
    if line_length <=? i then Ok (inr (x, n, start_pos))
    else
      match zskip i line with
      | [] => Ok (inr (x, n, start_pos))
      | c :: _ =>
        if N.eqb c 10 then Ok (inr (x, n, start_pos))
        else
          let isspace := is_space c && negb (N.eqb c 13) && negb (N.eqb c 10) in
          let ispunct := is_punct c in
          let consult := (ispunct && negb escaped) || isspace || (i =? 0) in
          let pchar := if isspace || ((i =? 0) && negb ispunct) then 32%N else c in
          let ips := if consult then inline_parsersF pchar else [] in
          r <- match ips with
               | [] => Ok (inr (x, n, start_pos))
               | _ =>
                 let s := fi_s x in
                 rd <- b_advance (t_r s) n ;;
                 let s := ist_r s rd in
                 let sl := b_line (t_r s) in
                 let sp := b_pos (t_r s) in
                 t <- (if negb (i =? 0) then
                         bt <- seg_between start_pos sp ;;
                         c' <- merge_or_append (t_c s) parent bt ;;
                         Ok (ist_c s c', sp)
                       else Ok (s, start_pos)) ;;
                 let '(s, start_pos) := t in
                 y <- try_inlineF ips (fist_s x s) parent sl sp ;;
                 let '(x, node) := y in
                 match node with
                 | Some nd =>
                   let s := fi_s x in
                   h <- i_append (i_h (t_c s)) parent nd ;;
                   Ok (inl (fist_s x (ist_c s (cx_h (t_c s) h))))
                 | None => Ok (inr (x, 0, start_pos))
                 end
               end ;;
          match r with
          | inl x => Ok (inl (x, escaped))
          | inr (x, n, start_pos) =>
            if escaped then scan_lineF f line (i + 1) line_length (n + 1) false start_pos x parent
            else if N.eqb c 92 then scan_lineF f line (i + 1) line_length (n + 1) true start_pos x parent
            else scan_lineF f line (i + 1) line_length (n + 1) false start_pos x parent
          end
      end
  end.

(* parseBlock: the loop over the lines of the block *)
Fixpoint parse_block_loopF (fuel : nat) (x : fist) (parent : nat) (escaped : bool) : result fist :=
  match fuel with
  | O => OutOfFuel
  | S f =>
    y <- b_peek_line (t_r (fi_s x)) ;;
    let '(r, line, _) := y in
    let x := fist_s x (ist_r (fi_s x) r) in
    match line with
    | None => Ok x
    | Some line =>
      let ll := zlen line in
      let has_nl := N.eqb (last_byte line 1) 10 in
      let '(line_length, hard, visible, soft) :=
        if has_nl && ends_with_unescaped_backslash (zfirst (ll - 1) line) then (ll - 2, true, true, false)
        else if has_nl && (2 <=? ll) && N.eqb (last_byte line 2) 13 && ends_with_unescaped_backslash (zfirst (ll - 2) line)
             then (ll - 3, true, true, false)
        else if (3 <=? ll) && N.eqb (last_byte line 3) 32 && N.eqb (last_byte line 2) 32 && has_nl then (ll - 3, true, false, false)
        else if (4 <=? ll) && N.eqb (last_byte line 4) 32 && N.eqb (last_byte line 3) 32 && N.eqb (last_byte line 2) 13 && has_nl
             then (ll - 4, true, false, false)
        else if has_nl then (ll, false, false, true)
        else (ll, false, false, false) in
      let l := b_line (t_r (fi_s x)) in
      let start_pos := b_pos (t_r (fi_s x)) in
      z <- scan_lineF (S (length line)) line 0 line_length 0 escaped start_pos x parent ;;
      match z with
      | inl (x, escaped) => parse_block_loopF f x parent escaped
      | inr (x, n, start_pos) =>
        let s := fi_s x in
        r <- (if negb (n =? 0) then b_advance (t_r s) n else Ok (t_r s)) ;;
        let s := ist_r s r in
        let x := fist_s x s in
        let cur_l := b_line (t_r s) in
        let cur_pos := b_pos (t_r s) in
        if negb (l =? cur_l) then parse_block_loopF f x parent false
        else
          diff <- seg_between start_pos cur_pos ;;
          t <- (if hard && visible then Ok (t_c s, diff)
                else
                  trimmed <- seg_trim_right_space space_table (b_src (t_r s)) diff ;;
                  if seg_is_empty trimmed then
                    pn <- iget (i_h (t_c s)) parent ;;
                    match last_id (ich pn) with
                    | Some lst =>
                      ln <- iget (i_h (t_c s)) lst ;;
                      match ik ln with
                      | IText ts sf hd raw =>
                        if (s_stop ts =? s_start diff) && negb raw && negb sf && negb hd then
                          ts' <- seg_trim_right_space space_table (b_src (t_r s)) ts ;;
                          h <- iupd (i_h (t_c s)) lst (fun m => iset_kind m (IText ts' sf hd raw)) ;;
                          Ok (cx_h (t_c s) h, trimmed)
                        else Ok (t_c s, trimmed)
                      | _ => Ok (t_c s, trimmed)
                      end
                    | None => Ok (t_c s, trimmed)
                    end
                  else Ok (t_c s, trimmed)) ;;
          let '(c, tseg) := t in
          let '(c, tx) := new_inode c (IText tseg soft hard false) in
          h <- i_append (i_h c) parent tx ;;
          r <- b_advance_line (t_r s) ;;
          parse_block_loopF f (fist_s x {| t_c := cx_h c h; t_r := r |}) parent false
      end
    end
  end.

(* the inline children of one block with the given lines *)
Definition parse_blockF (fs : fstate) (src : bytes) (lines : list seg) : result (ictx * fstate) :=
  r <- new_block_reader src lines ;;
  let x := {| fi_s := {| t_c := init_ictx; t_r := r |}; fi_f := fs |} in
  x <- parse_block_loopF (2 * length src + 2 * length lines + 8) x 0%nat false ;;
  c <- process_delimiters (ifuel (fi_s x)) (t_c (fi_s x)) BNil ;;
  c <- link_close_block c ;;
  Ok (c, fi_f x).

End WithTables.

(* ---- from the inline heap to renderer trees ---- *)
Fixpoint itreeF (fuel : nat) (src : bytes) (h : iheap) (links : list Z) (i : nat) : result tree :=
  match fuel with
  | O => OutOfFuel
  | S f =>
    n <- iget h i ;;
    kids <- map_res (itreeF f src h links) (ich n) ;;
    k <- match ik n with
         | IRoot => Ok KOther
         | IText s soft hard raw => Ok (KText s soft hard raw)
         | ICodeSpan => Ok KCodeSpan
         | IEmphasis l =>
           if l <=? -3 then
             let serial := -3 - l in
             match nth_error links (Z.to_nat serial) with
             | Some idx => Ok (KFootnoteLink idx 0 serial)
             | None => Panic
             end
           else Ok (KEmphasis l)
         | ILink d t => Ok (KLink d t)
         | IImage d t => Ok (KImage d t)
         | IAutoLink e sg => v <- seg_value src sg ;; Ok (KAutoLink e v v)
         | IRawHTML segs => Ok (KRawHTML segs)
         | IDelim _ _ _ _ _ _ _ _ => Ok KOther
         | ILabel _ _ _ _ _ _ => Ok KOther
         end ;;
    Ok (Node k [] None kids)
  end.

Section Children.
Variable space_table punct_table : list N.
Variable norm : bytes -> bytes.
Variable url_table email_table : list N.
Variable re_email_domain re_open_tag re_close_tag : re.
Variable punct_rune space_rune : N -> bool.
Variable refs : list (bytes * (bytes * option bytes)).

Definition inline_childrenF (fs : fstate) (src : bytes) (lines : list seg) : result (list tree * fstate) :=
  x <- parse_blockF space_table punct_table norm url_table email_table re_email_domain re_open_tag re_close_tag
                    punct_rune space_rune refs fs src lines ;;
  let '(c, fs) := x in
  t <- itreeF (S (length (i_h c))) src (i_h c) (fs_links fs) 0%nat ;;
  Ok (t_children t, fs).
End Children.
