(* Model of the link-reference map of the parser context (parser.go: AddReference, Reference):
   keyed by the normalised label, first definition wins (C09). *)
Require Import GM.model.Base.
Open Scope N_scope.

Section Refs.
Variable norm : bytes -> bytes.          (* util.ToLinkReference *)
Variable V : Type.                       (* destination and title *)

Definition refmap := list (bytes * V).   (* key -> value, at most one entry per key *)

Fixpoint lookup_key (m : refmap) (k : bytes) : option V :=
  match m with
  | [] => None
  | (k', v) :: m' => if bytes_eqb k' k then Some v else lookup_key m' k
  end.

(* AddReference: only if the key is not present yet *)
Definition add_reference (m : refmap) (label : bytes) (v : V) : refmap :=
  match lookup_key m (norm label) with
  | Some _ => m
  | None => m ++ [(norm label, v)]
  end.

Definition add_all (m : refmap) (defs : list (bytes * V)) : refmap :=
  fold_left (fun m d => add_reference m (fst d) (snd d)) defs m.

(* how the link parser looks a label up *)
Definition reference (m : refmap) (label : bytes) : option V := lookup_key m (norm label).
End Refs.
