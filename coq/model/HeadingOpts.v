(* Model of the block phase of parser.Parse for the default parser with the heading options
   parser.WithAttribute() and parser.WithAutoHeadingID(), each switchable (hcfg):

     parser/atx_heading.go     Open with b.Attribute (the special case "### heading ### {#id}"),
                               Close (parseLastLineAttributes unless an id is set, then
                               AutoHeadingID), parseLastLineAttributes, generateAutoHeadingID
     parser/setext_headings.go Close (the same two steps after the heading took the paragraph's lines)

   WithAttribute has no other consumer in /repo/parser (only HeadingConfig.SetOption looks at
   optAttribute; the fenced code block parser does not).

   The options cannot be a pass over the finished block tree: atxHeadingParser.Open calls
   reader.Advance and ParseAttributes on the SOURCE reader.  ParseAttributes skips white space
   across line ends, so an attribute block that is closed on a later line moves the reader to
   that line and the driver's AdvanceLine then skips what is left of it - whether or not the
   block is accepted ("# a # {#i\n} x\nfoo": the second line disappears).  So this file is a
   generalised copy of the driver of model/BlockParse.v (parser.go closeBlocks, openBlocks,
   parseBlocks) in which the ATX and Setext heading parsers are replaced; everything else (the
   other block parsers, the heap, the context, the paragraph transformer) is that of
   BlockParse.v.  Next to the heap the state carries the attributes of the nodes (keyed by node
   number: a node without an entry has nil attributes) and the per-document table of used ids
   (model/Ids.v); ids are generated / put when a heading is closed, in closing order. *)
Require Import GM.model.Base GM.model.Util GM.model.Reader GM.model.Blocks GM.model.ListItem
               GM.model.LeafBlocks GM.model.CodeBlock GM.model.LinkDest GM.model.Regex
               GM.model.HtmlWriter GM.model.Html GM.model.Attr GM.model.Ids GM.model.BlockParse.
From Coq Require Import ZArith.
Open Scope Z_scope.

Record hcfg := { h_attr : bool; h_autoid : bool }.

Record sth := { hx_s : st; hx_ids : list bytes; hx_attrs : list (nat * list attr) }.
Definition sth_s x v := {| hx_s := v; hx_ids := hx_ids x; hx_attrs := hx_attrs x |}.
Definition sth_ids x v := {| hx_s := hx_s x; hx_ids := v; hx_attrs := hx_attrs x |}.
Definition sth_attrs x v := {| hx_s := hx_s x; hx_ids := hx_ids x; hx_attrs := v |}.
Definition hlift {A} (x : sth) (r : result (st * A)) : result (sth * A) :=
  y <- r ;; Ok (sth_s x (fst y), snd y).
Definition hlift0 (x : sth) (r : result st) : result sth := s <- r ;; Ok (sth_s x s).

(* node.Attributes(): None = nil *)
Fixpoint node_attrs (l : list (nat * list attr)) (i : nat) : option (list attr) :=
  match l with
  | [] => None
  | (j, a) :: r => if Nat.eqb i j then Some a else node_attrs r i
  end.
Fixpoint put_node_attrs (l : list (nat * list attr)) (i : nat) (a : list attr) : list (nat * list attr) :=
  match l with
  | [] => [(i, a)]
  | (j, b) :: r => if Nat.eqb i j then (j, a) :: r else (j, b) :: put_node_attrs r i a
  end.
(* node.SetAttribute(name, value) *)
Definition set_node_attr (x : sth) (i : nat) (name : bytes) (v : aval) : sth :=
  let old := match node_attrs (hx_attrs x) i with Some a => a | None => [] end in
  sth_attrs x (put_node_attrs (hx_attrs x) i (set_attr name v old)).
(* what the renderer and the dump distinguish of an attribute value: text or not *)
Definition aval_of (v : pval) : aval := match v with PBytes b => AVBytes b | _ => AVOther end.
(* for _, attr := range attrs { node.SetAttribute(attr.Name, attr.Value) } *)
Fixpoint set_node_attrs (x : sth) (i : nat) (l : list (bytes * pval)) : sth :=
  match l with
  | [] => x
  | (n, v) :: r => set_node_attrs (set_node_attr x i n (aval_of v)) i r
  end.
(* node.AttributeString("id") *)
Definition node_id_attr (x : sth) (i : nat) : option aval :=
  match node_attrs (hx_attrs x) i with Some a => find_attr n_id a | None => None end.

Definition seg_set_stop (t : seg) (v : Z) : seg :=
  {| s_start := s_start t; s_stop := v; s_pad := s_pad t; s_fnl := s_fnl t |}.

Section WithTables.
Variable hc : hcfg.
Variable space_table punct_table : list N.
Variable norm : bytes -> bytes.
Variable re_t1o re_t1c re_t2 re_t3 re_t4 re_t5 re_t6 re_t7 : re.
Variable allowed_tags : list bytes.
Variable utf8len_table : list N.
Variable spaces : bytes.
Notation is_space := (Util.is_space space_table).
Notation is_punct := (Util.is_punct punct_table).
Notation is_blank := (Reader.is_blank space_table).
Notation trim_left_space_len := (Reader.trim_left_space_len space_table).
Notation trim_right_space_len := (Reader.trim_right_space_len space_table).
Notation p_open := (p_open space_table re_t1o re_t2 re_t3 re_t4 re_t5 re_t6 re_t7 allowed_tags).
Notation p_continue := (p_continue space_table re_t1c).
Notation p_close := (p_close space_table).
Notation transform_paragraph := (transform_paragraph space_table punct_table norm).
Notation parse_attrs := (ParseAttributesModel space_table punct_table).

(* ---------------- atx_heading.go: Open ---------------- *)
(* origstart and stop of Open, for a line on which Open goes beyond "alone '#'" *)
Definition atx_bounds (line : bytes) (pos : Z) : option (Z * Z) :=
  let l := zlen line in
  let i := pos + count_byte 35 (zskip pos line) in
  if i =? l then None
  else
    let tl := trim_left_space_len (zskip i line) in
    let start := if l <=? i + tl then l - 1 else i + tl in
    Some (start, l - trim_right_space_len line).

(* for j := start; j < stop; { ... }: Some (closureOpen, closureClose) *)
Fixpoint closure_scan (fuel : nat) (line : bytes) (j stop : Z) : result (option (Z * Z)) :=
  match fuel with
  | O => OutOfFuel
  | S f =>
    if j <? stop then
      c <- at_ line j ;;
      if N.eqb c 92 && (j <? zlen line - 1) && is_punct (nth_byte line (j + 1)) then closure_scan f line (j + 2) stop
      else if is_space c && (j <? stop - 1) && N.eqb (nth_byte line (j + 1)) 35 then
        let k := j + 1 + count_byte 35 (zfirst (stop - (j + 1)) (zskip (j + 1) line)) in
        Ok (Some (j + 1, k))
      else closure_scan f line (j + 1) stop
    else Ok None
  end.

Definition atx_open_h (x : sth) : result (sth * open_res) :=
  y <- peek_line_s (hx_s x) ;;
  let '(s, line, sg) := y in
  let x := sth_s x s in
  let line := line_of line in
  let pos := c_boff (s_c s) in
  a <- atx_open space_table line pos ;;
  match a with
  | None => Ok (x, None)
  | Some (level, body) =>
    (* the "!parsed" path: the heading of the parser without the option *)
    let plain (x : sth) : result (sth * open_res) :=
      let lines := match body with
                   | None => []
                   | Some (a, b) => [mkseg (s_start sg + a - s_pad sg) (s_start sg + b - s_pad sg)]
                   end in
      let '(s, id) := new_node (hx_s x) (set_lines (mknode BHeading level) lines) in
      Ok (sth_s x s, Some (id, false, false)) in
    if negb (h_attr hc) then plain x
    else
      match atx_bounds line pos with
      | None => plain x
      | Some (origstart, stop) =>
        cl <- closure_scan (S (length line)) line (origstart - 1) stop ;;
        match cl with
        | None => plain x
        | Some (copen, cclose) =>
          if negb (0 <? cclose) then plain x
          else
            (* reader.Advance(closureClose); ParseAttributes(reader); reader.PeekLine():
               whatever happens, the reader stays where this leaves it *)
            r <- r_advance (s_r (hx_s x)) cclose ;;
            z <- parse_attrs r ;;
            let '(r, res) := z in
            w <- r_peek_line r ;;
            let '(r, rest, _) := w in
            let x := sth_s x (st_r (hx_s x) r) in
            match res with
            | Some attrs =>
              if is_blank (line_of rest) then
                let ln := mkseg (s_start sg + origstart - s_pad sg) (s_start sg + copen - s_pad sg) in
                let '(s, id) := new_node (hx_s x) (set_lines (mknode BHeading level) [ln]) in
                Ok (set_node_attrs (sth_s x s) id attrs, Some (id, false, false))
              else plain x
            | None => plain x
            end
        end
      end
  end.

(* ---------------- parseLastLineAttributes ---------------- *)
(* the scan of the last line's value with a reader of its own: ok/attrs, start.Start, end.Start
   of the last '{' that was tried *)
Fixpoint last_line_scan (fuel : nat) (r : reader) (res : option (list (bytes * pval))) (st_ en : Z)
  : result (option (list (bytes * pval)) * Z * Z) :=
  match fuel with
  | O => OutOfFuel
  | S f =>
    c <- r_peek r ;;
    if N.eqb c 255 then Ok (res, st_, en)
    else if N.eqb c 92 then
      r <- r_advance r 1 ;;
      c2 <- r_peek r ;;
      r <- (if N.eqb c2 123 then r_advance r 1 else Ok r) ;;
      last_line_scan f r res st_ en
    else if N.eqb c 123 then
      let sl := r_line r in
      let sp := r_pos r in
      z <- parse_attrs r ;;
      let '(r2, res2) := z in
      let en2 := s_start (r_pos r2) in
      r3 <- r_set_position r2 sl sp ;;
      r4 <- r_advance r3 1 ;;
      last_line_scan f r4 res2 (s_start sp) en2
    else
      r <- r_advance r 1 ;;
      last_line_scan f r res st_ en
  end.

Definition parse_last_line_attributes (x : sth) (node : nat) : result sth :=
  let s := hx_s x in
  n <- hget (s_h s) node ;;
  match rev (blines n) with
  | [] => Ok x                                         (* empty headings *)
  | last :: pre =>
    line <- seg_value (src_of s) last ;;
    sc <- last_line_scan (2 * length line + 4) (new_reader line) None 0 0 ;;
    let '(res, st_, en) := sc in
    match res with
    | Some attrs =>
      if (en <? 0) || (zlen line <? en) then Panic      (* line[end.Start:] *)
      else if is_blank (zskip en line) then
        let x := set_node_attrs x node attrs in
        h <- hupd (s_h s) node (fun m => set_lines m (rev pre ++ [seg_set_stop last (s_start last + st_)])) ;;
        Ok (sth_s x (st_h s h))
      else Ok x
    | None => Ok x
    end
  end.

(* ---------------- AutoHeadingID (both Close functions) ---------------- *)
Definition auto_heading_id (x : sth) (node : nat) : result sth :=
  match node_id_attr x node with
  | Some (AVBytes v) => Ok (sth_ids x (put (hx_ids x) v))
  | _ =>
    (* generateAutoHeadingID: no id, or an id that is not text *)
    let s := hx_s x in
    n <- hget (s_h s) node ;;
    line <- match rev (blines n) with
            | [] => Ok []
            | last :: _ => seg_value (src_of s) last
            end ;;
    g <- generate utf8len_table space_table spaces (hx_ids x) line true ;;
    let '(id, t) := g in
    Ok (set_node_attr (sth_ids x t) node n_id (AVBytes id))
  end.

Definition atx_close_h (x : sth) (node : nat) : result sth :=
  x <- (if h_attr hc then
          match node_id_attr x node with
          | Some _ => Ok x
          | None => parse_last_line_attributes x node
          end
        else Ok x) ;;
  if h_autoid hc then auto_heading_id x node else Ok x.

Definition setext_close_h (x : sth) (node : nat) : result sth :=
  x <- hlift0 x (setext_close space_table (hx_s x) node) ;;
  x <- (if h_attr hc then parse_last_line_attributes x node else Ok x) ;;
  if h_autoid hc then auto_heading_id x node else Ok x.

(* ---------------- dispatch ---------------- *)
Definition p_open_h (p : bparser) (x : sth) (parent : nat) : result (sth * open_res) :=
  match p with
  | PATX => atx_open_h x
  | _ => hlift x (p_open p (hx_s x) parent)
  end.
Definition p_close_h (p : bparser) (x : sth) (node : nat) : result sth :=
  match p with
  | PATX => atx_close_h x node
  | PSetext => setext_close_h x node
  | _ => hlift0 x (p_close p (hx_s x) node)
  end.

(* ---------------- parser.go (the driver of BlockParse.v over sth) ---------------- *)
Fixpoint close_rangeH (x : sth) (blocks : list (nat * bparser)) (cnt : nat) (i : Z) : result sth :=
  match cnt with
  | O => Ok x
  | S k =>
    if (i <? 0) || (zlen blocks <=? i) then Panic
    else
      match nth_error blocks (Z.to_nat i) with
      | None => Panic
      | Some (node, p) =>
        isp <- is_paragraph (s_h (hx_s x)) node ;;
        att <- attached (s_h (hx_s x)) node ;;
        x <- (if isp && att then (y <- transform_paragraph (hx_s x) node ;; Ok (sth_s x (fst y))) else Ok x) ;;
        att <- attached (s_h (hx_s x)) node ;;
        x <- (if att then p_close_h p x node else Ok x) ;;
        close_rangeH x blocks k (i - 1)
      end
  end.
Definition close_blocksH (x : sth) (from to : Z) : result sth :=
  let blocks := opened (s_c (hx_s x)) in
  x <- close_rangeH x blocks (Z.to_nat (from - to + 1)) from ;;
  let s := hx_s x in
  let c := s_c s in
  let n := Z.of_nat (c_len c) in
  if from =? n - 1 then
    if (to <? 0) || (n <? to) then Panic
    else Ok (sth_s x (st_c s (cset_open c (c_arr c) (Z.to_nat to))))
  else
    if (to <? 0) || (from + 1 <? to) || (n <? from + 1) then Panic
    else
      let moved := zskip (from + 1) (firstn (c_len c) (c_arr c)) in
      let newlen := (Z.to_nat to + length moved)%nat in
      Ok (sth_s x (st_c s (cset_open c (zfirst to (c_arr c) ++ moved ++ skipn newlen (c_arr c)) newlen))).

Inductive try_resH :=
| TRetryH (parent : nat) (continuable : bool) (res : Z) (x : sth)
| TDoneH (res : Z) (x : sth).

Fixpoint try_parsersH (bps : list bparser) (parent : nat) (blank continuable : bool) (res : Z)
                      (w : Z) (x : sth) : result try_resH :=
  match bps with
  | [] => Ok (TDoneH res x)
  | bp :: rest =>
    if continuable && (res =? noBlocksOpened) && negb (can_interrupt_paragraph bp) then
      try_parsersH rest parent blank continuable res w x
    else if (3 <? w) && negb (can_accept_indented bp) then
      try_parsersH rest parent blank continuable res w x
    else
      let last_block := last_opened (s_c (hx_s x)) in
      y <- p_open_h bp x parent ;;
      let '(x, o) := y in
      match o with
      | None => try_parsersH rest parent blank continuable res w x
      | Some (node, has_children, require_para) =>
        r <- (if require_para then
                match last_block with
                | None => Ok (inl x)
                | Some (last, lp) =>
                  pn <- hget (s_h (hx_s x)) parent ;;
                  if opt_nat_eqb (Some last) (last_id (bch pn)) then
                    x <- p_close_h lp x last ;;
                    let s := hx_s x in
                    let c := s_c s in
                    (if Nat.eqb (c_len c) 0 then Panic
                     else
                       let s := st_c s (cset_open c (c_arr c) (pred (c_len c))) in
                       t <- transform_paragraph s last ;;
                       let '(s, gone) := t in
                       if gone then Ok (inr (sth_s x s)) else Ok (inl (sth_s x s)))
                  else Ok (inl x)
                end
              else Ok (inl x)) ;;
        match r with
        | inr x => Ok (TRetryH parent false res x)
        | inl x =>
          h <- hupd (s_h (hx_s x)) node (fun n => set_blank n blank) ;;
          let x := sth_s x (st_h (hx_s x) h) in
          x <- match last_block with
               | None => Ok x
               | Some (last, _) =>
                 att <- attached (s_h (hx_s x)) last ;;
                 if negb att then
                   let lp := Z.of_nat (c_len (s_c (hx_s x))) - 1 in close_blocksH x lp lp
                 else Ok x
               end ;;
          h <- append_child (s_h (hx_s x)) parent node ;;
          let s := hx_s x in
          let x := sth_s x (st_c (st_h s h) (push_opened (s_c s) (node, bp))) in
          if has_children then Ok (TRetryH node continuable newBlocksOpened x)
          else Ok (TDoneH newBlocksOpened x)
        end
      end
  end.

Fixpoint open_blocks_loopH (fuel : nat) (parent : nat) (blank continuable : bool) (res : Z)
                           (x : sth) : result (Z * bool * sth) :=
  match fuel with
  | O => OutOfFuel
  | S f =>
    y <- peek_line_s (hx_s x) ;;
    let '(s, line, _) := y in
    z <- line_offset_s s ;;
    let '(s, off) := z in
    let l := line_of line in
    let '(w, pos) := Blocks.indent_width l off in
    let s := st_c s (if zlen l <=? w then cset_off (s_c s) (-1) (-1) else cset_off (s_c s) pos w) in
    let x := sth_s x s in
    let skip := match line with None => true | Some [] => true
                              | Some (c :: _) => N.eqb c 10 end in
    if skip then Ok (res, continuable, x)
    else
      let bps := if pos <? zlen l then candidates (nth_byte l pos) else free_parsers in
      t <- try_parsersH bps parent blank continuable res w x ;;
      match t with
      | TRetryH parent continuable res x => open_blocks_loopH f parent blank continuable res x
      | TDoneH res x => Ok (res, continuable, x)
      end
  end.

Definition open_blocksH (fuel : nat) (parent : nat) (blank : bool) (x : sth) : result (Z * sth) :=
  let last_block := last_opened (s_c (hx_s x)) in
  cont <- match last_block with None => Ok false | Some (l, _) => is_paragraph (s_h (hx_s x)) l end ;;
  y <- open_blocks_loopH fuel parent blank cont noBlocksOpened x ;;
  let '(res, continuable, x) := y in
  if (res =? noBlocksOpened) && continuable then
    match last_opened (s_c (hx_s x)) with
    | None => Panic
    | Some (l, lp) =>
      z <- p_continue lp (hx_s x) l ;;
      let '(s, cont, _) := z in
      Ok (if cont then paragraphContinuation else res, sth_s x s)
    end
  else Ok (res, x).

Definition advance_line_h (x : sth) : sth := sth_s x (advance_line_s (hx_s x)).

Fixpoint each_openedH (fuel : nat) (captured : list (nat * bparser)) (root : nat) (i : Z) (last_index : Z)
                      (stats : list (Z * Z * bool)) (x : sth) : result ((sth + sth) * list (Z * Z * bool)) :=
  match fuel with
  | O => OutOfFuel
  | S f =>
    if last_index <? i then Ok (inr x, stats)
    else
      match nth_error captured (Z.to_nat i) with
      | None => Panic
      | Some (node, bp) =>
        y <- peek_line_s (hx_s x) ;;
        let '(s, line, _) := y in
        let x := sth_s x s in
        match line with
        | None =>
          x <- close_blocksH x last_index 0 ;;
          Ok (inl (advance_line_h x), stats)
        | Some line =>
          let line_num := rline (hx_s x) in
          let stats := (line_num, i, is_blank line) :: stats in
          isp <- is_paragraph (s_h (hx_s x)) node ;;
          c <- (if negb isp then
                  y <- p_continue bp (hx_s x) node ;;
                  let '(s, cont, kids) := y in Ok (sth_s x s, cont, kids)
                else Ok (x, false, false)) ;;
          let '(x, cont, kids) := c in
          if cont then
            if kids && (i =? last_index) then
              let blank := is_blank_line (line_num - 1) i stats in
              o <- open_blocksH (2 * length line + 8) node blank x ;;
              Ok (inr (snd o), stats)
            else each_openedH f captured root (i + 1) last_index stats x
          else
            let blank := is_blank_line (line_num - 1) i stats in
            this_parent <- (if i =? 0 then Ok root
                            else match nth_error captured (Z.to_nat (i - 1)) with
                                 | Some (p, _) => Ok p | None => Panic end) ;;
            last_node <- match nth_error captured (Z.to_nat last_index) with
                         | Some (p, _) => Ok p | None => Panic end ;;
            o <- open_blocksH (2 * length line + 8) this_parent blank x ;;
            let '(res, x) := o in
            if negb (res =? paragraphContinuation) then
              now_last <- match nth_error (c_arr (s_c (hx_s x))) (Z.to_nat last_index) with
                          | Some (p, _) => Ok p | None => Panic end ;;
              let last_index := if Nat.eqb now_last last_node then last_index else last_index - 1 in
              x <- close_blocksH x last_index i ;;
              Ok (inr x, stats)
            else Ok (inr x, stats)
        end
      end
  end.

Fixpoint lines_loopH (fuel : nat) (root : nat) (stats : list (Z * Z * bool)) (x : sth)
  : result ((sth + sth) * list (Z * Z * bool)) :=
  match fuel with
  | O => OutOfFuel
  | S f =>
    let captured := opened (s_c (hx_s x)) in
    match captured with
    | [] => Ok (inr x, stats)
    | _ =>
      y <- each_openedH (S (length captured)) captured root 0 (zlen captured - 1) stats x ;;
      let '(r, stats) := y in
      match r with
      | inl x => Ok (inl x, stats)
      | inr x => lines_loopH f root stats (advance_line_h x)
      end
    end
  end.

Fixpoint parse_blocks_loopH (fuel : nat) (root : nat) (stats : list (Z * Z * bool)) (x : sth) : result sth :=
  match fuel with
  | O => OutOfFuel
  | S f =>
    let s := hx_s x in
    y <- r_skip_blank_lines space_table (S (length (src_of s))) (s_r s) ;;
    let '(r, _, lines, ok) := y in
    let s := st_r s r in
    let x := sth_s x s in
    if negb ok then Ok x
    else
      let line_num := rline s in
      let stats := if negb (lines =? 0)
                   then rev (map (fun i => (line_num - 1, Z.of_nat i, true)) (seq 0 (c_len (s_c s))))
                   else stats in
      let blank := is_blank_line (line_num - 1) 0 stats in
      o <- open_blocksH (2 * length (src_of s) + 8) root blank x ;;
      let '(res, x) := o in
      if negb (res =? newBlocksOpened) then Ok x
      else
        let x := advance_line_h x in
        y <- lines_loopH (S (length (src_of (hx_s x)))) root stats x ;;
        let '(r, stats) := y in
        match r with
        | inl x => Ok x
        | inr x => parse_blocks_loopH f root stats x
        end
  end.

Definition parse_blocksH (src : bytes) : result sth :=
  let s := {| s_h := [mknode BDocument 0]; s_c := init_ctx; s_r := new_reader src |} in
  parse_blocks_loopH (S (length src)) 0%nat [] {| hx_s := s; hx_ids := []; hx_attrs := [] |}.

End WithTables.

(* ---------------- from the heap to the tree, with the attributes ---------------- *)
Fixpoint to_treeH (fuel : nat) (src : bytes) (h : heap) (attrs : list (nat * list attr)) (i : nat) : result tree :=
  match fuel with
  | O => OutOfFuel
  | S f =>
    n <- hget h i ;;
    k <- kind_of src n ;;
    kids <- map_res (to_treeH f src h attrs) (bch n) ;;
    Ok (Node k (blines n) (node_attrs attrs i) kids)
  end.
