(* Model of the inline phase of parser.Parse with the inline parser of extension.Typographer
   (extension/typographer.go, default substitutions), which can be switched on (typo): a
   generalised copy of the line scan of model/InlineParse.v (parser.go parseBlock).

   - typographerParser.Trigger: the two quote characters and - . , < > * [ ; priority 9999, i.e. behind every default
     inline parser registered on the same character ('<': AutoLink, RawHTML; '*': Emphasis;
     '[': Link).  For ',', '*' and '[' Parse always answers nil; the registration still makes
     parseBlock flush the text in front of a ',' (no default parser is registered on ',').
   - typographerParser.Parse: dashes, ellipsis, angle quotes, then the rules for the two quote
     characters: parser.ScanDelimiter (model/Delim.v) with the typographer delimiter processor
     (IsDelimiter: the two quote characters), the preceding character, and the counters of unclosed quotes kept
     in the parse context (unclosedCounter).  The delimiter that ScanDelimiter returns is only
     looked at: it is never pushed on the delimiter list, so ProcessDelimiters and the link
     parser are those of the core model.
   - typographerParser.CloseBlock(parent, pc), which would reset the counters, is never called:
     it does not have the signature of parser.CloseBlocker (CloseBlock(parent, block, pc)), so
     the parser is not registered as a close blocker.  The counters live in the parse context
     of the whole document: the inline phase of a block starts with the counters the previous
     block (in the order of parser.walkBlock: children first, in document order) left behind.

   The heap types are those of InlineParse.v.  The core model has no constructor for String
   nodes; a String node with the substitution text of TypographicPunctuation p (1 .. 10, the
   constants of typographer.go) and the code flag set is written as an Emphasis node with the
   level -(10 + p), which no emphasis has; itreeT translates it back. *)
Require Import GM.model.Base GM.model.Util GM.model.Reader GM.model.Blocks GM.model.ListItem
               GM.model.LeafBlocks GM.model.CodeSpan GM.model.LinkDest GM.model.Regex GM.model.Delim
               GM.model.HtmlWriter GM.model.Html GM.model.BlockParse GM.model.InlineParse.
From Coq Require Import ZArith.
Open Scope Z_scope.

(* TypographicPunctuation *)
Definition LeftSingleQuote := 1.
Definition RightSingleQuote := 2.
Definition LeftDoubleQuote := 3.
Definition RightDoubleQuote := 4.
Definition EnDash := 5.
Definition EmDash := 6.
Definition Ellipsis := 7.
Definition LeftAngleQuote := 8.
Definition RightAngleQuote := 9.
Definition Apostrophe := 10.

(* newDefaultSubstitutions *)
Definition substitution (p : Z) : bytes :=
  (if Z.eqb p 1 then [38;108;115;113;117;111;59]             (* &lsquo; *)
   else if Z.eqb p 2 then [38;114;115;113;117;111;59]        (* &rsquo; *)
   else if Z.eqb p 3 then [38;108;100;113;117;111;59]        (* &ldquo; *)
   else if Z.eqb p 4 then [38;114;100;113;117;111;59]        (* &rdquo; *)
   else if Z.eqb p 5 then [38;110;100;97;115;104;59]         (* &ndash; *)
   else if Z.eqb p 6 then [38;109;100;97;115;104;59]         (* &mdash; *)
   else if Z.eqb p 7 then [38;104;101;108;108;105;112;59]    (* &hellip; *)
   else if Z.eqb p 8 then [38;108;97;113;117;111;59]         (* &laquo; *)
   else if Z.eqb p 9 then [38;114;97;113;117;111;59]         (* &raquo; *)
   else if Z.eqb p 10 then [38;114;115;113;117;111;59]       (* &rsquo; *)
   else [])%N.

(* node := gast.NewString(s.Substitutions[p]); node.SetCode(true) *)
Definition ITypoString (p : Z) : ikind := IEmphasis (- (10 + p)).

(* the state of parseBlock: the context and the reader, and the unclosedCounter of the context *)
Record tst := { ts_s : ist; ts_single : Z; ts_double : Z }.
Definition tst_s x v := {| ts_s := v; ts_single := ts_single x; ts_double := ts_double x |}.
Definition tst_single x v := {| ts_s := ts_s x; ts_single := v; ts_double := ts_double x |}.
Definition tst_double x v := {| ts_s := ts_s x; ts_single := ts_single x; ts_double := v |}.

Section WithTables.
Variable typo : bool.                       (* the Typographer extension is installed *)
Variable space_table punct_table : list N.
Variable norm : bytes -> bytes.
Variable url_table email_table : list N.
Variable re_email_domain re_open_tag re_close_tag : re.
Variable punct_rune space_rune : N -> bool. (* util.IsPunctRune, util.IsSpaceRune *)
(* unicode.IsPunct, unicode.IsSpace, unicode.IsDigit, unicode.IsLetter *)
Variable uni_punct uni_space uni_digit uni_letter : N -> bool.
Variable refs : list (bytes * (bytes * option bytes)).
Notation is_space := (is_space space_table).
Notation is_punct := (is_punct punct_table).

(* ---- extension/typographer.go: typographerParser.Parse ---- *)
Definition typo_node (x : tst) (p : Z) (adv : Z) : result (tst * option nat) :=
  let s := ts_s x in
  let '(c, n) := new_inode (t_c s) (ITypoString p) in
  r <- b_advance (t_r s) adv ;;
  Ok (tst_s x {| t_c := c; t_r := r |}, Some n).

Definition typo_parse (x : tst) : result (tst * option nat) :=
  let s := ts_s x in
  y <- b_peek_line (t_r s) ;;
  let '(r, line, _) := y in
  let s := ist_r s r in
  let x := tst_s x s in
  match line with
  | None | Some [] => Panic                                  (* line[0] *)
  | Some ((c :: _) as line) =>
    let len := zlen line in
    let at1 := nth_byte line 1 in
    let at2 := nth_byte line 2 in
    let at3 := nth_byte line 3 in
    let nil := Ok (x, None) in
    (* the quote rules at the end of Parse *)
    let quotes : result (tst * option nat) :=
      if N.eqb c 39 || N.eqb c 34 then
        before <- b_preceding (t_r s) ;;
        d <- scan_delimiter punct_rune space_rune (fun b => N.eqb b 39 || N.eqb b 34) line before 1 ;;
        match d with
        | None => nil
        | Some (can_open, can_close, _, _) =>
          let is_close := can_close && negb can_open in
          (* maybeClose: CanClose && CanOpen && len(line) > 1 && unicode.IsPunct(ToRune(line, 1)) &&
             (len(line) == 2 || (len(line) > 2 && IsPunct(line[2]) || IsSpace(line[2]))) *)
          let maybe_close : result bool :=
            if can_close && can_open && (1 <? len) then
              r1 <- to_rune line 1 ;;
              Ok (uni_punct r1 && ((len =? 2) || ((2 <? len) && is_punct at2) || is_space at2))
            else Ok false in
          if N.eqb c 39 then
            (* s.Substitutions[Apostrophe] != nil *)
            (* decade abbreviations such as '90s *)
            a1 <- (if can_open && negb can_close && (3 <? len) && is_numeric at1 && is_numeric at2 && N.eqb at3 115 then
                     after <- (if 4 <? len then to_rune line 4 else Ok 32%N) ;;
                     Ok ((len =? 3) || space_rune after || punct_rune after)
                   else Ok false) ;;
            if a1 then typo_node x Apostrophe 1
            (* 'twas, 'em, 'net *)
            else if (1 <? len) && (uni_punct before || uni_space before) &&
                    (N.eqb at1 116 || N.eqb at1 101 || N.eqb at1 110 || N.eqb at1 108) then typo_node x Apostrophe 1
            else
              (* an apostrophe between two alphanumerics *)
              a3 <- (if (1 <? len) && (uni_digit before || uni_letter before) then
                       r1 <- to_rune line 1 ;; Ok (uni_letter r1)
                     else Ok false) ;;
              if a3 then typo_node x Apostrophe 1
              else if can_open && negb can_close then
                (* Alice's, I'm, Don't, You'd;  I've, I'll, You're *)
                let right1 := (1 <? len) && (N.eqb at1 115 || N.eqb at1 109 || N.eqb at1 116 || N.eqb at1 100) &&
                              ((len <? 3) || is_punct at2 || is_space at2) in
                let right2 := (2 <? len) && ((N.eqb at1 118 && N.eqb at2 101) || (N.eqb at1 108 && N.eqb at2 108) ||
                                             (N.eqb at1 114 && N.eqb at2 101)) &&
                              ((len <? 4) || is_punct at3 || is_space at3) in
                if right1 || right2 then typo_node x RightSingleQuote 1
                else typo_node (tst_single x (ts_single x + 1)) LeftSingleQuote 1
              else
                (* plural possessives and abbreviations: Smiths', doin':
                   len(line) > 1 && unicode.IsSpace(ToRune(line, 0)) ||
                   unicode.IsPunct(ToRune(line, 0)) && (len(line) > 2 && !unicode.IsDigit(ToRune(line, 1))) *)
                r0 <- to_rune line 0 ;;
                p1 <- (if (1 <? len) && uni_space r0 then Ok true
                       else if uni_punct r0 && (2 <? len) then r1 <- to_rune line 1 ;; Ok (negb (uni_digit r1))
                       else Ok false) ;;
                if p1 then typo_node x RightSingleQuote 1
                else if 0 <? ts_single x then
                  mc <- maybe_close ;;
                  if is_close || mc then typo_node (tst_single x (ts_single x - 1)) RightSingleQuote 1
                  else nil
                else nil
          else
            (* the double quote *)
            if can_open && negb can_close then typo_node (tst_double x (ts_double x + 1)) LeftDoubleQuote 1
            else if 0 <? ts_double x then
              mc <- maybe_close ;;
              if is_close || mc then
                (* special case: Monitor 21 followed by two double quotes *)
                if (1 <? len) && N.eqb at1 34 && uni_digit before then nil
                else typo_node (tst_double x (ts_double x - 1)) RightDoubleQuote 1
              else nil
            else nil
        end
      else nil in
    (* the statement "if len(line) > 1" and what follows it *)
    let two : result (tst * option nat) :=
      if 1 <? len then
        if N.eqb c 60 then (if N.eqb at1 60 then typo_node x LeftAngleQuote 2 else nil)
        else if N.eqb c 62 then (if N.eqb at1 62 then typo_node x RightAngleQuote 2 else nil)
        else if N.eqb c 45 && N.eqb at1 45 then typo_node x EnDash 2
        else quotes
      else quotes in
    if 2 <? len then
      if N.eqb c 45 then
        if N.eqb at1 45 && N.eqb at2 45 then typo_node x EmDash 3 else two
      else if N.eqb c 46 then
        if N.eqb at1 46 && N.eqb at2 46 then typo_node x Ellipsis 3 else nil
      else two
    else two
  end.

(* ---- the inline parser table: the default parsers, and the typographer behind them ---- *)
Inductive iparserT := TCore (p : iparser) | TTypo.
Definition inline_parsersT (c : N) : list iparserT :=
  let ty := if typo then [TTypo] else [] in
  if N.eqb c 96 then [TCore IPCodeSpan]
  else if N.eqb c 91 then [TCore IPLink] ++ ty
  else if (N.eqb c 33 || N.eqb c 93) then [TCore IPLink]
  else if N.eqb c 60 then [TCore IPAutoLink; TCore IPRawHTML] ++ ty
  else if N.eqb c 42 then [TCore IPEmphasis] ++ ty
  else if N.eqb c 95 then [TCore IPEmphasis]
  else if (N.eqb c 39 || N.eqb c 34 || N.eqb c 45 || N.eqb c 46 || N.eqb c 44 || N.eqb c 62) then ty
  else [].

Definition ip_parseT (p : iparserT) (x : tst) (parent : nat) : result (tst * option nat) :=
  match p with
  | TCore q =>
    y <- ip_parse space_table punct_table norm url_table email_table re_email_domain re_open_tag re_close_tag
                  punct_rune space_rune refs q (ts_s x) parent ;;
    Ok (tst_s x (fst y), snd y)
  | TTypo => typo_parse x
  end.

Fixpoint try_inlineT (ips : list iparserT) (x : tst) (parent : nat) (sl : Z) (sp : seg) : result (tst * option nat) :=
  match ips with
  | [] => Ok (x, None)
  | p :: rest =>
    y <- ip_parseT p x parent ;;
    let '(x, n) := y in
    match n with
    | Some _ => Ok (x, n)
    | None => r <- b_set_position (t_r (ts_s x)) sl sp ;; try_inlineT rest (tst_s x (ist_r (ts_s x) r)) parent sl sp
    end
  end.

(* the scan of one line: inl = an inline node was appended (retry), inr (n, start) = end of line *)
Fixpoint scan_lineT (fuel : nat) (line : bytes) (i : Z) (line_length : Z) (n : Z) (escaped : bool)
                    (start_pos : seg) (x : tst) (parent : nat) : result ((tst * bool) + (tst * Z * seg)) :=
  match fuel with
  | O => OutOfFuel
  | S f =>
    if line_length <=? i then Ok (inr (x, n, start_pos))
    else
      match zskip i line with
      | [] => Ok (inr (x, n, start_pos))
      | c :: _ =>
        if N.eqb c 10 then Ok (inr (x, n, start_pos))
        else
          let isspace := is_space c && negb (N.eqb c 13) && negb (N.eqb c 10) in
          let ispunct := is_punct c in
          let consult := (ispunct && negb escaped) || isspace || (i =? 0) in
          let pchar := if isspace || ((i =? 0) && negb ispunct) then 32%N else c in
          let ips := if consult then inline_parsersT pchar else [] in
          r <- match ips with
               | [] => Ok (inr (x, n, start_pos))
               | _ =>
                 let s := ts_s x in
                 rd <- b_advance (t_r s) n ;;
                 let s := ist_r s rd in
                 let sl := b_line (t_r s) in
                 let sp := b_pos (t_r s) in
                 t <- (if negb (i =? 0) then
                         bt <- seg_between start_pos sp ;;
                         c' <- merge_or_append (t_c s) parent bt ;;
                         Ok (ist_c s c', sp)
                       else Ok (s, start_pos)) ;;
                 let '(s, start_pos) := t in
                 y <- try_inlineT ips (tst_s x s) parent sl sp ;;
                 let '(x, node) := y in
                 match node with
                 | Some nd =>
                   let s := ts_s x in
                   h <- i_append (i_h (t_c s)) parent nd ;;
                   Ok (inl (tst_s x (ist_c s (cx_h (t_c s) h))))
                 | None => Ok (inr (x, 0, start_pos))       (* no parser is registered on the blank: flushedAtSpace stays nil *)
                 end
               end ;;
          match r with
          | inl x => Ok (inl (x, escaped))
          | inr (x, n, start_pos) =>
            if escaped then scan_lineT f line (i + 1) line_length (n + 1) false start_pos x parent
            else if N.eqb c 92 then scan_lineT f line (i + 1) line_length (n + 1) true start_pos x parent
            else scan_lineT f line (i + 1) line_length (n + 1) false start_pos x parent
          end
      end
  end.

(* parseBlock: the loop over the lines of the block *)
Fixpoint parse_block_loopT (fuel : nat) (x : tst) (parent : nat) (escaped : bool) : result tst :=
  match fuel with
  | O => OutOfFuel
  | S f =>
    y <- b_peek_line (t_r (ts_s x)) ;;
    let '(r, line, _) := y in
    let x := tst_s x (ist_r (ts_s x) r) in
    match line with
    | None => Ok x
    | Some line =>
      let ll := zlen line in
      let has_nl := N.eqb (last_byte line 1) 10 in
      let '(line_length, hard, visible, soft) :=
        if has_nl && ends_with_unescaped_backslash (zfirst (ll - 1) line) then (ll - 2, true, true, false)
        else if has_nl && (2 <=? ll) && N.eqb (last_byte line 2) 13 && ends_with_unescaped_backslash (zfirst (ll - 2) line)
             then (ll - 3, true, true, false)
        else if (3 <=? ll) && N.eqb (last_byte line 3) 32 && N.eqb (last_byte line 2) 32 && has_nl then (ll - 3, true, false, false)
        else if (4 <=? ll) && N.eqb (last_byte line 4) 32 && N.eqb (last_byte line 3) 32 && N.eqb (last_byte line 2) 13 && has_nl
             then (ll - 4, true, false, false)
        else if has_nl then (ll, false, false, true)
        else (ll, false, false, false) in
      let l := b_line (t_r (ts_s x)) in
      let start_pos := b_pos (t_r (ts_s x)) in
      z <- scan_lineT (S (length line)) line 0 line_length 0 escaped start_pos x parent ;;
      match z with
      | inl (x, escaped) => parse_block_loopT f x parent escaped
      | inr (x, n, start_pos) =>
        let s := ts_s x in
        r <- (if negb (n =? 0) then b_advance (t_r s) n else Ok (t_r s)) ;;
        let s := ist_r s r in
        let x := tst_s x s in
        let cur_l := b_line (t_r s) in
        let cur_pos := b_pos (t_r s) in
        if negb (l =? cur_l) then parse_block_loopT f x parent false
        else
          diff <- seg_between start_pos cur_pos ;;
          t <- (if hard && visible then Ok (t_c s, diff)
                else
                  trimmed <- seg_trim_right_space space_table (b_src (t_r s)) diff ;;
                  if seg_is_empty trimmed then
                    pn <- iget (i_h (t_c s)) parent ;;
                    match last_id (ich pn) with
                    | Some lst =>
                      ln <- iget (i_h (t_c s)) lst ;;
                      match ik ln with
                      | IText ts sf hd raw =>
                        if (s_stop ts =? s_start diff) && negb raw && negb sf && negb hd then
                          ts' <- seg_trim_right_space space_table (b_src (t_r s)) ts ;;
                          h <- iupd (i_h (t_c s)) lst (fun m => iset_kind m (IText ts' sf hd raw)) ;;
                          Ok (cx_h (t_c s) h, trimmed)
                        else Ok (t_c s, trimmed)
                      | _ => Ok (t_c s, trimmed)
                      end
                    | None => Ok (t_c s, trimmed)
                    end
                  else Ok (t_c s, trimmed)) ;;
          let '(c, tseg) := t in
          let '(c, tx) := new_inode c (IText tseg soft hard false) in
          h <- i_append (i_h c) parent tx ;;
          r <- b_advance_line (t_r s) ;;
          parse_block_loopT f (tst_s x {| t_c := cx_h c h; t_r := r |}) parent false
      end
    end
  end.

(* the inline children of one block with the given lines, from the counters (Single, Double)
   of the context to the new ones; the only close blocker is the link parser *)
Definition parse_blockT (cnt : Z * Z) (src : bytes) (lines : list seg) : result (ictx * (Z * Z)) :=
  r <- new_block_reader src lines ;;
  let x := {| ts_s := {| t_c := init_ictx; t_r := r |}; ts_single := fst cnt; ts_double := snd cnt |} in
  x <- parse_block_loopT (2 * length src + 2 * length lines + 8) x 0%nat false ;;
  c <- process_delimiters (ifuel (ts_s x)) (t_c (ts_s x)) BNil ;;
  c <- link_close_block c ;;
  Ok (c, (ts_single x, ts_double x)).

End WithTables.

(* ---- from the inline heap to renderer trees ---- *)
Fixpoint itreeT (fuel : nat) (src : bytes) (h : iheap) (i : nat) : result tree :=
  match fuel with
  | O => OutOfFuel
  | S f =>
    n <- iget h i ;;
    kids <- map_res (itreeT f src h) (ich n) ;;
    k <- match ik n with
         | IRoot => Ok KOther
         | IText s soft hard raw => Ok (KText s soft hard raw)
         | ICodeSpan => Ok KCodeSpan
         | IEmphasis l =>
           Ok (if l <? -10 then KString (substitution (- l - 10)) false true else KEmphasis l)
         | ILink d t => Ok (KLink d t)
         | IImage d t => Ok (KImage d t)
         | IAutoLink e sg => v <- seg_value src sg ;; Ok (KAutoLink e v v)
         | IRawHTML segs => Ok (KRawHTML segs)
         | IDelim _ _ _ _ _ _ _ _ => Ok KOther
         | ILabel _ _ _ _ _ _ => Ok KOther
         end ;;
    Ok (Node k [] None kids)
  end.

Section Children.
Variable typo : bool.
Variable space_table punct_table : list N.
Variable norm : bytes -> bytes.
Variable url_table email_table : list N.
Variable re_email_domain re_open_tag re_close_tag : re.
Variable punct_rune space_rune : N -> bool.
Variable uni_punct uni_space uni_digit uni_letter : N -> bool.
Variable refs : list (bytes * (bytes * option bytes)).

Definition inline_childrenT (cnt : Z * Z) (src : bytes) (lines : list seg) : result (list tree * (Z * Z)) :=
  x <- parse_blockT typo space_table punct_table norm url_table email_table re_email_domain re_open_tag re_close_tag
                    punct_rune space_rune uni_punct uni_space uni_digit uni_letter refs cnt src lines ;;
  let '(c, cnt) := x in
  t <- itreeT (S (length (i_h c))) src (i_h c) 0%nat ;;
  Ok (t_children t, cnt).
End Children.
