(* C12: the reviewed list of statements of goldmark that store through a []byte value (index
   store, copy into, append to), as found with go/types over every non-test file.  The regenerated
   list gen/WriteSites.v must be contained in this one; a statement that is not listed here
   breaks the fact C12_write_sites_reviewed.  Why each listed site cannot reach the caller's
   source buffer:

   ast AutoLink.URL              ret is made with make() in the function
   ast HTMLBlock.Text            ret is the result of Segments.Value, built by append from nil
   parser ids.Generate           result starts as []byte{} (a new empty slice)
   parser parseReferenceLink     the appended-to maybeReference is the one reset to []byte{}
                                 (the branch that aliases block.Value never appends)
   parser ParseAttributes        ret is made with make() two lines above
   parser parseLinkReferenceDefinition, parseLinkTitle
                                 label / title are nil-declared locals grown by append
   text Segment.ConcatPadding    appends to its argument; its only callers (blockReader.Value)
                                 pass the slice they made with make()
   text Segment.Value            result is buffer[Start:Stop] capped with a three-index slice
                                 (after the fix: commit), or made with make(); the model
                                 SliceHeap.seg_value_h and theorem C12_seg_value_no_store_into_input
   text Segments.Value           result is nil-declared and grown by append of copies
   text blockReader.Value        ret is made with make()
   util CopyOnWriteBuffer.*      every store is behind the copied flag: the first store replaces
                                 the buffer by a new one (model SliceHeap, theorem C12_cob_protocol)
   util ReplaceSpaces            ret is nil until it is made with make(), and only then appended to
*)
From Coq Require Import List String Bool.
Import ListNotations.
Open Scope string_scope.

Definition reviewed_write_sites : list string := [
  "ast *AutoLink.URL append-to ret";
  "ast *HTMLBlock.Text append-to ret";
  "parser *ids.Generate append-to result";
  "parser *linkParser.parseReferenceLink append-to maybeReference";
  "parser ParseAttributes append-to append(ret, ' ')";
  "parser ParseAttributes append-to ret";
  "parser parseLinkReferenceDefinition append-to label";
  "parser parseLinkReferenceDefinition append-to title";
  "parser parseLinkTitle append-to title";
  "text *Segment.ConcatPadding append-to v";
  "text *Segment.Value append-to result";
  "text *Segment.Value append-to result[:len(result):len(result)]";
  "text *Segments.Value append-to result";
  "text *blockReader.Value append-to ret";
  "util *CopyOnWriteBuffer.Append append-to b.buffer";
  "util *CopyOnWriteBuffer.Append copy-into tmp";
  "util *CopyOnWriteBuffer.AppendByte append-to b.buffer";
  "util *CopyOnWriteBuffer.AppendByte copy-into tmp";
  "util *CopyOnWriteBuffer.Write append-to b.buffer";
  "util *CopyOnWriteBuffer.WriteByte append-to b.buffer";
  "util ReplaceSpaces append-to ret"
].

Definition sites_reviewed (sites : list string) (problems : nat) : bool :=
  Nat.eqb problems 0 && forallb (fun s => existsb (String.eqb s) reviewed_write_sites) sites.
