(* The parser model instantiated with the tables and regular expressions regenerated from the code. *)
Require Import GM.model.Base GM.model.Util GM.model.UtilI GM.model.Reader GM.model.Regex GM.model.BlockParse GM.model.Html.
Require Import GM.gen.Tables GM.gen.Regexes.

Definition ParseBlocks (src : bytes) : result st :=
  parse_blocks space_table punct_table ToLinkReference
    re_htmlBlockType1Open re_htmlBlockType1Close re_htmlBlockType2Open re_htmlBlockType3Open
    re_htmlBlockType4Open re_htmlBlockType5Open re_htmlBlockType6 re_htmlBlockType7 allowed_block_tags src.

(* the block structure as a renderer tree, and the reference definitions *)
Definition ParseBlocksTree (src : bytes) : result (tree * list (bytes * (bytes * option bytes))) :=
  s <- ParseBlocks src ;;
  t <- to_tree (S (length (s_h s))) src (s_h s) 0%nat ;;
  Ok (t, c_refs (s_c s)).

Require Import GM.model.InlineParse GM.model.DelimI.
Definition InlineChildren (refs : list (bytes * (bytes * option bytes))) (src : bytes) (lines : list seg) : result (list tree) :=
  inline_children space_table punct_table ToLinkReference url_table email_table
    re_emailDomain re_openTag re_closeTag PunctRune SpaceRune refs src lines.

(* parser.Parse of the default configuration, as the tree the renderer model takes *)
Definition ParseTree (src : bytes) : result tree :=
  x <- ParseBlocksTree src ;;
  let '(t, refs) := x in
  attach_inlines (InlineChildren refs src) t.

(* goldmark.Convert of the default configuration with the given renderer options:
   Parse, then Render, both models *)
Require Import GM.model.HtmlI.
Definition ConvertModel (cfg : rcfg) (src : bytes) : result bytes :=
  t <- ParseTree src ;;
  RenderHTML cfg src t.

(* the hypothesis the inline phase relies on, as a boolean evaluated in the correspondence runs:
   the lines of every inline-bearing block are non-empty, inside the source, without padding
   or forced newline, and in source order *)
Definition ParseLinesOk (src : bytes) : result bool :=
  x <- ParseBlocksTree src ;; Ok (tree_lines_ok src (fst x)).
