(* Model of parser/code_block.go (indented code blocks): Open, Continue, Close, with
   text.Segment.TrimLeftSpaceWidth and preserveLeadingTabInCodeBlock, over the reader model. *)
Require Import GM.model.Base GM.model.Util GM.model.Reader GM.model.Blocks GM.model.ListItem GM.model.LeafBlocks.
From Coq Require Import ZArith.
Open Scope Z_scope.

Section WithTables.
Variable space_table : list N.

(* Segment.TrimLeftSpaceWidth(width, buffer) *)
Fixpoint tlsw_loop (text : bytes) (start stop width : Z) : Z * Z :=
  match text with
  | [] => (start, width)
  | c :: r =>
    if ((stop - 1 <=? start) || (width <=? 0))%bool then (start, width)
    else if N.eqb c 32 then tlsw_loop r (start + 1) stop (width - 1)
    else if N.eqb c 9 then tlsw_loop r (start + 1) stop (width - 4)
    else (start, width)
  end.
Definition seg_trim_left_space_width (src : bytes) (t : seg) (width : Z) : result seg :=
  (* for ; width > 0; width-- { if padding == 0 break; padding-- } *)
  let used := Z.min (Z.max width 0) (Z.max (s_pad t) 0) in
  let padding := s_pad t - used in
  let width := width - used in
  if width =? 0 then Ok (mksegp (s_start t) (s_stop t) padding)
  else
    text <- slice src (s_start t) (s_stop t) ;;
    let '(start, w) := tlsw_loop text (s_start t) (s_stop t) width in
    let padding := if w <? 0 then - w else padding in
    Ok (mksegp start (s_stop t) padding).

(* the part common to Open and Continue once the line is known to be indented enough:
   advance, take the rest of the line as a segment, keep a leading tab, consume the line *)
Definition code_block_take (r : reader) (pos padding : Z) : result (seg * reader) :=
  r <- r_advance_and_set_padding r pos padding ;;
  x <- r_peek_line r ;;
  let '(r, _, sg) := x in
  t <- (if s_pad sg =? 0 then Ok (sg, r)
        else
          (* preserveLeadingTabInCodeBlock(&segment, reader, 0) *)
          y <- r_line_offset r ;;
          let '(r, off) := y in
          let '(sl, ss) := r_position r in
          r <- r_set_position r sl (mkseg (s_start ss - 1) (s_stop ss)) ;;
          z <- r_line_offset r ;;
          let '(r, off2) := z in
          r <- r_set_position r sl ss ;;
          Ok (if off =? off2 then mksegp (s_start sg - 1) (s_stop sg) 0 else sg, r)) ;;
  let '(sg, r) := t in
  let sgf := {| s_start := s_start sg; s_stop := s_stop sg; s_pad := s_pad sg; s_fnl := true |} in
  r <- r_advance r (seg_len sgf - 1) ;;
  Ok (sgf, r).

(* Open: None = declines *)
Definition code_block_open (r : reader) : result (option (seg * reader)) :=
  x <- r_peek_line r ;;
  let '(r, line, _) := x in
  let line := match line with Some l => l | None => [] end in
  y <- r_line_offset r ;;
  let '(r, off) := y in
  let '(pos, padding) := indent_position line off 4 in
  if ((pos <? 0) || is_blank space_table line)%bool then Ok None
  else (t <- code_block_take r pos padding ;; Ok (Some t)).

(* Continue: inl (seg, r) = the line is appended; inr tt = Close *)
Definition code_block_continue (r : reader) : result ((seg * reader) + unit) :=
  x <- r_peek_line r ;;
  let '(r, line, sg) := x in
  let line := match line with Some l => l | None => [] end in
  if is_blank space_table line then
    (t <- seg_trim_left_space_width (r_src r) sg 4 ;; Ok (inl (t, r)))
  else
    y <- r_line_offset r ;;
    let '(r, off) := y in
    let '(pos, padding) := indent_position line off 4 in
    if pos <? 0 then Ok (inr tt)
    else (t <- code_block_take r pos padding ;; Ok (inl t)).

(* Close: trailing blank lines are dropped *)
Fixpoint drop_trailing_blank (src : bytes) (rev_lines : list seg) : result (list seg) :=
  match rev_lines with
  | [] => Ok []
  | s :: rest => v <- seg_value src s ;;
                 if is_blank space_table v then drop_trailing_blank src rest else Ok rev_lines
  end.
Definition code_block_close (src : bytes) (lines : list seg) : result (list seg) :=
  l <- drop_trailing_blank src (rev lines) ;; Ok (rev l).

End WithTables.

(* ---------- specification side: what CommonMark prescribes for the content of an indented
   code line: k columns of leading indentation are removed; a tab that is only partly used up
   leaves blanks for its remaining columns; tabs after that stay tabs ---------- *)
Fixpoint dedent_cols (k : nat) (l : bytes) (col : Z) : bytes :=
  match k with
  | O => l
  | S k' =>
    match l with
    | c :: r =>
      if N.eqb c 32 then dedent_cols k' r (col + 1)
      else if N.eqb c 9 then
        let w := 4 - col mod 4 in
        if w <=? Z.of_nat k then dedent_cols (k - Z.to_nat w) r (col + w) else repeat 32%N (Z.to_nat (w - Z.of_nat k)) ++ r
      else l
    | [] => []
    end
  end.
