(* Model of the text-level writers of renderer/html/html.go: defaultWriter.Write / RawWrite /
   SecureWrite, escapeRune, RenderAttributes, hasPrefix / IsDangerousURL, and the href/src value
   written by renderLink / renderImage / renderAutoLink (after the fix: commit). *)
Require Import GM.model.Base GM.model.Util GM.model.HtmlDecode.
Open Scope N_scope.

Definition lower_ascii (c : N) : N := if (65 <=? c) && (c <=? 90) then c + 32 else c.

(* hasPrefix(s, prefix) for an ASCII lower-case prefix: bytes.ToLower of the leading
   len(prefix) bytes equals the prefix exactly when those bytes are ASCII and match it
   case-insensitively (a non-ASCII rune never lower-cases to the same number of ASCII bytes) *)
Fixpoint has_prefix_ci (s p : bytes) : bool :=
  match p, s with
  | [], _ => true
  | _ :: _, [] => false
  | a :: p', b :: s' => (lower_ascii b =? a) && has_prefix_ci s' p'
  end.

Definition b_js    : bytes := [106;97;118;97;115;99;114;105;112;116;58].   (* javascript: *)
Definition b_vb    : bytes := [118;98;115;99;114;105;112;116;58].          (* vbscript: *)
Definition b_file  : bytes := [102;105;108;101;58].                         (* file: *)
Definition b_data  : bytes := [100;97;116;97;58].                          (* data: *)
Definition b_dimg  : bytes := [100;97;116;97;58;105;109;97;103;101;47].     (* data:image/ *)
Definition b_png   : bytes := [112;110;103;59].
Definition b_gif   : bytes := [103;105;102;59].
Definition b_jpeg  : bytes := [106;112;101;103;59].
Definition b_webp  : bytes := [119;101;98;112;59].
Definition b_svg   : bytes := [115;118;103;43;120;109;108;59].

(* IsDangerousURL (html.go:942) *)
Definition is_dangerous_url (url : bytes) : bool :=
  if has_prefix_ci url b_dimg && Nat.leb 11 (length url) then
    let v := skipn 11 url in
    negb (has_prefix_ci v b_png || has_prefix_ci v b_gif || has_prefix_ci v b_jpeg ||
          has_prefix_ci v b_webp || has_prefix_ci v b_svg)
  else has_prefix_ci url b_js || has_prefix_ci url b_vb || has_prefix_ci url b_file || has_prefix_ci url b_data.

Section WithTables.
Variable html_escape_table : list (option bytes).
Variable punct_table : list N.
Variable entities : list (bytes * bytes).
Variable url_escape_table : list N.
Variable utf8len_table : list N.

Notation esc1 := (esc1 html_escape_table).
Notation escape_html := (escape_html html_escape_table).
Notation is_punct := (is_punct punct_table).

(* RawWrite = EscapeHTML; SecureWrite replaces NUL by U+FFFD and writes everything else as is *)
Definition raw_write (v : bytes) : bytes := escape_html v.
Definition secure_write (v : bytes) : bytes :=
  flat_map (fun c => if c =? 0 then [239; 191; 189] else [c]) v.

(* escapeRune (html.go:808) *)
Definition escape_rune (v : N) : bytes :=
  if v <? 256 then
    match esc_entry html_escape_table v with
    | Some e => e
    | None => encode_rune (to_valid_rune v)
    end
  else encode_rune (to_valid_rune v).

(* what follows '&' in Write: Some (output, remaining input) when a reference is resolved *)
Definition write_ref (after_amp : bytes) : option (bytes * bytes) :=
  match after_amp with
  | 35 :: rest1 =>
    match rest1 with
    | nc :: rest =>
      if (nc =? 120) || (nc =? 88) then
        let '(digits, tl) := read_while is_hex rest in
        match digits, tl with
        | _ :: _, 59 :: tl' => if Nat.ltb (length digits) 7
                               then Some (escape_rune (parse_uint32 16 digits), tl') else None
        | _, _ => None
        end
      else if is_numeric nc then
        let '(digits, tl) := read_while is_numeric rest1 in
        match tl with
        | 59 :: tl' => if Nat.ltb (length digits) 8
                       then Some (escape_rune (parse_uint32 10 digits), tl') else None
        | _ => None
        end
      else None
    | [] => None
    end
  | _ =>
    let '(name, tl) := read_while is_alnum after_amp in
    match name, tl with
    | _ :: _, 59 :: tl' =>
      match lookup_entity entities name with
      | Some cs => Some (raw_write cs, tl')
      | None => None
      end
    | _, _ => None
    end
  end.

(* defaultWriter.Write (html.go:845): backslash escapes of punctuation are removed, NUL becomes
   U+FFFD, character references are resolved and re-escaped, everything else is HTML-escaped *)
Fixpoint writer_write_fuel (fuel : nat) (escaped_space : bool) (v : bytes) : bytes :=
  match fuel with
  | O => []
  | S f =>
    match v with
    | [] => []
    | c :: rest =>
      if c =? 92 then
        match rest with
        | d :: rest' =>
          if is_punct d then esc1 d ++ writer_write_fuel f escaped_space rest'
          else if escaped_space && (d =? 32) then writer_write_fuel f escaped_space rest'
          else esc1 92 ++ writer_write_fuel f escaped_space rest
        | [] => esc1 92
        end
      else if c =? 0 then [239; 191; 189] ++ writer_write_fuel f escaped_space rest
      else if c =? 38 then
        match write_ref rest with
        | Some (out, tl) => out ++ writer_write_fuel f escaped_space tl
        | None => esc1 38 ++ writer_write_fuel f escaped_space rest
        end
      else esc1 c ++ writer_write_fuel f escaped_space rest
    end
  end.
Definition writer_write (escaped_space : bool) (v : bytes) : bytes :=
  writer_write_fuel (length v) escaped_space v.

(* ---- RenderAttributes (html.go:735) ---- *)
Inductive aval := AVBytes (b : bytes) | AVString (b : bytes) | AVOther.
Record attr := { a_name : bytes; a_val : aval }.
Definition data_prefix : bytes := [100; 97; 116; 97; 45].   (* data- *)
Definition aval_bytes (v : aval) : bytes := match v with AVBytes b | AVString b => b | AVOther => [] end.

(* filter: None = nil filter (render all), Some f = membership test *)
Definition attr_passes (filter : option (bytes -> bool)) (a : attr) : bool :=
  match filter with
  | None => true
  | Some f => f (a_name a) || prefix_of data_prefix (a_name a)
  end.
Definition render_attr (a : attr) : bytes :=
  [32] ++ a_name a ++ [61; 34] ++ escape_html (aval_bytes (a_val a)) ++ [34].
Definition render_attributes (filter : option (bytes -> bool)) (attrs : list attr) : bytes :=
  flat_map (fun a => if attr_passes filter a then render_attr a else []) attrs.

(* ---- the href / src value of a link, image or autolink ---- *)
Definition url_value (unsafe : bool) (dest : bytes) (resolve : bool) : bytes :=
  let d := url_escape url_escape_table utf8len_table punct_table entities dest resolve in
  if unsafe || negb (is_dangerous_url d) then escape_html d else [].

End WithTables.

(* ================= specification side ================= *)

(* what a browser makes of an href/src attribute value before looking at the scheme: decode the
   character references, drop leading bytes <= 0x20, delete TAB / LF / CR anywhere, lower-case *)
Fixpoint drop_leading_ctl (v : bytes) : bytes :=
  match v with c :: r => if c <=? 32 then drop_leading_ctl r else v | [] => [] end.
Definition browser_view (attr_value : bytes) : bytes :=
  map lower_ascii (filter (fun c => negb ((c =? 9) || (c =? 10) || (c =? 13)))
                          (drop_leading_ctl (html_decode attr_value))).
Definition data_allowed (v : bytes) : bool :=
  prefix_of (b_dimg ++ b_png) v || prefix_of (b_dimg ++ b_gif) v || prefix_of (b_dimg ++ b_jpeg) v ||
  prefix_of (b_dimg ++ b_webp) v || prefix_of (b_dimg ++ b_svg) v.
Definition browser_dangerous (attr_value : bytes) : bool :=
  let v := browser_view attr_value in
  prefix_of b_js v || prefix_of b_vb v || prefix_of b_file v || (prefix_of b_data v && negb (data_allowed v)).

(* attribute-name grammar that makes RenderAttributes' unescaped name harmless *)
Definition attr_name_char (c : N) : bool :=
  is_alnum c || (c =? 95) || (c =? 58) || (c =? 46) || (c =? 45).
Definition attr_name_ok (n : bytes) : bool :=
  match n with
  | c :: _ => (((97 <=? c) && (c <=? 122)) || ((65 <=? c) && (c <=? 90)) || (c =? 95) || (c =? 58)) && forallb attr_name_char n
  | [] => false
  end.

(* the language of attribute lists:  ( SP name =" escaped-value " )*  *)
Inductive AttrsOut : bytes -> Prop :=
| ao_nil : AttrsOut []
| ao_cons name val w : attr_name_ok name = true -> EscOut val -> AttrsOut w ->
    AttrsOut ([32] ++ name ++ [61; 34] ++ val ++ [34] ++ w).
