(* L1: model of renderer/html/html.go (all node renderers, after the fix: commits), of the render
   halves of extension/{table,footnote,strikethrough,tasklist,definition_list}.go with their
   default options, and of the tree walk that drives them, over a list-of-children tree.
   East-Asian line-break suppression is not part of this model (C10 pins it off). *)
Require Import GM.model.Base GM.model.Util GM.model.Reader GM.model.HtmlWriter GM.model.Ids.
From Coq Require Import ZArith.
Open Scope N_scope.

Inductive align := ALeft | ARight | ACenter | ANone.

Inductive kind :=
| KDocument | KTextBlock | KParagraph | KHeading (level : Z) | KThematicBreak | KBlockquote
| KCodeBlock | KFencedCodeBlock (lang : option bytes)      (* Language(source): None = nil *)
| KHTMLBlock (closure : option seg)
| KList (ordered : bool) (start : Z) | KListItem
| KText (s : seg) (soft hard raw : bool) | KString (v : bytes) (raw code : bool)
| KCodeSpan | KEmphasis (level : Z)
| KLink (dest : bytes) (title : option bytes) | KImage (dest : bytes) (title : option bytes)
| KAutoLink (email : bool) (url label : bytes)             (* URL(source), Label(source) *)
| KRawHTML (segs : list seg)
| KTable | KTableHeader | KTableRow | KTableCell (a : align)
| KStrikethrough | KTaskCheckBox (checked : bool)
| KFootnoteLink (idx refcount refidx : Z) | KFootnoteBacklink (idx refcount refidx : Z)
| KFootnote (idx : Z) | KFootnoteList
| KDefinitionList | KDefinitionTerm | KDefinitionDescription (tight : bool)
| KOther.                                                    (* a kind without renderer function *)

Inductive tree := Node (k : kind) (lines : list seg) (attrs : option (list attr)) (children : list tree).
Definition t_kind (t : tree) := match t with Node k _ _ _ => k end.
Definition t_children (t : tree) := match t with Node _ _ _ c => c end.

Record rcfg := { unsafe : bool; xhtml : bool; hardwraps : bool; talign : Z (* 0 default 1 attribute 2 style 3 none *) }.


Section WithTables.
Variable html_escape_table : list (option bytes).
Variable punct_table : list N.
Variable entities : list (bytes * bytes).
Variable url_escape_table : list N.
Variable utf8len_table : list N.
(* the attribute allow-lists (gen/Filters.v) *)
Variable f_global f_blockquote f_list f_listitem f_thematic f_link f_image f_table f_thead f_tr f_th f_td : list bytes.

Notation escape_html := (escape_html html_escape_table).
Notation writer_write := (writer_write html_escape_table punct_table entities false).
Notation raw_write := (raw_write html_escape_table).
Notation url_value := (url_value html_escape_table punct_table entities url_escape_table utf8len_table).

Definition filt (l : list bytes) : option (bytes -> bool) := Some (fun n => existsb (bytes_eqb n) l).
Definition attrs_of (f : list bytes) (a : option (list attr)) : bytes :=
  match a with None => [] | Some l => render_attributes html_escape_table (filt f) l end.

(* byte strings *)
Definition s_lt := [60].  Definition s_gt := [62].  Definition s_nl := [10].
Definition tag_open (name : bytes) := [60] ++ name.
Definition tag_close (name : bytes) := [60; 47] ++ name ++ [62].
Definition n_blockquote := [98;108;111;99;107;113;117;111;116;101].
Definition n_p := [112]. Definition n_li := [108;105]. Definition n_ul := [117;108]. Definition n_ol := [111;108].
Definition n_hr := [104;114]. Definition n_code := [99;111;100;101]. Definition n_pre := [112;114;101].
Definition n_em := [101;109]. Definition n_strong := [115;116;114;111;110;103]. Definition n_a := [97].
Definition n_del := [100;101;108]. Definition n_table := [116;97;98;108;101]. Definition n_thead := [116;104;101;97;100].
Definition n_tbody := [116;98;111;100;121]. Definition n_tr := [116;114]. Definition n_th := [116;104]. Definition n_td := [116;100].
Definition n_dl := [100;108]. Definition n_dt := [100;116]. Definition n_dd := [100;100].
Definition omitted := [60;33;45;45;32;114;97;119;32;72;84;77;76;32;111;109;105;116;116;101;100;32;45;45;62]. (* <!-- raw HTML omitted --> *)

Definition zdec (z : Z) : bytes := if (z <? 0)%Z then [45] ++ dec (Z.to_N (- z)) else dec (Z.to_N z).

(* writeLines *)
Fixpoint write_lines (src : bytes) (ls : list seg) : result bytes :=
  match ls with
  | [] => Ok []
  | l :: rest => v <- seg_value src l ;; r <- write_lines src rest ;; Ok (raw_write v ++ r)
  end.
Fixpoint secure_lines (src : bytes) (ls : list seg) : result bytes :=
  match ls with
  | [] => Ok []
  | l :: rest => v <- seg_value src l ;; r <- secure_lines src rest ;; Ok (secure_write v ++ r)
  end.
Fixpoint raw_segments (src : bytes) (ls : list seg) : result bytes :=
  match ls with
  | [] => Ok []
  | l :: rest => v <- seg_value src l ;; r <- raw_segments src rest ;; Ok (v ++ r)
  end.

(* renderTexts (html.go, after the fix): the plain text of an image's descendants *)
Fixpoint render_texts (src : bytes) (t : tree) : result bytes :=
  match t with
  | Node (KString v raw code) _ _ _ =>
      Ok (if code then v else if raw then raw_write v else writer_write v)
  | Node (KText s soft hard raw) _ _ _ =>
      v <- seg_value src s ;;
      Ok (if raw then raw_write v else writer_write v ++ (if hard || soft then [10] else []))
  | Node _ _ _ cs =>
      (fix go (l : list tree) : result bytes :=
         match l with
         | [] => Ok []
         | c :: rest => a <- render_texts src c ;; b <- go rest ;; Ok (a ++ b)
         end) cs
  end.

Definition void_end (c : rcfg) (tail : bytes) : bytes := if xhtml c then [32;47;62] ++ tail else [62] ++ tail.

Definition br_tag (c : rcfg) : bytes := if xhtml c then [60;98;114;32;47;62;10] else [60;98;114;62;10].

Definition align_name (a : align) : bytes :=
  match a with
  | ALeft => [108;101;102;116] | ARight => [114;105;103;104;116] | ACenter => [99;101;110;116;101;114] | ANone => [110;111;110;101]
  end.

Fixpoint find_attr (name : bytes) (l : list attr) : option aval :=
  match l with
  | [] => None
  | a :: l' => if bytes_eqb (a_name a) name then Some (a_val a) else find_attr name l'
  end.
Fixpoint set_attr (name : bytes) (v : aval) (l : list attr) : list attr :=
  match l with
  | [] => [{| a_name := name; a_val := v |}]
  | a :: l' => if bytes_eqb (a_name a) name then {| a_name := name; a_val := v |} :: l' else a :: set_attr name v l'
  end.
Definition a_style := [115;116;121;108;101].
Definition a_align := [97;108;105;103;110].
Definition text_align := [116;101;120;116;45;97;108;105;103;110;58].  (* text-align: *)

(* renderTableCell's opening tag (table.go, after the fix) *)
Definition table_cell_open (c : rcfg) (tag : bytes) (filter : list bytes) (a : align) (attrs : option (list attr)) : result bytes :=
  let al := match attrs with Some l => l | None => [] end in
  match a with
  | ANone => Ok (tag_open tag ++ attrs_of filter attrs ++ [62])
  | _ =>
    let m := if (talign c =? 0)%Z then (if xhtml c then 1%Z else 2%Z) else talign c in
    if (m =? 1)%Z then
      let extra := match find_attr a_align al with
                   | Some _ => []
                   | None => [32] ++ a_align ++ [61;34] ++ align_name a ++ [34]
                   end in
      Ok (tag_open tag ++ extra ++ attrs_of filter attrs ++ [62])
    else if (m =? 2)%Z then
      match find_attr a_style al with
      | Some (AVBytes v) =>
          let st := v ++ [59] ++ text_align ++ align_name a in
          Ok (tag_open tag ++ render_attributes html_escape_table (filt filter) (set_attr a_style (AVBytes st) al) ++ [62])
      | Some _ => Panic                                   (* v.([]byte) type assertion *)
      | None =>
          let st := text_align ++ align_name a in
          Ok (tag_open tag ++ render_attributes html_escape_table (filt filter) (set_attr a_style (AVBytes st) al) ++ [62])
      end
    else Ok (tag_open tag ++ attrs_of filter attrs ++ [62])
  end.

Definition fn_ref_id (refidx idx : Z) : bytes :=
  [102;110;114;101;102] ++ (if (0 <? refidx)%Z then zdec refidx else []) ++ [58] ++ zdec idx.   (* fnref<refidx>:<idx> *)

(* the node renderers: what is written on entering, whether the children are walked, and what
   is written on leaving. Context: has_next = the node has a next sibling, is_last = it is its
   parent's last child, parent = kind of the parent. *)
Definition render_enter (c : rcfg) (src : bytes) (parent : option kind) (t : tree)
  : result (bytes * bool (* walk children *)) :=
  match t with
  | Node k lines attrs cs =>
    match k with
    | KDocument | KTextBlock | KOther => Ok ([], true)
    | KHeading lv =>
        if ((0 <=? lv) && (lv <=? 6))%Z
        then Ok ([60;104] ++ zdec lv ++ attrs_of f_global attrs ++ [62], true) else Panic
    | KBlockquote =>
        Ok (match attrs with
            | Some _ => tag_open n_blockquote ++ attrs_of f_blockquote attrs ++ [62]
            | None => tag_open n_blockquote ++ [62;10]
            end, true)
    | KCodeBlock => l <- write_lines src lines ;; Ok (tag_open n_pre ++ [62] ++ tag_open n_code ++ [62] ++ l, true)
    | KFencedCodeBlock lang =>
        l <- write_lines src lines ;;
        Ok (tag_open n_pre ++ [62] ++ tag_open n_code ++
            (match lang with
             | Some lg => [32;99;108;97;115;115;61;34;108;97;110;103;117;97;103;101;45] ++ writer_write lg ++ [34]
             | None => []
             end) ++ [62] ++ l, true)
    | KHTMLBlock _ =>
        if unsafe c then (l <- secure_lines src lines ;; Ok (l, true)) else Ok (omitted ++ [10], true)
    | KList ordered start =>
        Ok (tag_open (if ordered then n_ol else n_ul) ++
            (if ordered && negb (start =? 1)%Z then [32;115;116;97;114;116;61;34] ++ zdec start ++ [34] else []) ++
            attrs_of f_list attrs ++ [62;10], true)
    | KListItem =>
        Ok (tag_open n_li ++ attrs_of f_listitem attrs ++ [62] ++
            (match cs with
             | Node KTextBlock _ _ _ :: _ => []
             | _ :: _ => [10]
             | [] => []
             end), true)
    | KParagraph => Ok (tag_open n_p ++ attrs_of f_global attrs ++ [62], true)
    | KThematicBreak => Ok (tag_open n_hr ++ attrs_of f_thematic attrs ++ void_end c [10], true)
    | KAutoLink email url label =>
        let mailto := [109;97;105;108;116;111;58] in
        Ok (tag_open n_a ++ [32;104;114;101;102;61;34] ++
            (if email && negb (has_prefix_ci url mailto) then mailto else []) ++
            url_value (unsafe c) url false ++
            (match attrs with
             | Some _ => [34] ++ attrs_of f_link attrs ++ [62]
             | None => [34;62]
             end) ++ escape_html label ++ tag_close n_a, true)
    | KCodeSpan =>
        body <- (fix go (l : list tree) : result bytes :=
                   match l with
                   | [] => Ok []
                   | Node (KText s _ _ _) _ _ _ :: rest =>
                       v <- seg_value src s ;;
                       r <- go rest ;;
                       Ok ((match rev v with
                            | 10 :: pre => raw_write (rev pre) ++ raw_write [32]
                            | _ => raw_write v
                            end) ++ r)
                   | _ :: _ => Panic                         (* type assertion c.(ast.Text) fails *)
                   end) cs ;;
        Ok (tag_open n_code ++ attrs_of f_global attrs ++ [62] ++ body ++ tag_close n_code, false)
    | KEmphasis lv =>
        Ok (tag_open (if (lv =? 2)%Z then n_strong else n_em) ++ attrs_of f_global attrs ++ [62], true)
    | KLink dest title =>
        Ok (tag_open n_a ++ [32;104;114;101;102;61;34] ++ url_value (unsafe c) dest true ++ [34] ++
            (match title with Some t => [32;116;105;116;108;101;61;34] ++ writer_write t ++ [34] | None => [] end) ++
            attrs_of f_link attrs ++ [62], true)
    | KImage dest title =>
        alt <- (fix go (l : list tree) : result bytes :=
                  match l with
                  | [] => Ok []
                  | ch :: rest => a <- render_texts src ch ;; b <- go rest ;; Ok (a ++ b)
                  end) cs ;;
        Ok ([60;105;109;103;32;115;114;99;61;34] ++ url_value (unsafe c) dest true ++ [34;32;97;108;116;61;34] ++ alt ++ [34] ++
            (match title with Some t => [32;116;105;116;108;101;61;34] ++ writer_write t ++ [34] | None => [] end) ++
            attrs_of f_image attrs ++ void_end c [], false)
    | KRawHTML segs =>
        if unsafe c then (v <- raw_segments src segs ;; Ok (v, false)) else Ok (omitted, false)
    | KText s soft hard raw =>
        v <- seg_value src s ;;
        if raw then Ok (raw_write v, true)
        else Ok (writer_write v ++
                 (if hard || (soft && hardwraps c) then br_tag c else if soft then [10] else []), true)
    | KString v raw code =>
        Ok (if code then v else if raw then raw_write v else writer_write v, true)
    | KTable => Ok (tag_open n_table ++ attrs_of f_table attrs ++ [62;10], true)
    | KTableHeader => Ok (tag_open n_thead ++ attrs_of f_thead attrs ++ [62;10] ++ tag_open n_tr ++ [62;10], true)
    | KTableRow => Ok (tag_open n_tr ++ attrs_of f_tr attrs ++ [62;10], true)
    | KTableCell a =>
        match parent with
        | Some KTableHeader => o <- table_cell_open c n_th f_th a attrs ;; Ok (o, true)
        | Some _ => o <- table_cell_open c n_td f_td a attrs ;; Ok (o, true)
        | None => Panic                                      (* n.Parent().Kind() on nil *)
        end
    | KStrikethrough => Ok (tag_open n_del ++ attrs_of f_global attrs ++ [62], true)
    | KTaskCheckBox checked =>
        Ok ([60;105;110;112;117;116] ++
            (if checked then [32;99;104;101;99;107;101;100;61;34;34] else []) ++
            [32;100;105;115;97;98;108;101;100;61;34;34;32;116;121;112;101;61;34;99;104;101;99;107;98;111;120;34] ++
            void_end c [32], true)
    | KFootnoteLink idx refcount refidx =>
        Ok ([60;115;117;112;32;105;100;61;34] ++ fn_ref_id refidx idx ++
            [34;62;60;97;32;104;114;101;102;61;34;35;102;110;58] ++ zdec idx ++
            [34;32;99;108;97;115;115;61;34;102;111;111;116;110;111;116;101;45;114;101;102;34;32;114;111;108;101;61;34;100;111;99;45;110;111;116;101;114;101;102;34;62] ++
            zdec idx ++ [60;47;97;62;60;47;115;117;112;62], true)
    | KFootnoteBacklink idx refcount refidx =>
        Ok ([38;35;49;54;48;59;60;97;32;104;114;101;102;61;34;35] ++ fn_ref_id refidx idx ++
            [34;32;99;108;97;115;115;61;34;102;111;111;116;110;111;116;101;45;98;97;99;107;114;101;102;34;32;114;111;108;101;61;34;100;111;99;45;98;97;99;107;108;105;110;107;34;62] ++
            [38;35;120;50;49;97;57;59;38;35;120;102;101;48;101;59] ++ [60;47;97;62], true)
    | KFootnote idx =>
        Ok ([60;108;105;32;105;100;61;34;102;110;58] ++ zdec idx ++ [34] ++ attrs_of f_listitem attrs ++ [62;10], true)
    | KFootnoteList =>
        Ok ([60;100;105;118;32;99;108;97;115;115;61;34;102;111;111;116;110;111;116;101;115;34;32;114;111;108;101;61;34;100;111;99;45;101;110;100;110;111;116;101;115;34] ++
            attrs_of f_global attrs ++ [62;10] ++ tag_open n_hr ++ void_end c [10] ++ tag_open n_ol ++ [62;10], true)
    | KDefinitionList => Ok (tag_open n_dl ++ attrs_of f_global attrs ++ [62;10], true)
    | KDefinitionTerm => Ok (tag_open n_dt ++ attrs_of f_global attrs ++ [62], true)
    | KDefinitionDescription tight =>
        Ok (tag_open n_dd ++ attrs_of f_global attrs ++ (if tight then [62] else [62;10]), true)
    end
  end.

Definition render_leave (c : rcfg) (src : bytes) (has_next is_last : bool) (t : tree) : result bytes :=
  match t with
  | Node k lines attrs cs =>
    match k with
    | KHeading lv => if ((0 <=? lv) && (lv <=? 6))%Z then Ok ([60;47;104] ++ zdec lv ++ [62;10]) else Panic
    | KBlockquote => Ok (tag_close n_blockquote ++ [10])
    | KCodeBlock | KFencedCodeBlock _ => Ok (tag_close n_code ++ tag_close n_pre ++ [10])
    | KHTMLBlock closure =>
        match closure with
        | Some cl => if unsafe c then (v <- seg_value src cl ;; Ok (secure_write v)) else Ok (omitted ++ [10])
        | None => Ok []
        end
    | KList ordered _ => Ok (tag_close (if ordered then n_ol else n_ul) ++ [10])
    | KListItem => Ok (tag_close n_li ++ [10])
    | KParagraph => Ok (tag_close n_p ++ [10])
    | KTextBlock => Ok (if has_next && (match cs with [] => false | _ => true end) then [10] else [])
    | KEmphasis lv => Ok (tag_close (if (lv =? 2)%Z then n_strong else n_em))
    | KLink _ _ => Ok (tag_close n_a)
    | KTable => Ok (tag_close n_table ++ [10])
    | KTableHeader => Ok (tag_close n_tr ++ [10] ++ tag_close n_thead ++ [10] ++ (if has_next then tag_open n_tbody ++ [62;10] else []))
    | KTableRow => Ok (tag_close n_tr ++ [10] ++ (if is_last then tag_close n_tbody ++ [10] else []))
    | KTableCell _ => Ok []   (* replaced below: needs the parent *)
    | KStrikethrough => Ok (tag_close n_del)
    | KFootnote _ => Ok (tag_close n_li ++ [10])
    | KFootnoteList => Ok (tag_close n_ol ++ [10] ++ [60;47;100;105;118;62;10])
    | KDefinitionList => Ok (tag_close n_dl ++ [10])
    | KDefinitionTerm => Ok (tag_close n_dt ++ [10])
    | KDefinitionDescription _ => Ok (tag_close n_dd ++ [10])
    | _ => Ok []
    end
  end.

(* the walk: enter, children (unless skipped), leave *)
Fixpoint render_node (c : rcfg) (src : bytes) (parent : option kind) (has_next is_last : bool) (t : tree) {struct t}
  : result bytes :=
  e <- render_enter c src parent t ;;
  let '(open, walk) := e in
  inner <- (if walk then
              (fix go (l : list tree) : result bytes :=
                 match l with
                 | [] => Ok []
                 | ch :: rest =>
                     a <- render_node c src (Some (t_kind t))
                                      (match rest with [] => false | _ => true end)
                                      (match rest with [] => true | _ => false end) ch ;;
                     b <- go rest ;; Ok (a ++ b)
                 end) (t_children t)
            else Ok []) ;;
  close <- (match t_kind t, parent with
            | KTableCell _, Some KTableHeader => Ok (tag_close n_th ++ [10])
            | KTableCell _, _ => Ok (tag_close n_td ++ [10])
            | _, _ => render_leave c src has_next is_last t
            end) ;;
  Ok (open ++ inner ++ close).

Definition render (c : rcfg) (src : bytes) (t : tree) : result bytes :=
  render_node c src None false true t.

End WithTables.
