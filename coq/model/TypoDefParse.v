(* parser.Parse with extension.Typographer and extension.DefinitionList, each of which can be
   switched on separately (record tcfg), put together from the block phase with the two
   definition list parsers (TypoDefParseD.v) and the inline phase with the typographer parser
   (TypoDefParseT.v), as the tree the renderer model (Html.v) takes. *)
Require Import GM.model.Base GM.model.Util GM.model.Reader GM.model.Regex GM.model.HtmlWriter GM.model.Html
               GM.model.BlockParse GM.model.InlineParse GM.model.TypoDefParseT GM.model.TypoDefParseD.
From Coq Require Import ZArith.
Open Scope Z_scope.

(* which extensions are installed *)
Record tcfg := { t_typo : bool; t_deflist : bool }.

(* the blocks whose lines parseBlock scans (not raw, with lines): those of the default
   configuration and the definition terms *)
Definition has_inlinesTD (k : kind) : bool :=
  match k with KParagraph | KTextBlock | KHeading _ | KDefinitionTerm => true | _ => false end.

(* parser.walkBlock: the children first, in order, then the node itself; the counters of
   unclosed quotes of the typographer (cnt) go from one block to the next.  A block with
   inlines has no block children. *)
Section Attach.
Variable inl : Z * Z -> list seg -> result (list tree * (Z * Z)).
Fixpoint attach_inlinesTD (cnt : Z * Z) (t : tree) : result (tree * (Z * Z)) :=
  match t with
  | Node k lines a kids =>
    if has_inlinesTD k then (x <- inl cnt lines ;; Ok (Node k lines a (fst x), snd x))
    else
      x <- (fix go (cnt : Z * Z) (l : list tree) : result (list tree * (Z * Z)) :=
              match l with
              | [] => Ok ([], cnt)
              | x :: r =>
                y <- attach_inlinesTD cnt x ;;
                z <- go (snd y) r ;;
                Ok (fst y :: fst z, snd z)
              end) cnt kids ;;
      Ok (Node k lines a (fst x), snd x)
  end.
End Attach.

Section WithTables.
Variable tc : tcfg.
Variable space_table punct_table : list N.
Variable norm : bytes -> bytes.
Variable re_t1o re_t1c re_t2 re_t3 re_t4 re_t5 re_t6 re_t7 : re.
Variable allowed_tags : list bytes.
Variable url_table email_table : list N.
Variable re_email_domain re_open_tag re_close_tag : re.
Variable punct_rune space_rune : N -> bool.
Variable uni_punct uni_space uni_digit uni_letter : N -> bool.

(* the block structure and the reference definitions *)
Definition parse_blocks_treeTD (src : bytes) : result (tree * list (bytes * (bytes * option bytes))) :=
  s <- parse_blocksD (t_deflist tc) space_table punct_table norm re_t1o re_t1c re_t2 re_t3 re_t4 re_t5 re_t6 re_t7
                     allowed_tags src ;;
  t <- to_treeD (S (length (s_h s))) src (s_h s) 0%nat ;;
  Ok (t, c_refs (s_c s)).

Definition parse_treeTD (src : bytes) : result tree :=
  x <- parse_blocks_treeTD src ;;
  let '(t, refs) := x in
  y <- attach_inlinesTD
         (fun cnt => inline_childrenT (t_typo tc) space_table punct_table norm url_table email_table re_email_domain
                                      re_open_tag re_close_tag punct_rune space_rune uni_punct uni_space uni_digit
                                      uni_letter refs cnt src)
         (0, 0) t ;;
  Ok (fst y).

End WithTables.
