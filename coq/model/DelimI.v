(* parser.ScanDelimiter with the rune classes regenerated from the running code. *)
Require Import GM.model.Base GM.model.Util GM.model.Delim.
Require Import GM.gen.Unicode.
Open Scope N_scope.
Definition PunctRune := in_ranges punct_rune_ranges.
Definition SpaceRune := in_ranges space_rune_ranges.
Definition emph_delim (c : N) : bool := (c =? 42) || (c =? 95).
Definition ScanDelimiter := scan_delimiter PunctRune SpaceRune emph_delim.
