(* Model of priority-ordered registration and dispatch (C20):
   util.PrioritizedSlice.Sort, parser.Parse's table construction (parser.go: addBlockParser,
   addInlineParser, the append of trigger-less parsers), openBlocks' / parseBlock's first-accept
   loops, the transformer lists, renderer.Render's registration loop and per-node dispatch
   (after the fix: commit). *)
Require Import GM.model.Base.
From Coq Require Import ZArith.
Open Scope Z_scope.

Record comp := {
  c_id : N;
  c_prio : Z;
  c_trig : option (list N);   (* Trigger(): None = nil (trigger-less block parser) *)
  c_kinds : list N;           (* node kinds a NodeRenderer registers *)
  c_accept : bool             (* scripted behaviour: accepts when consulted *)
}.

(* PrioritizedSlice.Sort: ascending priority (insertion sort stands for sort.Slice; for
   pairwise distinct priorities every correct sort yields this list - see sorted_unique) *)
Fixpoint insert_comp (x : comp) (l : list comp) : list comp :=
  match l with
  | [] => [x]
  | y :: l' => if c_prio x <=? c_prio y then x :: y :: l' else y :: insert_comp x l'
  end.
Definition sort_comps (l : list comp) : list comp := fold_right insert_comp [] l.

Definition has_trigger (c : N) (p : comp) : bool :=
  match c_trig p with Some ts => existsb (N.eqb c) ts | None => false end.
Definition is_free (p : comp) : bool := match c_trig p with None => true | Some _ => false end.

(* blockParsers[c] after initialisation: one entry per occurrence of c in Trigger(), in sorted
   order, then (if there is any entry) all trigger-less parsers *)
Definition occurrences (c : N) (p : comp) : list comp :=
  match c_trig p with Some ts => map (fun _ => p) (filter (N.eqb c) ts) | None => [] end.
Definition free_parsers (l : list comp) : list comp := filter is_free (sort_comps l).
Definition block_table (l : list comp) (c : N) : list comp :=
  match flat_map (occurrences c) (sort_comps l) with
  | [] => []
  | t => t ++ free_parsers l
  end.
(* openBlocks: bps = blockParsers[line[pos]]; if nil, bps = freeBlockParsers *)
Definition block_candidates (l : list comp) (c : N) : list comp :=
  match block_table l c with [] => free_parsers l | t => t end.
Definition inline_table (l : list comp) (c : N) : list comp := flat_map (occurrences c) (sort_comps l).

(* first-accept loop: the ids consulted, in order, and the one that accepted *)
Fixpoint consult (l : list comp) : list N * option N :=
  match l with
  | [] => ([], None)
  | p :: l' => if c_accept p then ([c_id p], Some (c_id p))
               else let '(log, w) := consult l' in (c_id p :: log, w)
  end.

Definition transformer_order (l : list comp) : list N := map c_id (sort_comps l).

(* renderer.Render initialisation: iterate the sorted NodeRenderers from the last (largest
   priority value) to the first; each registers its kinds; a later Register overwrites *)
Definition reg_table := list (N * N).  (* kind -> id of the renderer whose function is installed *)
Fixpoint reg_lookup (t : reg_table) (k : N) : option N :=
  match t with
  | [] => None
  | (k', v) :: t' => if N.eqb k k' then Some v else reg_lookup t' k
  end.
Definition register (t : reg_table) (p : comp) : reg_table :=
  fold_left (fun t k => (k, c_id p) :: t) (c_kinds p) t.
Definition renderer_table (l : list comp) : reg_table :=
  fold_left register (rev (sort_comps l)) [].
Definition max_kind (t : reg_table) : N := fold_left (fun m kv => N.max m (fst kv)) t 0%N.

(* per-node dispatch (renderer.go:160, after the fix): a kind beyond the table or without a
   function is skipped and its children are walked *)
Definition dispatch (t : reg_table) (kind : N) : option N :=
  if (kind <=? max_kind t)%N then reg_lookup t kind else None.

(* rendering a tree of kinds: each node renderer writes its id on entering and leaving *)
Inductive ktree := KNode (kind : N) (children : list ktree).
Fixpoint render_ktree (t : reg_table) (n : ktree) : list (N * bool) :=
  match n with
  | KNode k cs =>
    let inner := flat_map (render_ktree t) cs in
    match dispatch t k with
    | Some f => (f, true) :: inner ++ [(f, false)]
    | None => inner
    end
  end.
