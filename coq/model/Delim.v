(* Model of parser.ScanDelimiter (parser/delimiter.go:114): the classification of a delimiter
   run as opener and/or closer from the characters around it.  The two rune classes are
   parameters; model/DelimI.v instantiates them with the ranges regenerated from the running
   code (gen/Unicode.v). *)
Require Import GM.model.Base GM.model.Util GM.model.ListItem GM.model.LeafBlocks.
From Coq Require Import ZArith.
Open Scope N_scope.

Fixpoint in_ranges (rs : list (N * N)) (r : N) : bool :=
  match rs with
  | [] => false
  | (lo, hi) :: rest => ((lo <=? r) && (r <=? hi)) || in_ranges rest r
  end.

(* the specification's definitions (CommonMark 0.31.2, section 6.2), on the four facts about
   the characters before and after the run *)
Definition left_flanking (before_ws before_punct after_ws after_punct : bool) : bool :=
  negb after_ws && (negb after_punct || before_ws || before_punct).
Definition right_flanking (before_ws before_punct after_ws after_punct : bool) : bool :=
  negb before_ws && (negb before_punct || after_ws || after_punct).
(* can open / can close emphasis, for '*' (underscore = false) and '_' (underscore = true) *)
Definition can_open (underscore bw bp aw ap : bool) : bool :=
  if underscore then left_flanking bw bp aw ap && (negb (right_flanking bw bp aw ap) || bp)
  else left_flanking bw bp aw ap.
Definition can_close (underscore bw bp aw ap : bool) : bool :=
  if underscore then right_flanking bw bp aw ap && (negb (left_flanking bw bp aw ap) || ap)
  else right_flanking bw bp aw ap.

Section WithClasses.
Variable punct_rune space_rune : N -> bool.
Variable is_delim : N -> bool.

(* ScanDelimiter(line, before, minimum, processor): None = nil; Some (canOpen, canClose, length, char) *)
Definition scan_delimiter (line : bytes) (before : N) (minimum : Z) : result (option (bool * bool * Z * N)) :=
  match line with
  | [] => Panic                                         (* line[0] *)
  | c :: _ =>
    if negb (is_delim c) then Ok None
    else
      let j := count_byte c line in
      if (j <? minimum)%Z then Ok None
      else
        after <- (if (j =? zlen line)%Z then Ok 32 else to_rune line j) ;;
        let bp := punct_rune before in
        let bw := space_rune before in
        let ap := punct_rune after in
        let aw := space_rune after in
        let is_left := negb aw && (negb ap || bw || bp) in
        let is_right := negb bw && (negb bp || aw || ap) in
        if c =? 95 then Ok (Some (is_left && (negb is_right || bp), is_right && (negb is_left || ap), j, c))
        else Ok (Some (is_left, is_right, j, c))
  end.

End WithClasses.
