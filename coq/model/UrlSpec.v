(* Output language of URLEscape (escaping stage) and the table facts its laws rest on. *)
Require Import GM.model.Base GM.model.Util.
Open Scope N_scope.

Section UrlSpec.
Variable url_escape_table : list N.
Variable utf8len_table : list N.
Notation url_safe := (url_safe url_escape_table).
Notation u8len := (u8len utf8len_table).

(* what the two tables must satisfy; checked by computation on the dumped tables *)
Definition byte_range := map N.of_nat (seq 0 256).
Definition url_tables_ok : bool :=
  Nat.eqb (length url_escape_table) 256 && Nat.eqb (length utf8len_table) 256 &&
  forallb (fun c =>
    (* a byte passed through unchanged is printable ASCII, not a quote/angle bracket/percent *)
    (negb (url_safe c) || ((32 <? c) && (c <? 127) && negb (c =? 34) && negb (c =? 60) && negb (c =? 62) && negb (c =? 37)))
    (* an invalid leading byte is not ASCII *)
    && (negb (u8len c =? 99) || (128 <=? c))
    (* lengths are 1..4 or 99, and agree with the UTF-8 lead-byte classes *)
    && ((u8len c =? 1) || (u8len c =? 2) || (u8len c =? 3) || (u8len c =? 4) || (u8len c =? 99))
    && (negb (c <? 128) || (u8len c =? 1))
    && (negb ((194 <=? c) && (c <=? 223)) || (u8len c =? 2))
    && (negb ((224 <=? c) && (c <=? 239)) || (u8len c =? 3))
    && (negb ((240 <=? c) && (c <=? 244)) || (u8len c =? 4))
    (* what QueryEscape leaves alone is passed through by URLEscape as well *)
    && (negb (query_unreserved c) || url_safe c)) byte_range.

Inductive UTok : bytes -> Prop :=
| ut_safe c : url_safe c = true -> UTok [c]
| ut_pct h1 h2 : is_hex h1 = true -> is_hex h2 = true -> UTok [37; h1; h2]
| ut_raw c : c < 256 -> u8len c = 99 -> url_safe c = false -> UTok [c].

Inductive UOut : bytes -> Prop :=
| uo_nil : UOut []
| uo_app t w : UTok t -> UOut w -> UOut (t ++ w).

End UrlSpec.

(* every percent sign is followed by two hexadecimal digits *)
Fixpoint percent_ok (v : bytes) : bool :=
  match v with
  | [] => true
  | c :: rest =>
    (if c =? 37 then match rest with h1 :: h2 :: _ => is_hex h1 && is_hex h2 | _ => false end else true)
    && percent_ok rest
  end.

(* no space, control, DEL, double-quote or angle-bracket byte *)
Definition url_byte_ok (b : N) : bool :=
  (32 <? b) && negb (b =? 127) && negb (b =? 34) && negb (b =? 60) && negb (b =? 62).
