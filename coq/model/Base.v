(* Base definitions shared by all models: bytes, results, list helpers. *)
From Coq Require Export List NArith ZArith Bool.
Export ListNotations.

Definition byte := N.
Definition bytes := list N.

(* Outcome of a modelled Go function that can panic (index out of range,
   nil dereference, failed type assertion, explicit panic) or, for fuelled
   loops, run out of fuel. *)
Inductive result (A : Type) : Type :=
| Ok (a : A)
| Panic
| OutOfFuel.
Arguments Ok {A} a.
Arguments Panic {A}.
Arguments OutOfFuel {A}.

Definition bind {A B} (r : result A) (f : A -> result B) : result B :=
  match r with Ok a => f a | Panic => Panic | OutOfFuel => OutOfFuel end.
Notation "x <- r ;; k" := (bind r (fun x => k)) (at level 61, r at next level, right associativity).

Open Scope N_scope.

(* Table lookup: tables have 256 entries; out of range (not a byte) gives the default. *)
Definition tbl {A} (t : list A) (d : A) (c : N) : A := nth (N.to_nat c) t d.

Definition is_byte (c : N) : bool := c <? 256.

Fixpoint prefix_of (p s : bytes) : bool :=
  match p, s with
  | [], _ => true
  | _ :: _, [] => false
  | a :: p', b :: s' => (a =? b) && prefix_of p' s'
  end.

Fixpoint bytes_eqb (a b : bytes) : bool :=
  match a, b with
  | [], [] => true
  | x :: a', y :: b' => (x =? y) && bytes_eqb a' b'
  | _, _ => false
  end.

Definition zlen {A} (l : list A) : Z := Z.of_nat (length l).
