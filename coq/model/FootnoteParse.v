(* parser.Parse with extension.Footnote on top of the default parser, put together from the
   block phase with the footnote block parser (FootnoteParseBlock.v), the inline phase with the
   footnote inline parser run over the blocks in the order parser.Parse walks them
   (FootnoteParseInline.v; the numbering of the definitions on first reference is
   FootnoteX.assign) and the AST transformer (extension/footnote.go footnoteASTTransformer),
   as the tree the renderer model (Html.v) takes.

   The AST transformer works on the block heap, as the Go code works on the pointer structure:
   when a definition closes inside a definition (`[^a]: [^b]: x`) the FootnoteList is a child
   of a Footnote that is a child of the FootnoteList; none of them is reachable from the
   document when the inline phase runs (their paragraphs keep their lines and get no inline
   children), and the transformer may hang the list back into the document.

   Next to the heap: the inline children of the blocks that were parsed for inlines (fp_inl,
   keyed by the number of the block) and the FootnoteBacklink nodes that are appended to a
   Footnote node itself, i.e. among block nodes (fp_back: the heap holds a childless
   placeholder, kind BThematicBreak, and fp_back maps its number to the kind of the node). *)
Require Import GM.model.Base GM.model.Util GM.model.Reader GM.model.Regex GM.model.HtmlWriter GM.model.Html
               GM.model.BlockParse GM.model.InlineParse GM.model.FootnoteX
               GM.model.FootnoteParseBlock GM.model.FootnoteParseInline.
From Coq Require Import ZArith.
Open Scope Z_scope.

Record fpost := { fp_h : heap; fp_inl : list (nat * list tree); fp_back : list (nat * kind) }.
Definition fp_set_h p v := {| fp_h := v; fp_inl := fp_inl p; fp_back := fp_back p |}.

Fixpoint lookup_id {A} (l : list (nat * A)) (i : nat) : option A :=
  match l with
  | [] => None
  | (j, v) :: r => if Nat.eqb i j then Some v else lookup_id r i
  end.
(* append ts to the entry of i (a block without entry has no children yet) *)
Fixpoint append_entry (l : list (nat * list tree)) (i : nat) (ts : list tree) : list (nat * list tree) :=
  match l with
  | [] => [(i, ts)]
  | (j, v) :: r => if Nat.eqb i j then (j, v ++ ts) :: r else (j, v) :: append_entry r i ts
  end.

(* the blocks whose lines parseBlock scans: not raw, with lines *)
Definition block_has_inlines (n : bnode) : bool :=
  match bk n with BParagraph | BTextBlock | BHeading => true | _ => false end.

(* ---- the inline phase: walkBlock (children first, then the block), from the document ---- *)
Section Walk.
Variable inline_of : fstate -> list seg -> result (list tree * fstate).
Fixpoint walk_blocks (fuel : nat) (h : heap) (i : nat) (fs : fstate) (acc : list (nat * list tree))
  : result (fstate * list (nat * list tree)) :=
  match fuel with
  | O => OutOfFuel
  | S f =>
    n <- hget h i ;;
    r <- (fix go (l : list nat) (fs : fstate) (acc : list (nat * list tree)) : result (fstate * list (nat * list tree)) :=
            match l with
            | [] => Ok (fs, acc)
            | c :: t => y <- walk_blocks f h c fs acc ;; go t (fst y) (snd y)
            end) (bch n) fs acc ;;
    let '(fs, acc) := r in
    if block_has_inlines n then
      y <- inline_of fs (blines n) ;;
      Ok (snd y, acc ++ [(i, fst y)])
    else Ok (fs, acc)
  end.
End Walk.

(* ---- footnoteASTTransformer.Transform ---- *)
(* RefCount and RefIndex of the FootnoteLink nodes, by their position in the link list *)
Fixpoint renumber (fl : list flink) (t : tree) : tree :=
  match t with
  | Node k lines a kids =>
    let k' := match k with
              | KFootnoteLink idx rc serial =>
                match nth_error fl (Z.to_nat serial) with
                | Some l => KFootnoteLink (l_index l) (l_refcount l) (l_refindex l)
                | None => k
                end
              | _ => k
              end in
    Node k' lines a (map (renumber fl) kids)
  end.

Definition backlink_kinds (links : list Z) (index : Z) : list kind :=
  map (fun l => KFootnoteBacklink (l_index l) (l_refcount l) (l_refindex l)) (backlinks_for links index).

(* container.AppendChild(container, backLink) for a Footnote container *)
Fixpoint add_placeholders (p : fpost) (f : nat) (ks : list kind) : result fpost :=
  match ks with
  | [] => Ok p
  | k :: rest =>
    let '(h, id) := halloc (fp_h p) (mknode BThematicBreak 0) in
    h <- append_child h f id ;;
    add_placeholders {| fp_h := h; fp_inl := fp_inl p; fp_back := fp_back p ++ [(id, k)] |} f rest
  end.

(* the loop over the children of the list: l = the list, ids = its children at loop entry *)
Fixpoint fn_items (ids : list nat) (l : nat) (links : list Z) (p : fpost) : result fpost :=
  match ids with
  | [] => Ok p
  | f :: rest =>
    n <- hget (fp_h p) f ;;
    if negb (is_footnote_node n) then Panic           (* footnote.( *ast.Footnote) *)
    else
      container <- match last_id (bch n) with
                   | Some fc => isp <- is_paragraph (fp_h p) fc ;; Ok (if isp then fc else f)
                   | None => Ok f
                   end ;;
      let index := b_i2 n in
      p <- (if index <? 0 then
              h <- remove_child (fp_h p) l f ;; Ok (fp_set_h p h)
            else
              let ks := backlink_kinds links index in
              if Nat.eqb container f then add_placeholders p f ks
              else Ok {| fp_h := fp_h p;
                         fp_inl := append_entry (fp_inl p) container (map (fun k => Node k [] None []) ks);
                         fp_back := fp_back p |}) ;;
      fn_items rest l links p
  end.

(* ast.BaseNode.SortChildren with the comparator of the transformer: an insertion sort *)
Definition fn_cmp (a b : Z) : Z := if a <? b then -1 else 1.
Fixpoint sort_insert_after (c : nat * Z) (rest : list (nat * Z)) (cur : nat * Z) : list (nat * Z) :=
  match rest with
  | nx :: rest' =>
    if fn_cmp (snd nx) (snd cur) <? 0 then c :: sort_insert_after nx rest' cur
    else c :: cur :: rest
  | [] => [c; cur]
  end.
Definition sort_step (sorted : list (nat * Z)) (cur : nat * Z) : list (nat * Z) :=
  match sorted with
  | [] => [cur]
  | s0 :: rest => if 0 <=? fn_cmp (snd s0) (snd cur) then cur :: sorted else sort_insert_after s0 rest cur
  end.
Definition sort_children (l : list (nat * Z)) : list (nat * Z) := fold_left sort_step l [].

Fixpoint write_indices (h : heap) (ids : list nat) (defs : list fdef) : result heap :=
  match ids, defs with
  | [], [] => Ok h
  | i :: ids', d :: defs' => h <- hupd h i (fun m => set_i2 m (d_index d)) ;; write_indices h ids' defs'
  | _, _ => Panic
  end.

Definition ast_transform (h : heap) (lst : option nat) (fs : fstate) (kids : list (nat * list tree)) : result fpost :=
  match lst, fs_defs fs with
  | None, _ => Ok {| fp_h := h; fp_inl := kids; fp_back := [] |}
  | Some _, None => Panic
  | Some l, Some defs =>
    ln <- hget h l ;;
    (* the Index fields the inline parser has set *)
    h <- write_indices h (bch ln) defs ;;
    let links := fs_links fs in
    let fl := number_links links [] links in
    let kids := map (fun e => (fst e, map (renumber fl) (snd e))) kids in
    p <- fn_items (bch ln) l links {| fp_h := h; fp_inl := kids; fp_back := [] |} ;;
    ln <- hget (fp_h p) l ;;
    keyed <- map_res (fun i => n <- hget (fp_h p) i ;; Ok (i, b_i2 n)) (bch ln) ;;
    h <- hupd (fp_h p) l (fun m => set_ch m (map fst (sort_children keyed))) ;;
    if fs_count fs <=? 0 then
      match bpar ln with
      | None => Panic                                 (* list.Parent().RemoveChild on nil *)
      | Some par => h <- remove_child h par l ;; Ok (fp_set_h p h)
      end
    else
      h <- append_child_iso h 0%nat l ;; Ok (fp_set_h p h)
  end.

(* ---- from the heap to the tree ---- *)
Fixpoint to_treeF (fuel : nat) (src : bytes) (p : fpost) (i : nat) : result tree :=
  match fuel with
  | O => OutOfFuel
  | S f =>
    match lookup_id (fp_back p) i with
    | Some k => Ok (Node k [] None [])
    | None =>
      n <- hget (fp_h p) i ;;
      if block_has_inlines n then
        k <- kind_of src n ;;
        Ok (Node k (blines n) None (match lookup_id (fp_inl p) i with Some ts => ts | None => [] end))
      else
        k <- (if is_footnote_node n then Ok (KFootnote (b_i2 n))
              else if is_fnlist_node n then Ok KFootnoteList
              else kind_of src n) ;;
        kids <- map_res (to_treeF f src p) (bch n) ;;
        Ok (Node k (blines n) None kids)
    end
  end.

Section WithTables.
Variable space_table punct_table : list N.
Variable norm : bytes -> bytes.
Variable re_t1o re_t1c re_t2 re_t3 re_t4 re_t5 re_t6 re_t7 : re.
Variable allowed_tags : list bytes.
Variable url_table email_table : list N.
Variable re_email_domain re_open_tag re_close_tag : re.
Variable punct_rune space_rune : N -> bool.

(* the definitions of the FootnoteList after the block phase: Ref = the value of the label segment *)
Definition initial_defs (src : bytes) (h : heap) (lst : option nat) : result (option (list fdef)) :=
  match lst with
  | None => Ok None
  | Some l =>
    ln <- hget h l ;;
    ds <- map_res (fun i =>
                     n <- hget h i ;;
                     match b_seg n with
                     | Some sg => v <- seg_value src sg ;; Ok {| d_ref := v; d_index := b_i2 n |}
                     | None => Panic
                     end) (bch ln) ;;
    Ok (Some ds)
  end.

Definition parse_treeF (src : bytes) : result tree :=
  x <- parse_blocksF space_table punct_table norm re_t1o re_t1c re_t2 re_t3 re_t4 re_t5 re_t6 re_t7
                     allowed_tags src ;;
  let s := bf_s x in
  let h := s_h s in
  let refs := c_refs (s_c s) in
  defs <- initial_defs src h (bf_list x) ;;
  let fs0 := {| fs_defs := defs; fs_count := 0; fs_links := [] |} in
  w <- walk_blocks
         (fun fs lines =>
            inline_childrenF space_table punct_table norm url_table email_table re_email_domain re_open_tag
                             re_close_tag punct_rune space_rune refs fs src lines)
         (S (length h)) h 0%nat fs0 [] ;;
  let '(fs, kids) := w in
  p <- ast_transform h (bf_list x) fs kids ;;
  to_treeF (S (length (fp_h p))) src p 0%nat.

End WithTables.
