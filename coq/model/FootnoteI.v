(* The footnote parser model instantiated with the tables and regular expressions regenerated
   from the code (gen/Tables.v, gen/Regexes.v, gen/Unicode.v through DelimI.v). *)
Require Import GM.model.Base GM.model.Util GM.model.UtilI GM.model.Reader GM.model.Regex GM.model.Html GM.model.HtmlI
               GM.model.DelimI GM.model.FootnoteParse.
Require Import GM.gen.Tables GM.gen.Regexes.

(* goldmark.New(goldmark.WithExtensions(extension.Footnote)).Parser().Parse, as the tree the
   renderer model takes *)
Definition ParseTreeFn (src : bytes) : result tree :=
  parse_treeF space_table punct_table ToLinkReference
    re_htmlBlockType1Open re_htmlBlockType1Close re_htmlBlockType2Open re_htmlBlockType3Open
    re_htmlBlockType4Open re_htmlBlockType5Open re_htmlBlockType6 re_htmlBlockType7 allowed_block_tags
    url_table email_table re_emailDomain re_openTag re_closeTag PunctRune SpaceRune src.

(* Convert of the same Markdown object with the given renderer options: Parse, then Render *)
Definition ConvertModelFn (cfg : rcfg) (src : bytes) : result bytes :=
  t <- ParseTreeFn src ;;
  RenderHTML cfg src t.
