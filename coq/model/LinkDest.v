(* Model of parser/link.go parseLinkDestination as a function of the peeked line (after
   SkipSpaces): Some (destination, bytes consumed) or None. *)
Require Import GM.model.Base GM.model.Util GM.model.ListItem.
From Coq Require Import ZArith.
Open Scope Z_scope.

Section WithTables.
Variable space_table punct_table : list N.
Notation is_space := (is_space space_table).
Notation is_punct := (is_punct punct_table).

(* the <...> form: index of the closing '>' scanning from i (i = index of the first byte of l) *)
Fixpoint angle_close (fuel : nat) (l : bytes) (i : Z) : option Z :=
  match fuel with
  | O => None
  | S f =>
    match l with
    | [] => None
    | c :: r =>
      match r with
      | d :: r' => if (N.eqb c 92 && is_punct d)%bool then angle_close f r' (i + 2)
                   else if N.eqb c 62 then Some i else angle_close f r (i + 1)
      | [] => if N.eqb c 62 then Some i else None     (* a final backslash escapes nothing *)
      end
    end
  end.

(* the bare form: index where the destination ends *)
Fixpoint bare_end (fuel : nat) (l : bytes) (i opened : Z) : Z :=
  match fuel with
  | O => i
  | S f =>
    match l with
    | [] => i
    | c :: r =>
      match r with
      | d :: r' =>
        if (N.eqb c 92 && is_punct d)%bool then bare_end f r' (i + 2) opened
        else if N.eqb c 40 then bare_end f r (i + 1) (opened + 1)
        else if N.eqb c 41 then (if opened - 1 <? 0 then i else bare_end f r (i + 1) (opened - 1))
        else if is_space c then i
        else bare_end f r (i + 1) opened
      | [] =>
        if N.eqb c 40 then i + 1
        else if N.eqb c 41 then (if opened - 1 <? 0 then i else i + 1)
        else if is_space c then i
        else i + 1
      end
    end
  end.

Definition parse_link_destination (line : bytes) : option (bytes * Z) :=
  match line with
  | 60%N :: rest =>
    match angle_close (S (length line)) rest 1 with
    | Some i => Some (zfirst (i - 1) rest, i + 1)
    | None => None
    end
  | _ =>
    let i := bare_end (S (length line)) line 0 0 in
    if i =? 0 then None else Some (zfirst i line, i)
  end.

End WithTables.
