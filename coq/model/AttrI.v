(* parser.ParseAttributes with the tables regenerated from the running code. *)
Require Import GM.model.Base GM.model.Util GM.model.Reader GM.model.Attr.
Require Import GM.gen.Tables.
Definition ParseAttributesR := ParseAttributesModel space_table punct_table.
