(* parser.Parse with the extensions of extension.GFM (each can be switched off: xcfg), put
   together from the block phase with the table paragraph transformer (BlockParseX.v), the
   inline phase with the strikethrough, task check box and linkify parsers (InlineParseX.v)
   and the table AST transformer (extension/table.go tableASTTransformer), as the tree the
   renderer model (Html.v) takes. *)
Require Import GM.model.Base GM.model.Util GM.model.Reader GM.model.Regex GM.model.HtmlWriter GM.model.Html
               GM.model.TableX GM.model.BlockParse GM.model.InlineParse GM.model.BlockParseX GM.model.InlineParseX.
From Coq Require Import ZArith.
Open Scope Z_scope.

(* ---- from the block heap to the tree: the placeholders become Table subtrees ---- *)
(* a cell is a block whose only line is the trimmed cell text; a cell that pads a short row has
   no line (ast.NewTableCell()) *)
Definition cell_tree (c : cell) : tree :=
  match c with
  | (Some sg, a) => Node (KTableCell a) [sg] None []
  | (None, a) => Node (KTableCell a) [] None []
  end.
Definition table_tree (t : table) : tree :=
  Node KTable [] None
       (Node KTableHeader [] None (map cell_tree (t_header t)) ::
        map (fun r => Node KTableRow [] None (map cell_tree r)) (t_rows t)).

Fixpoint find_table (tabs : list (nat * table)) (i : nat) : option table :=
  match tabs with
  | [] => None
  | (j, t) :: r => if Nat.eqb i j then Some t else find_table r i
  end.

Fixpoint to_treeX (fuel : nat) (src : bytes) (h : heap) (tabs : list (nat * table)) (i : nat) : result tree :=
  match fuel with
  | O => OutOfFuel
  | S f =>
    match find_table tabs i with
    | Some t => Ok (table_tree t)
    | None =>
      n <- hget h i ;;
      k <- kind_of src n ;;
      kids <- map_res (to_treeX f src h tabs) (bch n) ;;
      Ok (Node k (blines n) None kids)
    end
  end.

(* ---- the inline phase over the block tree ---- *)
(* the blocks whose lines parseBlock scans: not raw, with lines *)
Definition has_inlinesX (k : kind) : bool :=
  match k with KParagraph | KTextBlock | KHeading _ | KTableCell _ => true | _ => false end.

Section Attach.
(* inl in_item lines: in_item = the block is the first child of a ListItem *)
Variable inl : bool -> list seg -> result (list tree).
Fixpoint attach_inlinesX (in_item : bool) (t : tree) : result tree :=
  match t with
  | Node k lines a kids =>
    if has_inlinesX k then (ch <- inl in_item lines ;; Ok (Node k lines a ch))
    else
      let is_item := match k with KListItem => true | _ => false end in
      kids' <- (fix go (first : bool) (l : list tree) : result (list tree) :=
                  match l with
                  | [] => Ok []
                  | x :: r => y <- attach_inlinesX (first && is_item) x ;; z <- go false r ;; Ok (y :: z)
                  end) true kids ;;
      Ok (Node k lines a kids')
  end.
End Attach.

(* ---- tableASTTransformer ----
   parseRow records, for a cell, the positions of the backslashes of the escaped pipes that
   follow a backquote in that cell.  A cell's positions lie inside its own line, the lines of
   different cells are disjoint, and the texts below a cell lie inside its line: so only a
   cell's own positions can fall into the texts of its code spans, and the transformer is a
   function of the cell.  (Cells of a header row that was rejected are in the Go list too;
   they are not in the tree and have no children.) *)
Fixpoint escaped_positions (v : bytes) (i : Z) (has_backtick : bool) : list Z :=
  match v with
  | [] => []
  | c :: r =>
    let hb := has_backtick || N.eqb c 96 in
    if N.eqb c 124 && hb then (i - 1) :: escaped_positions r (i + 1) hb
    else escaped_positions r (i + 1) hb
  end.

(* one Text child c of a CodeSpan: ts = c's segment, cur = the segment of the node n that
   currently stands for the rest of c *)
Fixpoint split_at (ts cur : seg) (ps : list Z) : list seg * seg :=
  match ps with
  | [] => ([], cur)
  | p :: r =>
    if (s_start ts <=? p) && (p <? s_stop ts) then
      let '(l, last) := split_at ts (seg_with_start cur (p + 1)) r in
      (seg_with_stop cur p :: l, last)
    else split_at ts cur r
  end.
Definition raw_text (s : seg) : tree := Node (KText s false false true) [] None [].
Definition split_text (ps : list Z) (t : tree) : list tree :=
  match t with
  | Node (KText s soft hard raw) _ _ _ =>
    match split_at s s ps with
    | ([], _) => [t]
    | (l, last) => map raw_text l ++ [raw_text last]
    end
  | _ => [t]
  end.
Fixpoint split_code_spans (ps : list Z) (t : tree) : tree :=
  match t with
  | Node k lines a kids =>
    match k with
    | KCodeSpan => Node k lines a (flat_map (split_text ps) kids)
    | _ => Node k lines a (map (split_code_spans ps) kids)
    end
  end.
Fixpoint table_ast_transform (src : bytes) (t : tree) : result tree :=
  match t with
  | Node (KTableCell al) [sg] a kids =>
    v <- seg_value src sg ;;
    match escaped_positions v (s_start sg) false with
    | [] => Ok t
    | ps => Ok (Node (KTableCell al) [sg] a (map (split_code_spans ps) kids))
    end
  | Node k lines a kids =>
    kids' <- (fix go (l : list tree) : result (list tree) :=
                match l with
                | [] => Ok []
                | x :: r => y <- table_ast_transform src x ;; z <- go r ;; Ok (y :: z)
                end) kids ;;
    Ok (Node k lines a kids')
  end.

Section WithTables.
Variable xc : xcfg.
Variable space_table punct_table : list N.
Variable norm : bytes -> bytes.
Variable re_t1o re_t1c re_t2 re_t3 re_t4 re_t5 re_t6 re_t7 : re.
Variable allowed_tags : list bytes.
Variable url_table email_table : list N.
Variable re_email_domain re_open_tag re_close_tag : re.
Variable punct_rune space_rune : N -> bool.
Variable re_task re_url re_www : re.

(* the block structure and the reference definitions *)
Definition parse_blocks_treeX (src : bytes) : result (tree * list (bytes * (bytes * option bytes))) :=
  x <- parse_blocksX (x_table xc) space_table punct_table norm re_t1o re_t1c re_t2 re_t3 re_t4 re_t5 re_t6 re_t7
                     allowed_tags src ;;
  let s := bx_s x in
  t <- to_treeX (S (length (s_h s))) src (s_h s) (bx_tabs x) 0%nat ;;
  Ok (t, c_refs (s_c s)).

Definition parse_treeX (src : bytes) : result tree :=
  x <- parse_blocks_treeX src ;;
  let '(t, refs) := x in
  t <- attach_inlinesX
         (fun in_item lines =>
            inline_childrenX xc space_table punct_table norm url_table email_table re_email_domain re_open_tag
                             re_close_tag punct_rune space_rune re_task re_url re_www refs in_item src lines)
         false t ;;
  if x_table xc then table_ast_transform src t else Ok t.

End WithTables.
