(* Model of the block phase of parser.Parse with the two block parsers of
   extension.DefinitionList (extension/definition_list.go: definitionListParser, priority 101,
   and definitionDescriptionParser, priority 102, both on the trigger ':'), which can be
   switched on (deflist): a generalised copy of the driver of model/BlockParse.v (parser.go
   closeBlocks, openBlocks, parseBlocks).

   The block parsers of the default configuration, their heap, their context and their state
   are those of BlockParse.v.  The heap has no kinds for the three node types of the extension
   and the context records the parser of an opened block as a default parser, so:

   - a DefinitionList, DefinitionTerm, DefinitionDescription node is a node of kind BHTML whose
     type field b_i1 is 100, 101, 102 (the type of an HTML block is 1 .. 7; no default block
     parser looks for the kind BHTML, html_continue is reached through the driver only);
       DefinitionList:        b_i2 = Offset; b_seg = TemporaryParagraph: None = nil, Some sg = the
                              paragraph with the node number s_start sg
       DefinitionTerm:        blines
       DefinitionDescription: b_tight = IsTight
   - in the opened-blocks slice the two parsers are recorded as PHTML; the driver functions
     below look at the node of the entry first (p_continueD, p_closeD).  A node of these kinds
     is only ever opened by its own parser.

   What the copy of the driver changes besides the parser table: parent.AppendChild(parent,
   node) in openBlocks is modelled with the detaching AppendChild (append_childD), because
   definitionListParser.Open may return a list that is already a child of the parent (it
   then moves behind the paragraph that becomes its next terms). *)
Require Import GM.model.Base GM.model.Util GM.model.Reader GM.model.Blocks GM.model.ListItem
               GM.model.LeafBlocks GM.model.CodeBlock GM.model.LinkDest GM.model.Regex
               GM.model.BlockParse.
From Coq Require Import ZArith.
Open Scope Z_scope.

Definition is_dl (n : bnode) : bool := bkind_eqb (bk n) BHTML && (b_i1 n =? 100).
Definition is_dt (n : bnode) : bool := bkind_eqb (bk n) BHTML && (b_i1 n =? 101).
Definition is_dd (n : bnode) : bool := bkind_eqb (bk n) BHTML && (b_i1 n =? 102).
Definition para_ref (p : nat) : option seg := Some (mkseg (Z.of_nat p) 0).

Fixpoint prev_id (x : nat) (l : list nat) (prev : option nat) : option nat :=
  match l with
  | [] => None
  | y :: tl => if Nat.eqb x y then prev else prev_id x tl (Some y)
  end.

(* ast.BaseNode.AppendChild: ensureIsolated(child), then append *)
Definition append_childD (h : heap) (p c : nat) : result heap :=
  n <- hget h c ;;
  h <- match bpar n with
       | Some q => remove_child h q c
       | None => Ok h
       end ;;
  append_child h p c.

Inductive bparserD := DCore (p : bparser) | DDefList | DDefDesc.
(* the parser recorded in the opened-blocks slice *)
Definition recorded (p : bparserD) : bparser := match p with DCore q => q | _ => PHTML end.

Section WithTables.
Variable deflist : bool.                   (* the DefinitionList extension is installed *)
Variable space_table punct_table : list N.
Variable norm : bytes -> bytes.
Variable re_t1o re_t1c re_t2 re_t3 re_t4 re_t5 re_t6 re_t7 : re.
Variable allowed_tags : list bytes.
Notation is_blank := (Reader.is_blank space_table).
Notation p_open := (p_open space_table re_t1o re_t2 re_t3 re_t4 re_t5 re_t6 re_t7 allowed_tags).
Notation p_continue := (p_continue space_table re_t1c).
Notation p_close := (p_close space_table).
Notation transform_paragraph := (transform_paragraph space_table punct_table norm).

(* ---- definitionListParser ---- *)
Definition deflist_open (s : st) (parent : nat) : result (st * open_res) :=
  pn <- hget (s_h s) parent ;;
  if is_dl pn then Ok (s, None)
  else
    x <- peek_line_s s ;;
    let '(s, line, _) := x in
    let line := line_of line in
    let pos := c_boff (s_c s) in
    let indent := c_bind (s_c s) in
    if pos <? 0 then Ok (s, None)
    else
      ch <- at_ line pos ;;
      if negb (N.eqb ch 58) || negb (indent =? 0) then Ok (s, None)
      else
        let last := last_id (bch pn) in
        (* need 1 or more spaces after ':' *)
        let w := fst (indent_width (zskip (pos + 1) line) (pos + 1)) in
        if w <? 1 then Ok (s, None)
        else
          let w := if 8 <=? w then 5 else w in     (* starts with indented code *)
          let w := w + pos + 1 in
          match last with
          | None => Ok (s, None)
          | Some l =>
            ln <- hget (s_h s) l ;;
            if bkind_eqb (bk ln) BParagraph then
              prev_list <- match prev_id l (bch pn) None with
                           | None => Ok None
                           | Some pv => pvn <- hget (s_h s) pv ;; Ok (if is_dl pvn then Some pv else None)
                           end ;;
              match prev_list with
              | Some lst =>                          (* is not first item *)
                h <- hupd (s_h s) lst (fun m => set_seg (set_i2 m w) (para_ref l)) ;;
                Ok (st_h s h, Some (lst, true, false))
              | None =>                              (* is first item *)
                let '(s, id) := new_node s (set_seg (set_i2 (mknode BHTML 100) w) (para_ref l)) in
                Ok (s, Some (id, true, true))
              end
            else if is_dl ln then                    (* multiple description *)
              h <- hupd (s_h s) l (fun m => set_seg (set_i2 m w) None) ;;
              Ok (st_h s h, Some (l, true, false))
            else Ok (s, None)
          end.

(* Continue: true = Continue|HasChildren, false = Close *)
Definition deflist_continue (s : st) (node : nat) : result (st * bool) :=
  x <- peek_line_s s ;;
  let '(s, line, _) := x in
  let line := line_of line in
  if is_blank line then Ok (s, true)
  else
    n <- hget (s_h s) node ;;
    y <- line_offset_s s ;;
    let '(s, off) := y in
    let w := fst (indent_width line off) in
    if w <? b_i2 n then Ok (s, false)
    else
      let '(pos, padding) := indent_position line off (b_i2 n) in
      r <- r_advance_and_set_padding (s_r s) pos padding ;;
      Ok (st_r s r, true).

(* ---- definitionDescriptionParser ---- *)
Fixpoint add_terms (s : st) (lst : nat) (lines : list seg) : result st :=
  match lines with
  | [] => Ok s
  | sg :: rest =>
    sg <- seg_trim_right_space space_table (src_of s) sg ;;
    let '(s, t) := new_node s (set_lines (mknode BHTML 101) [sg]) in
    h <- append_childD (s_h s) lst t ;;
    add_terms (st_h s h) lst rest
  end.

Definition defdesc_open (s : st) (parent : nat) : result (st * open_res) :=
  x <- peek_line_s s ;;
  let '(s, line, _) := x in
  let line := line_of line in
  let pos := c_boff (s_c s) in
  let indent := c_bind (s_c s) in
  if pos <? 0 then Ok (s, None)
  else
    ch <- at_ line pos ;;
    if negb (N.eqb ch 58) || negb (indent =? 0) then Ok (s, None)
    else
      pn <- hget (s_h s) parent ;;
      if negb (is_dl pn) then Ok (s, None)
      else
        h <- hupd (s_h s) parent (fun m => set_seg m None) ;;
        let s := st_h s h in
        s <- match b_seg pn with
             | None => Ok s
             | Some sg =>
               let para := Z.to_nat (s_start sg) in
               prn <- hget (s_h s) para ;;
               s <- add_terms s parent (blines prn) ;;
               prn <- hget (s_h s) para ;;
               match bpar prn with
               | None => Panic                      (* para.Parent().RemoveChild on nil *)
               | Some pp => h <- remove_child (s_h s) pp para ;; Ok (st_h s h)
               end
             end ;;
        let '(cpos, padding) := indent_position (zskip (pos + 1) line) (pos + 1) (b_i2 pn - pos - 1) in
        r <- r_advance_and_set_padding (s_r s) (cpos + 1) padding ;;
        let '(s, id) := new_node (st_r s r) (set_tight (mknode BHTML 102) false) in
        Ok (s, Some (id, true, false)).

(* Close: IsTight; in a tight description the loop over the children replaces the first
   Paragraph it meets by a TextBlock and ends there: the replaced paragraph has no next sibling
   any more (ReplaceChild = InsertBefore + RemoveChild, which clears the sibling links) *)
Fixpoint first_paragraph (h : heap) (l : list nat) : result (option nat) :=
  match l with
  | [] => Ok None
  | g :: tl => gn <- hget h g ;; if bkind_eqb (bk gn) BParagraph then Ok (Some g) else first_paragraph h tl
  end.
Definition defdesc_close (s : st) (node : nat) : result st :=
  n <- hget (s_h s) node ;;
  let tight := negb (bblank n) in
  h <- hupd (s_h s) node (fun m => set_tight m tight) ;;
  let s := st_h s h in
  if negb tight then Ok s
  else
    fp <- first_paragraph (s_h s) (bch n) ;;
    match fp with
    | None => Ok s
    | Some g =>
      gn <- hget (s_h s) g ;;
      let '(s, t) := new_node s (set_lines (mknode BTextBlock 0) (blines gn)) in
      h <- replace_child (s_h s) node g t ;;
      Ok (st_h s h)
    end.

(* ---- dispatch ---- *)
Definition can_interrupt_paragraphD (p : bparserD) : bool :=
  match p with DCore q => can_interrupt_paragraph q | _ => true end.
Definition can_accept_indentedD (p : bparserD) : bool :=
  match p with DCore q => can_accept_indented q | _ => false end.

(* p.blockParsers[c]: the parsers with the trigger c by priority (Setext 100, DefinitionList
   101, DefinitionDescription 102, ThematicBreak 200, ...; no default parser has the trigger
   ':'), then the free parsers *)
Definition candidatesD (c : N) : list bparserD :=
  if deflist && N.eqb c 58 then [DDefList; DDefDesc] ++ map DCore free_parsers
  else map DCore (candidates c).

Definition p_openD (p : bparserD) (s : st) (parent : nat) : result (st * open_res) :=
  match p with
  | DCore q => p_open q s parent
  | DDefList => deflist_open s parent
  | DDefDesc => defdesc_open s parent
  end.
Definition p_continueD (bp : bparser) (s : st) (node : nat) : result (st * bool * bool) :=
  n <- hget (s_h s) node ;;
  if is_dl n then (x <- deflist_continue s node ;; Ok (fst x, snd x, true))
  else if is_dd n then Ok (s, true, true)
  else p_continue bp s node.
Definition p_closeD (bp : bparser) (s : st) (node : nat) : result st :=
  n <- hget (s_h s) node ;;
  if is_dl n then Ok s
  else if is_dd n then defdesc_close s node
  else p_close bp s node.

(* ---------------- parser.go ---------------- *)
(* closeBlocks(from, to) *)
Fixpoint close_rangeD (s : st) (blocks : list (nat * bparser)) (cnt : nat) (i : Z) : result st :=
  match cnt with
  | O => Ok s
  | S k =>
    if (i <? 0) || (zlen blocks <=? i) then Panic
    else
      match nth_error blocks (Z.to_nat i) with
      | None => Panic
      | Some (node, p) =>
        isp <- is_paragraph (s_h s) node ;;
        att <- attached (s_h s) node ;;
        s <- (if isp && att then (x <- transform_paragraph s node ;; Ok (fst x)) else Ok s) ;;
        att <- attached (s_h s) node ;;
        s <- (if att then p_closeD p s node else Ok s) ;;
        close_rangeD s blocks k (i - 1)
      end
  end.
Definition close_blocksD (s : st) (from to : Z) : result st :=
  let blocks := opened (s_c s) in
  s <- close_rangeD s blocks (Z.to_nat (from - to + 1)) from ;;
  let c := s_c s in
  let n := Z.of_nat (c_len c) in
  if from =? n - 1 then
    if (to <? 0) || (n <? to) then Panic
    else Ok (st_c s (cset_open c (c_arr c) (Z.to_nat to)))
  else
    if (to <? 0) || (from + 1 <? to) || (n <? from + 1) then Panic
    else
      let moved := zskip (from + 1) (firstn (c_len c) (c_arr c)) in
      let newlen := (Z.to_nat to + length moved)%nat in
      Ok (st_c s (cset_open c (zfirst to (c_arr c) ++ moved ++ skipn newlen (c_arr c)) newlen)).

Fixpoint try_parsersD (bps : list bparserD) (parent : nat) (blank continuable : bool) (res : Z)
                      (w : Z) (s : st) : result try_res :=
  match bps with
  | [] => Ok (TDone res s)
  | bp :: rest =>
    if continuable && (res =? noBlocksOpened) && negb (can_interrupt_paragraphD bp) then
      try_parsersD rest parent blank continuable res w s
    else if (3 <? w) && negb (can_accept_indentedD bp) then
      try_parsersD rest parent blank continuable res w s
    else
      let last_block := last_opened (s_c s) in
      x <- p_openD bp s parent ;;
      let '(s, o) := x in
      match o with
      | None => try_parsersD rest parent blank continuable res w s
      | Some (node, has_children, require_para) =>
        r <- (if require_para then
                match last_block with
                | None => Ok (inl s)
                | Some (last, lp) =>
                  pn <- hget (s_h s) parent ;;
                  if opt_nat_eqb (Some last) (last_id (bch pn)) then
                    s <- p_closeD lp s last ;;
                    let c := s_c s in
                    (if Nat.eqb (c_len c) 0 then Panic
                     else
                       let s := st_c s (cset_open c (c_arr c) (pred (c_len c))) in
                       isp <- is_paragraph (s_h s) last ;;
                       if negb isp then Panic        (* last.( *ast.Paragraph) *)
                       else
                       t <- transform_paragraph s last ;;
                       let '(s, gone) := t in
                       if gone then Ok (inr s) else Ok (inl s))
                  else Ok (inl s)
                end
              else Ok (inl s)) ;;
        match r with
        | inr s => Ok (TRetry parent false res s)
        | inl s =>
          h <- hupd (s_h s) node (fun n => set_blank n blank) ;;
          let s := st_h s h in
          s <- match last_block with
               | None => Ok s
               | Some (last, _) =>
                 att <- attached (s_h s) last ;;
                 if negb att then
                   let lp := Z.of_nat (c_len (s_c s)) - 1 in close_blocksD s lp lp
                 else Ok s
               end ;;
          h <- append_childD (s_h s) parent node ;;
          let s := st_c (st_h s h) (push_opened (s_c s) (node, recorded bp)) in
          if has_children then Ok (TRetry node continuable newBlocksOpened s)
          else Ok (TDone newBlocksOpened s)
        end
      end
  end.

Fixpoint open_blocks_loopD (fuel : nat) (parent : nat) (blank continuable : bool) (res : Z)
                           (s : st) : result (Z * bool * st) :=
  match fuel with
  | O => OutOfFuel
  | S f =>
    x <- peek_line_s s ;;
    let '(s, line, _) := x in
    y <- line_offset_s s ;;
    let '(s, off) := y in
    let l := line_of line in
    let '(w, pos) := indent_width l off in
    let s := st_c s (if zlen l <=? w then cset_off (s_c s) (-1) (-1) else cset_off (s_c s) pos w) in
    let skip := match line with None => true | Some [] => true
                              | Some (c :: _) => N.eqb c 10 end in
    if skip then Ok (res, continuable, s)
    else
      let bps := if pos <? zlen l then candidatesD (nth_byte l pos) else map DCore free_parsers in
      t <- try_parsersD bps parent blank continuable res w s ;;
      match t with
      | TRetry parent continuable res s => open_blocks_loopD f parent blank continuable res s
      | TDone res s => Ok (res, continuable, s)
      end
  end.

Definition open_blocksD (fuel : nat) (parent : nat) (blank : bool) (s : st) : result (Z * st) :=
  let last_block := last_opened (s_c s) in
  cont <- match last_block with None => Ok false | Some (l, _) => is_paragraph (s_h s) l end ;;
  x <- open_blocks_loopD fuel parent blank cont noBlocksOpened s ;;
  let '(res, continuable, s) := x in
  if (res =? noBlocksOpened) && continuable then
    (* the last opened block is still the paragraph seen at entry *)
    match last_opened (s_c s) with
    | None => Panic
    | Some (l, lp) =>
      y <- p_continueD lp s l ;;
      let '(s, cont, _) := y in
      Ok (if cont then paragraphContinuation else res, s)
    end
  else Ok (res, s).

Fixpoint each_openedD (fuel : nat) (captured : list (nat * bparser)) (root : nat) (i : Z) (last_index : Z)
                      (stats : list (Z * Z * bool)) (s : st) : result ((st + st) * list (Z * Z * bool)) :=
  match fuel with
  | O => OutOfFuel
  | S f =>
    if last_index <? i then Ok (inr s, stats)
    else
      match nth_error captured (Z.to_nat i) with
      | None => Panic
      | Some (node, bp) =>
        x <- peek_line_s s ;;
        let '(s, line, _) := x in
        match line with
        | None =>
          s <- close_blocksD s last_index 0 ;;
          Ok (inl (advance_line_s s), stats)
        | Some line =>
          let line_num := rline s in
          let stats := (line_num, i, is_blank line) :: stats in
          isp <- is_paragraph (s_h s) node ;;
          c <- (if negb isp then
                  y <- p_continueD bp s node ;;
                  let '(s, cont, kids) := y in Ok (s, cont, kids)
                else Ok (s, false, false)) ;;
          let '(s, cont, kids) := c in
          if cont then
            if kids && (i =? last_index) then
              let blank := is_blank_line (line_num - 1) i stats in
              o <- open_blocksD (2 * length line + 8) node blank s ;;
              Ok (inr (snd o), stats)
            else each_openedD f captured root (i + 1) last_index stats s
          else
            let blank := is_blank_line (line_num - 1) i stats in
            this_parent <- (if i =? 0 then Ok root
                            else match nth_error captured (Z.to_nat (i - 1)) with
                                 | Some (p, _) => Ok p | None => Panic end) ;;
            last_node <- match nth_error captured (Z.to_nat last_index) with
                         | Some (p, _) => Ok p | None => Panic end ;;
            o <- open_blocksD (2 * length line + 8) this_parent blank s ;;
            let '(res, s) := o in
            if negb (res =? paragraphContinuation) then
              now_last <- match nth_error (c_arr (s_c s)) (Z.to_nat last_index) with
                          | Some (p, _) => Ok p | None => Panic end ;;
              let last_index := if Nat.eqb now_last last_node then last_index else last_index - 1 in
              s <- close_blocksD s last_index i ;;
              Ok (inr s, stats)
            else Ok (inr s, stats)
        end
      end
  end.

Fixpoint lines_loopD (fuel : nat) (root : nat) (stats : list (Z * Z * bool)) (s : st)
  : result ((st + st) * list (Z * Z * bool)) :=
  match fuel with
  | O => OutOfFuel
  | S f =>
    let captured := opened (s_c s) in
    match captured with
    | [] => Ok (inr s, stats)
    | _ =>
      x <- each_openedD (S (length captured)) captured root 0 (zlen captured - 1) stats s ;;
      let '(r, stats) := x in
      match r with
      | inl s => Ok (inl s, stats)
      | inr s => lines_loopD f root stats (advance_line_s s)
      end
    end
  end.

Fixpoint parse_blocks_loopD (fuel : nat) (root : nat) (stats : list (Z * Z * bool)) (s : st) : result st :=
  match fuel with
  | O => OutOfFuel
  | S f =>
    x <- r_skip_blank_lines space_table (S (length (src_of s))) (s_r s) ;;
    let '(r, _, lines, ok) := x in
    let s := st_r s r in
    if negb ok then Ok s
    else
      let line_num := rline s in
      let stats := if negb (lines =? 0)
                   then rev (map (fun i => (line_num - 1, Z.of_nat i, true)) (seq 0 (c_len (s_c s))))
                   else stats in
      let blank := is_blank_line (line_num - 1) 0 stats in
      o <- open_blocksD (2 * length (src_of s) + 8) root blank s ;;
      let '(res, s) := o in
      if negb (res =? newBlocksOpened) then Ok s
      else
        let s := advance_line_s s in
        y <- lines_loopD (S (length (src_of s))) root stats s ;;
        let '(r, stats) := y in
        match r with
        | inl s => Ok s
        | inr s => parse_blocks_loopD f root stats s
        end
  end.

Definition parse_blocksD (src : bytes) : result st :=
  let s := {| s_h := [mknode BDocument 0]; s_c := init_ctx; s_r := new_reader src |} in
  parse_blocks_loopD (S (length src)) 0%nat [] s.

End WithTables.

(* ---------------- from the heap to the tree the renderer model takes ---------------- *)
Require Import GM.model.HtmlWriter GM.model.Html.

Definition kind_ofD (src : bytes) (n : bnode) : result kind :=
  if is_dl n then Ok KDefinitionList
  else if is_dt n then Ok KDefinitionTerm
  else if is_dd n then Ok (KDefinitionDescription (b_tight n))
  else kind_of src n.

Fixpoint to_treeD (fuel : nat) (src : bytes) (h : heap) (i : nat) : result tree :=
  match fuel with
  | O => OutOfFuel
  | S f =>
    n <- hget h i ;;
    k <- kind_ofD src n ;;
    kids <- map_res (to_treeD f src h) (bch n) ;;
    Ok (Node k (blines n) None kids)
  end.
