(* The Typographer / DefinitionList parser model instantiated with the tables and regular
   expressions regenerated from the code (gen/Tables.v, gen/Regexes.v, gen/Unicode.v through
   DelimI.v) and the rune classes of the unicode package (TypoDefParseU.v). *)
Require Import GM.model.Base GM.model.Util GM.model.UtilI GM.model.Reader GM.model.Regex GM.model.Html GM.model.HtmlI
               GM.model.Delim GM.model.DelimI GM.model.TypoDefParseU GM.model.TypoDefParseT GM.model.TypoDefParseD
               GM.model.TypoDefParse.
Require Import GM.gen.Tables GM.gen.Regexes.

(* unicode.IsPunct, unicode.IsSpace, unicode.IsDigit, unicode.IsLetter *)
Definition UniPunct := in_ranges uni_punct_ranges.
Definition UniSpace := in_ranges uni_space_ranges.
Definition UniDigit := in_ranges uni_digit_ranges.
Definition UniLetter := in_ranges uni_letter_ranges.

(* parser.Parse of goldmark.New(goldmark.WithExtensions(...)) with the extensions selected by tc *)
Definition ParseTreeTD (tc : tcfg) (src : bytes) : result tree :=
  parse_treeTD tc space_table punct_table ToLinkReference
    re_htmlBlockType1Open re_htmlBlockType1Close re_htmlBlockType2Open re_htmlBlockType3Open
    re_htmlBlockType4Open re_htmlBlockType5Open re_htmlBlockType6 re_htmlBlockType7 allowed_block_tags
    url_table email_table re_emailDomain re_openTag re_closeTag PunctRune SpaceRune
    UniPunct UniSpace UniDigit UniLetter src.

(* Convert of the same with the given renderer options: Parse, then Render, both models *)
Definition ConvertModelTD (tc : tcfg) (cfg : rcfg) (src : bytes) : result bytes :=
  t <- ParseTreeTD tc src ;;
  RenderHTML cfg src t.

(* the tables of TypoDefParseU.v, for the comparison with the running unicode package *)
Definition TDRuneRanges (which : N) : list (N * N) :=
  (if which =? 0 then uni_punct_ranges else if which =? 1 then uni_space_ranges
   else if which =? 2 then uni_digit_ranges else uni_letter_ranges)%N.
