(* Model of the byte-level utilities of /repo/util/util.go (after the fix: commits).
   The tables are parameters of a Section; proofs/Concrete.v instantiates them with
   the tables dumped from the running code (gen/Tables.v, gen/Entities.v, gen/Folding.v).

   Style: every Go loop that scans left to right is a recursion on the remaining input
   (structural where one byte is consumed per step, on fuel = input length where a step
   consumes several bytes).  The copy-on-write buffer of the Go code only decides whether
   the input slice itself is returned; where that decision is observable in the bytes
   (URLEscape's dropped bytes, ReplaceSpaces) it is modelled explicitly. *)
Require Import GM.model.Base.
Open Scope N_scope.

(* ---------- table-free helpers ---------- *)
Definition is_numeric (c : N) : bool := (48 <=? c) && (c <=? 57).
Definition is_hex (c : N) : bool :=
  ((48 <=? c) && (c <=? 57)) || ((97 <=? c) && (c <=? 102)) || ((65 <=? c) && (c <=? 70)).
Definition is_alnum (c : N) : bool :=
  ((97 <=? c) && (c <=? 122)) || ((65 <=? c) && (c <=? 90)) || ((48 <=? c) && (c <=? 57)).

Definition hexdigit_upper (n : N) : N := if n <? 10 then 48 + n else 55 + n.
Definition pct (c : N) : bytes := [37; hexdigit_upper (c / 16); hexdigit_upper (c mod 16)].

(* net/url.QueryEscape, byte by byte: unreserved bytes stay, space becomes '+',
   everything else %XX (upper-case hex). *)
Definition query_unreserved (c : N) : bool :=
  is_alnum c || (c =? 45) || (c =? 95) || (c =? 46) || (c =? 126).
Definition query_escape1 (c : N) : bytes :=
  if query_unreserved c then [c] else if c =? 32 then [43] else pct c.
Definition query_escape (s : bytes) : bytes := flat_map query_escape1 s.

(* ReadWhile(source, [start,limit], pred): the longest prefix satisfying pred, and the rest. *)
Fixpoint read_while (p : N -> bool) (v : bytes) : bytes * bytes :=
  match v with
  | c :: rest => if p c then let '(a, b) := read_while p rest in (c :: a, b) else ([], v)
  | [] => ([], [])
  end.

(* ---------- UTF-8 (unicode/utf8 of the Go standard library, modelled) ---------- *)
Definition cont (c : N) : bool := (128 <=? c) && (c <=? 191).
Definition valid_rune (r : N) : bool :=
  (r <? 55296) || ((57344 <=? r) && (r <=? 1114111)).
(* util.ToValidRune on a uint32 value converted to rune (int32): zero, surrogates,
   values above 0x10FFFF (incl. those that wrap negative) give U+FFFD. *)
Definition to_valid_rune (v : N) : N :=
  if (v =? 0) || negb (valid_rune v) then 65533 else v.

Definition encode_rune (r : N) : bytes :=
  if r <? 128 then [r]
  else if r <? 2048 then [192 + r / 64; 128 + r mod 64]
  else if negb (valid_rune r) then [239; 191; 189]
  else if r <? 65536 then [224 + r / 4096; 128 + (r / 64) mod 64; 128 + r mod 64]
  else [240 + r / 262144; 128 + (r / 4096) mod 64; 128 + (r / 64) mod 64; 128 + r mod 64].

(* utf8.DecodeRune: (rune, width); invalid or short input gives (RuneError = 65533, 1);
   empty input gives (65533, 0). *)
Definition decode_rune (v : bytes) : N * N :=
  match v with
  | [] => (65533, 0)
  | c0 :: r0 =>
    if c0 <? 128 then (c0, 1)
    else if (194 <=? c0) && (c0 <=? 223) then
      match r0 with
      | c1 :: _ => if cont c1 then ((c0 - 192) * 64 + (c1 - 128), 2) else (65533, 1)
      | _ => (65533, 1)
      end
    else if (224 <=? c0) && (c0 <=? 239) then
      match r0 with
      | c1 :: c2 :: _ =>
        let lo := if c0 =? 224 then 160 else 128 in
        let hi := if c0 =? 237 then 159 else 191 in
        if (lo <=? c1) && (c1 <=? hi) && cont c2
        then ((c0 - 224) * 4096 + (c1 - 128) * 64 + (c2 - 128), 3) else (65533, 1)
      | _ => (65533, 1)
      end
    else if (240 <=? c0) && (c0 <=? 244) then
      match r0 with
      | c1 :: c2 :: c3 :: _ =>
        let lo := if c0 =? 240 then 144 else 128 in
        let hi := if c0 =? 244 then 143 else 191 in
        if (lo <=? c1) && (c1 <=? hi) && cont c2 && cont c3
        then ((c0 - 240) * 262144 + (c1 - 128) * 4096 + (c2 - 128) * 64 + (c3 - 128), 4)
        else (65533, 1)
      | _ => (65533, 1)
      end
    else (65533, 1)
  end.

Definition rune_start (c : N) : bool := negb (cont c).

(* valid UTF-8 as the Go library defines it (utf8.Valid) *)
Fixpoint valid_utf8_fuel (fuel : nat) (v : bytes) : bool :=
  match fuel with
  | O => match v with [] => true | _ => false end
  | S f =>
    match v with
    | [] => true
    | c :: _ =>
      let '(r, w) := decode_rune v in
      if (r =? 65533) && (w =? 1) then false
      else valid_utf8_fuel f (skipn (N.to_nat w) v)
    end
  end.
Definition valid_utf8 (v : bytes) : bool := valid_utf8_fuel (length v) v.

(* strconv.ParseUint(s, base, 32) with the error ignored: out-of-range gives 2^32-1. *)
Definition digit_val (c : N) : N :=
  if (48 <=? c) && (c <=? 57) then c - 48
  else if (97 <=? c) && (c <=? 102) then c - 87
  else c - 55.
Definition parse_uint32 (base : N) (s : bytes) : N :=
  let v := fold_left (fun acc c => acc * base + digit_val c) s 0 in
  if 4294967295 <? v then 4294967295 else v.

Section WithTables.
Variable html_escape_table : list (option bytes).
Variable url_escape_table : list N.
Variable utf8len_table : list N.
Variable punct_table : list N.
Variable space_table : list N.
Variable spaces : bytes.
Variable entities : list (bytes * bytes).
Variable case_foldings : list (N * list N).

Definition is_punct (c : N) : bool := tbl punct_table 0 c =? 1.
Definition is_space (c : N) : bool := tbl space_table 0 c =? 1.

(* ---- EscapeHTML (util.go:549) ---- *)
Definition esc_entry (c : N) : option bytes := tbl html_escape_table None c.
Definition esc1 (c : N) : bytes := match esc_entry c with Some e => e | None => [c] end.
Definition escape_html (v : bytes) : bytes := flat_map esc1 v.

(* ---- URLEscape, escaping stage (util.go:688-736) ----
   `total` is len(v) of the whole input: the Go code compares the UTF-8 length of the
   leading byte with len(v), not with what remains. *)
Definition url_safe (c : N) : bool := tbl url_escape_table 0 c =? 1.
Definition u8len (c : N) : N := tbl utf8len_table 1 c.

Definition url_escape_other (total c : N) (rest : bytes) (rec : bytes -> bytes) : bytes :=
  let l := u8len c in
  if l =? 99 then c :: rec rest                      (* invalid leading byte: kept as is *)
  else if c =? 32 then [37; 50; 48] ++ rec rest
  else
    let l := if total <? l then total - 1 else l in
    if l =? 0 then
      (* only when len(v) = 1: nothing has been copied, the input itself is returned *)
      if total =? 1 then c :: rec rest else rec rest
    else if N.of_nat (length rest) + 1 <? l then rec rest   (* stop > len(v): byte dropped *)
    else query_escape (c :: firstn (N.to_nat l - 1) rest) ++ rec (skipn (N.to_nat l - 1) rest).

Fixpoint url_escape_loop (fuel : nat) (total : N) (v : bytes) : bytes :=
  match fuel with
  | O => []
  | S fuel' =>
    match v with
    | [] => []
    | c :: rest =>
      if url_safe c then c :: url_escape_loop fuel' total rest
      else
        match rest with
        | h1 :: h2 :: rest2 =>
            if (c =? 37) && is_hex h1 && is_hex h2
            then c :: h1 :: h2 :: url_escape_loop fuel' total rest2
            else url_escape_other total c rest (url_escape_loop fuel' total)
        | _ => url_escape_other total c rest (url_escape_loop fuel' total)
        end
    end
  end.

Definition url_escape_raw (v : bytes) : bytes :=
  url_escape_loop (length v) (N.of_nat (length v)) v.

(* ---- UnescapePunctuations (util.go:568) ---- *)
Fixpoint unescape_punct (v : bytes) : bytes :=
  match v with
  | [] => []
  | c :: rest =>
    match rest with
    | d :: rest' => if (c =? 92) && is_punct d then d :: unescape_punct rest'
                    else c :: unescape_punct rest
    | [] => [c]
    end
  end.

(* ---- ResolveNumericReferences (util.go:590, base 10 after the fix) ---- *)
(* what follows '&': Some (replacement, remaining input) when a reference is resolved *)
Definition numeric_ref (after_amp : bytes) : option (bytes * bytes) :=
  match after_amp with
  | 35 :: nc :: rest =>
    if (nc =? 120) || (nc =? 88) then
      let '(digits, tl) := read_while is_hex rest in
      match digits, tl with
      | _ :: _, 59 :: tl' => Some (encode_rune (to_valid_rune (parse_uint32 16 digits)), tl')
      | _, _ => None
      end
    else if is_numeric nc then
      let '(digits, tl) := read_while is_numeric (nc :: rest) in
      match tl with
      | 59 :: tl' => if Nat.ltb (length digits) 8
                     then Some (encode_rune (to_valid_rune (parse_uint32 10 digits)), tl')
                     else None
      | _ => None
      end
    else None
  | _ => None
  end.

Fixpoint resolve_numeric_fuel (fuel : nat) (v : bytes) : bytes :=
  match fuel with
  | O => []
  | S f =>
    match v with
    | [] => []
    | c :: rest =>
      if c =? 38 then
        match numeric_ref rest with
        | Some (repl, tl) => repl ++ resolve_numeric_fuel f tl
        | None => c :: resolve_numeric_fuel f rest
        end
      else c :: resolve_numeric_fuel f rest
    end
  end.
Definition resolve_numeric (v : bytes) : bytes := resolve_numeric_fuel (length v) v.

(* ---- ResolveEntityNames (util.go:641) ---- *)
Fixpoint lookup_entity (tab : list (bytes * bytes)) (name : bytes) : option bytes :=
  match tab with
  | [] => None
  | (n, cs) :: tab' => if bytes_eqb n name then Some cs else lookup_entity tab' name
  end.

Definition entity_ref (after_amp : bytes) : option (bytes * bytes) :=
  match after_amp with
  | 35 :: _ => None
  | _ =>
    let '(name, tl) := read_while is_alnum after_amp in
    match name, tl with
    | _ :: _, 59 :: tl' =>
      match lookup_entity entities name with
      | Some cs => Some (cs, tl')
      | None => None
      end
    | _, _ => None
    end
  end.

Fixpoint resolve_entities_fuel (fuel : nat) (v : bytes) : bytes :=
  match fuel with
  | O => []
  | S f =>
    match v with
    | [] => []
    | c :: rest =>
      if c =? 38 then
        match entity_ref rest with
        | Some (repl, tl) => repl ++ resolve_entities_fuel f tl
        | None => c :: resolve_entities_fuel f rest
        end
      else c :: resolve_entities_fuel f rest
    end
  end.
Definition resolve_entities (v : bytes) : bytes := resolve_entities_fuel (length v) v.

(* ---- URLEscape (util.go:682) ---- *)
Definition url_escape (v : bytes) (resolve : bool) : bytes :=
  if resolve then url_escape_raw (resolve_entities (resolve_numeric (unescape_punct v)))
  else url_escape_raw v.

(* ---- trimming (util.go:338-421) ---- *)
Definition in_set (s : bytes) (c : N) : bool := existsb (N.eqb c) s.
Fixpoint trim_left (v s : bytes) : bytes :=
  match v with
  | c :: rest => if in_set s c then trim_left rest s else v
  | [] => []
  end.
Definition trim_right (v s : bytes) : bytes := rev (trim_left (rev v) s).

(* ---- DoFullUnicodeCaseFolding (util.go:424) ---- *)
Fixpoint lookup_fold (tab : list (N * list N)) (r : N) : option (list N) :=
  match tab with
  | [] => None
  | (k, t) :: tab' => if k =? r then Some t else lookup_fold tab' r
  end.

Fixpoint case_fold_fuel (fuel : nat) (v : bytes) : bytes :=
  match fuel with
  | O => []
  | S f =>
    match v with
    | [] => []
    | c :: rest =>
      if c <? 181 then
        (if (65 <=? c) && (c <=? 90) then c + 32 else c) :: case_fold_fuel f rest
      else if negb (rune_start c) then c :: case_fold_fuel f rest
      else
        let '(r, w) := decode_rune v in
        if r =? 65533 then c :: case_fold_fuel f rest
        else match lookup_fold case_foldings r with
             | None => c :: case_fold_fuel f rest
             | Some folded => flat_map encode_rune folded ++ case_fold_fuel f (skipn (N.to_nat w) v)
             end
    end
  end.
Definition case_fold (v : bytes) : bytes := case_fold_fuel (length v) v.

(* ---- ReplaceSpaces (util.go:470) ----
   The Go code allocates the result lazily: when no run of spaces is followed by a
   non-space byte, the source itself is returned (a trailing run is then NOT collapsed). *)
Fixpoint collapse_spaces (in_run : bool) (v : bytes) (repl : N) : bytes :=
  match v with
  | [] => if in_run then [repl] else []
  | c :: rest =>
    if is_space c then collapse_spaces true rest repl
    else (if in_run then [repl; c] else [c]) ++ collapse_spaces false rest repl
  end.
Fixpoint run_then_nonspace (in_run : bool) (v : bytes) : bool :=
  match v with
  | [] => false
  | c :: rest => if is_space c then run_then_nonspace true rest
                 else in_run || run_then_nonspace false rest
  end.
Definition replace_spaces (v : bytes) (repl : N) : bytes :=
  if run_then_nonspace false v then collapse_spaces false v repl else v.

(* ---- ToLinkReference (util.go:524) ---- *)
Definition to_link_reference (v : bytes) : bytes :=
  replace_spaces (case_fold (trim_right (trim_left v spaces) spaces)) 32.

(* ---- ToRune (util.go:502, after the fix) ---- *)
(* scan backwards from pos for a byte that is not a continuation byte *)
Fixpoint rune_start_before (rev_prefix : bytes) (acc : bytes) : option bytes :=
  match rev_prefix with
  | [] => None
  | c :: before => if rune_start c then Some (c :: acc) else rune_start_before before (c :: acc)
  end.
(* utf8.DecodeLastRune: the rune value only *)
Definition decode_last_rune (v : bytes) : N :=
  match rev v with
  | [] => 65533
  | c :: before =>
    if c <? 128 then c else
    let fix scan (k : nat) (bef acc : bytes) : option bytes :=
      match k with
      | O => None
      | S k' => match bef with
                | [] => None
                | b :: bef' => if rune_start b then Some (b :: acc) else scan k' bef' (b :: acc)
                end
      end in
    match scan 3%nat before [c] with
    | Some tail => let '(r, w) := decode_rune tail in if w =? N.of_nat (length tail) then r else 65533
    | None => 65533
    end
  end.

Definition to_rune (v : bytes) (pos : Z) : result N :=
  if (pos <? 0)%Z then Ok 65533
  else if (zlen v <=? pos)%Z then Panic    (* source[pos] out of range *)
  else
    let n := Z.to_nat pos in
    match rune_start_before (rev (firstn (S n) v)) (skipn (S n) v) with
    | None => Ok 65533
    | Some tail => Ok (fst (decode_rune tail))
    end.

End WithTables.

(* ---------- BytesFilter (util.go:904-1044, after the fix) ---------- *)
Definition bytes_hash (b : bytes) : N :=
  fold_left (fun h c => (h * 32 + h + c) mod 18446744073709551616) b 5381.

Record bfilter := {
  bf_chars : list N;            (* 256 entries, bit i set: some element has this byte at index i < 3 *)
  bf_slots : list (list bytes)  (* 64 buckets *)
}.

Definition bf_empty : bfilter :=
  {| bf_chars := repeat 0 256; bf_slots := repeat [] 64 |}.

Fixpoint upd {A} (l : list A) (n : nat) (f : A -> A) : list A :=
  match l, n with
  | [], _ => []
  | x :: l', O => f x :: l'
  | x :: l', S n' => x :: upd l' n' f
  end.

Fixpoint bf_mark (chars : list N) (i : nat) (b : bytes) : list N :=
  match b with
  | [] => chars
  | c :: rest =>
    if Nat.ltb i 3 then bf_mark (upd chars (N.to_nat c) (fun x => N.setbit x (N.of_nat i))) (S i) rest
    else chars
  end.

Definition bf_add (s : bfilter) (b : bytes) : bfilter :=
  {| bf_chars := bf_mark (bf_chars s) 0 b;
     bf_slots := upd (bf_slots s) (N.to_nat (bytes_hash b mod 64)) (fun slot => slot ++ [b]) |}.

Fixpoint bf_check (chars : list N) (i : nat) (b : bytes) : bool :=
  match b with
  | [] => true
  | c :: rest =>
    if Nat.ltb i 3 then N.testbit (nth (N.to_nat c) chars 0) (N.of_nat i) && bf_check chars (S i) rest
    else true
  end.

Definition bf_contains (s : bfilter) (b : bytes) : bool :=
  bf_check (bf_chars s) 0 b &&
  existsb (bytes_eqb b) (nth (N.to_nat (bytes_hash b mod 64)) (bf_slots s) []).

(* Extend: the new filter gets copies of the table and of every bucket, then the adds. *)
Definition bf_extend (s : bfilter) (bs : list bytes) : bfilter := fold_left bf_add bs s.
