(* Model of the block phase of parser.Parse with the paragraph transformer of the Table
   extension (extension/table.go tableParagraphTransformer, priority 200, i.e. after the link
   reference definition transformer, priority 100): a generalised copy of the driver of
   model/BlockParse.v (parser.go transformParagraph, closeBlocks, openBlocks, parseBlocks).

   The transformer has to run inside the driver: openBlocks re-tries the block parsers when the
   paragraph under a Setext underline was consumed by a transformer, a paragraph that was
   consumed is not closed, and one that keeps its first lines is closed after the transformer
   has cut its lines.

   The block parsers, their heap and their context are those of BlockParse.v.  A Table node is
   never an opened block and no block parser inspects it beyond "is not a paragraph", so in
   the heap it is a childless placeholder node (kind BThematicBreak; any kind other than
   BParagraph would do) and the rows of the table (model/TableX.v) are kept in a list next to
   the heap, keyed by the number of the placeholder.  GfmParse.v builds the Table subtree
   from that list. *)
Require Import GM.model.Base GM.model.Util GM.model.Reader GM.model.Blocks GM.model.ListItem
               GM.model.LeafBlocks GM.model.CodeBlock GM.model.LinkDest GM.model.Regex
               GM.model.Html GM.model.TableX GM.model.BlockParse.
From Coq Require Import ZArith.
Open Scope Z_scope.

Record stx := { bx_s : st; bx_tabs : list (nat * table) }.
Definition stx_s x v := {| bx_s := v; bx_tabs := bx_tabs x |}.
Definition lift {A} (x : stx) (r : result (st * A)) : result (stx * A) :=
  y <- r ;; Ok (stx_s x (fst y), snd y).
Definition lift0 (x : stx) (r : result st) : result stx := s <- r ;; Ok (stx_s x s).

(* lines[0:k] with "last.Stop = last.Stop - 1" on the last of them *)
Fixpoint cut_last_newline (ls : list seg) : list seg :=
  match ls with
  | [] => []
  | [l] => [{| s_start := s_start l; s_stop := s_stop l - 1; s_pad := s_pad l; s_fnl := s_fnl l |}]
  | l :: r => l :: cut_last_newline r
  end.

Section WithTables.
Variable table_on : bool.                  (* the Table extension is installed *)
Variable space_table punct_table : list N.
Variable norm : bytes -> bytes.
Variable re_t1o re_t1c re_t2 re_t3 re_t4 re_t5 re_t6 re_t7 : re.
Variable allowed_tags : list bytes.
Notation is_blank := (Reader.is_blank space_table).
Notation p_open := (p_open space_table re_t1o re_t2 re_t3 re_t4 re_t5 re_t6 re_t7 allowed_tags).
Notation p_continue := (p_continue space_table re_t1c).
Notation p_close := (p_close space_table).
Notation lrd_transform := (lrd_transform space_table punct_table norm).

(* tableParagraphTransformer.Transform *)
Definition table_transform (x : stx) (node : nat) : result stx :=
  let s := bx_s x in
  n <- hget (s_h s) node ;;
  r <- TableX.transform space_table (src_of s) (blines n) ;;
  match r with
  | None => Ok x
  | Some (before, tbl) =>
    match bpar n with
    | None => Panic                                  (* node.Parent().InsertAfter on nil *)
    | Some p =>
      let '(s, t) := new_node s (mknode BThematicBreak 0) in
      h <- insert_after (s_h s) p node t ;;
      h <- match before with
           | [] => h <- hupd h node (fun m => set_lines m []) ;; remove_child h p node
           | _ => hupd h node (fun m => set_lines m (cut_last_newline before))
           end ;;
      Ok {| bx_s := st_h s h; bx_tabs := bx_tabs x ++ [(t, tbl)] |}
    end
  end.

(* transformParagraph: true when the paragraph has been detached *)
Definition transform_paragraphX (x : stx) (node : nat) : result (stx * bool) :=
  s <- lrd_transform (bx_s x) node ;;
  let x := stx_s x s in
  n <- hget (s_h s) node ;;
  match bpar n with
  | None => Ok (x, true)
  | Some _ =>
    if table_on then
      x <- table_transform x node ;;
      n <- hget (s_h (bx_s x)) node ;;
      Ok (x, match bpar n with None => true | Some _ => false end)
    else Ok (x, false)
  end.

(* closeBlocks(from, to) *)
Fixpoint close_rangeX (x : stx) (blocks : list (nat * bparser)) (cnt : nat) (i : Z) : result stx :=
  match cnt with
  | O => Ok x
  | S k =>
    if (i <? 0) || (zlen blocks <=? i) then Panic
    else
      match nth_error blocks (Z.to_nat i) with
      | None => Panic
      | Some (node, p) =>
        isp <- is_paragraph (s_h (bx_s x)) node ;;
        att <- attached (s_h (bx_s x)) node ;;
        x <- (if isp && att then (y <- transform_paragraphX x node ;; Ok (fst y)) else Ok x) ;;
        att <- attached (s_h (bx_s x)) node ;;
        x <- (if att then lift0 x (p_close p (bx_s x) node) else Ok x) ;;
        close_rangeX x blocks k (i - 1)
      end
  end.
Definition close_blocksX (x : stx) (from to : Z) : result stx :=
  let blocks := opened (s_c (bx_s x)) in
  x <- close_rangeX x blocks (Z.to_nat (from - to + 1)) from ;;
  let s := bx_s x in
  let c := s_c s in
  let n := Z.of_nat (c_len c) in
  if from =? n - 1 then
    if (to <? 0) || (n <? to) then Panic
    else Ok (stx_s x (st_c s (cset_open c (c_arr c) (Z.to_nat to))))
  else
    if (to <? 0) || (from + 1 <? to) || (n <? from + 1) then Panic
    else
      let moved := zskip (from + 1) (firstn (c_len c) (c_arr c)) in
      let newlen := (Z.to_nat to + length moved)%nat in
      Ok (stx_s x (st_c s (cset_open c (zfirst to (c_arr c) ++ moved ++ skipn newlen (c_arr c)) newlen))).

Inductive try_resX :=
| TRetryX (parent : nat) (continuable : bool) (res : Z) (x : stx)
| TDoneX (res : Z) (x : stx).

Fixpoint try_parsersX (bps : list bparser) (parent : nat) (blank continuable : bool) (res : Z)
                      (w : Z) (x : stx) : result try_resX :=
  match bps with
  | [] => Ok (TDoneX res x)
  | bp :: rest =>
    if continuable && (res =? noBlocksOpened) && negb (can_interrupt_paragraph bp) then
      try_parsersX rest parent blank continuable res w x
    else if (3 <? w) && negb (can_accept_indented bp) then
      try_parsersX rest parent blank continuable res w x
    else
      let last_block := last_opened (s_c (bx_s x)) in
      y <- p_open bp (bx_s x) parent ;;
      let '(s, o) := y in
      let x := stx_s x s in
      match o with
      | None => try_parsersX rest parent blank continuable res w x
      | Some (node, has_children, require_para) =>
        r <- (if require_para then
                match last_block with
                | None => Ok (inl x)
                | Some (last, lp) =>
                  pn <- hget (s_h (bx_s x)) parent ;;
                  if opt_nat_eqb (Some last) (last_id (bch pn)) then
                    s <- p_close lp (bx_s x) last ;;
                    let c := s_c s in
                    (if Nat.eqb (c_len c) 0 then Panic
                     else
                       let s := st_c s (cset_open c (c_arr c) (pred (c_len c))) in
                       t <- transform_paragraphX (stx_s x s) last ;;
                       let '(x, gone) := t in
                       if gone then Ok (inr x) else Ok (inl x))
                  else Ok (inl x)
                end
              else Ok (inl x)) ;;
        match r with
        | inr x => Ok (TRetryX parent false res x)
        | inl x =>
          h <- hupd (s_h (bx_s x)) node (fun n => set_blank n blank) ;;
          let x := stx_s x (st_h (bx_s x) h) in
          x <- match last_block with
               | None => Ok x
               | Some (last, _) =>
                 att <- attached (s_h (bx_s x)) last ;;
                 if negb att then
                   let lp := Z.of_nat (c_len (s_c (bx_s x))) - 1 in close_blocksX x lp lp
                 else Ok x
               end ;;
          h <- append_child (s_h (bx_s x)) parent node ;;
          let s := bx_s x in
          let x := stx_s x (st_c (st_h s h) (push_opened (s_c s) (node, bp))) in
          if has_children then Ok (TRetryX node continuable newBlocksOpened x)
          else Ok (TDoneX newBlocksOpened x)
        end
      end
  end.

Fixpoint open_blocks_loopX (fuel : nat) (parent : nat) (blank continuable : bool) (res : Z)
                           (x : stx) : result (Z * bool * stx) :=
  match fuel with
  | O => OutOfFuel
  | S f =>
    y <- peek_line_s (bx_s x) ;;
    let '(s, line, _) := y in
    z <- line_offset_s s ;;
    let '(s, off) := z in
    let l := line_of line in
    let '(w, pos) := Blocks.indent_width l off in
    let s := st_c s (if zlen l <=? w then cset_off (s_c s) (-1) (-1) else cset_off (s_c s) pos w) in
    let x := stx_s x s in
    let skip := match line with None => true | Some [] => true
                              | Some (c :: _) => N.eqb c 10 end in
    if skip then Ok (res, continuable, x)
    else
      let bps := if pos <? zlen l then candidates (nth_byte l pos) else free_parsers in
      t <- try_parsersX bps parent blank continuable res w x ;;
      match t with
      | TRetryX parent continuable res x => open_blocks_loopX f parent blank continuable res x
      | TDoneX res x => Ok (res, continuable, x)
      end
  end.

Definition open_blocksX (fuel : nat) (parent : nat) (blank : bool) (x : stx) : result (Z * stx) :=
  let last_block := last_opened (s_c (bx_s x)) in
  cont <- match last_block with None => Ok false | Some (l, _) => is_paragraph (s_h (bx_s x)) l end ;;
  y <- open_blocks_loopX fuel parent blank cont noBlocksOpened x ;;
  let '(res, continuable, x) := y in
  if (res =? noBlocksOpened) && continuable then
    match last_opened (s_c (bx_s x)) with
    | None => Panic
    | Some (l, lp) =>
      z <- p_continue lp (bx_s x) l ;;
      let '(s, cont, _) := z in
      Ok (if cont then paragraphContinuation else res, stx_s x s)
    end
  else Ok (res, x).

Definition advance_line_x (x : stx) : stx := stx_s x (advance_line_s (bx_s x)).

Fixpoint each_openedX (fuel : nat) (captured : list (nat * bparser)) (root : nat) (i : Z) (last_index : Z)
                      (stats : list (Z * Z * bool)) (x : stx) : result ((stx + stx) * list (Z * Z * bool)) :=
  match fuel with
  | O => OutOfFuel
  | S f =>
    if last_index <? i then Ok (inr x, stats)
    else
      match nth_error captured (Z.to_nat i) with
      | None => Panic
      | Some (node, bp) =>
        y <- peek_line_s (bx_s x) ;;
        let '(s, line, _) := y in
        let x := stx_s x s in
        match line with
        | None =>
          x <- close_blocksX x last_index 0 ;;
          Ok (inl (advance_line_x x), stats)
        | Some line =>
          let line_num := rline (bx_s x) in
          let stats := (line_num, i, is_blank line) :: stats in
          isp <- is_paragraph (s_h (bx_s x)) node ;;
          c <- (if negb isp then
                  y <- p_continue bp (bx_s x) node ;;
                  let '(s, cont, kids) := y in Ok (stx_s x s, cont, kids)
                else Ok (x, false, false)) ;;
          let '(x, cont, kids) := c in
          if cont then
            if kids && (i =? last_index) then
              let blank := is_blank_line (line_num - 1) i stats in
              o <- open_blocksX (2 * length line + 8) node blank x ;;
              Ok (inr (snd o), stats)
            else each_openedX f captured root (i + 1) last_index stats x
          else
            let blank := is_blank_line (line_num - 1) i stats in
            this_parent <- (if i =? 0 then Ok root
                            else match nth_error captured (Z.to_nat (i - 1)) with
                                 | Some (p, _) => Ok p | None => Panic end) ;;
            last_node <- match nth_error captured (Z.to_nat last_index) with
                         | Some (p, _) => Ok p | None => Panic end ;;
            o <- open_blocksX (2 * length line + 8) this_parent blank x ;;
            let '(res, x) := o in
            if negb (res =? paragraphContinuation) then
              now_last <- match nth_error (c_arr (s_c (bx_s x))) (Z.to_nat last_index) with
                          | Some (p, _) => Ok p | None => Panic end ;;
              let last_index := if Nat.eqb now_last last_node then last_index else last_index - 1 in
              x <- close_blocksX x last_index i ;;
              Ok (inr x, stats)
            else Ok (inr x, stats)
        end
      end
  end.

Fixpoint lines_loopX (fuel : nat) (root : nat) (stats : list (Z * Z * bool)) (x : stx)
  : result ((stx + stx) * list (Z * Z * bool)) :=
  match fuel with
  | O => OutOfFuel
  | S f =>
    let captured := opened (s_c (bx_s x)) in
    match captured with
    | [] => Ok (inr x, stats)
    | _ =>
      y <- each_openedX (S (length captured)) captured root 0 (zlen captured - 1) stats x ;;
      let '(r, stats) := y in
      match r with
      | inl x => Ok (inl x, stats)
      | inr x => lines_loopX f root stats (advance_line_x x)
      end
    end
  end.

Fixpoint parse_blocks_loopX (fuel : nat) (root : nat) (stats : list (Z * Z * bool)) (x : stx) : result stx :=
  match fuel with
  | O => OutOfFuel
  | S f =>
    let s := bx_s x in
    y <- r_skip_blank_lines space_table (S (length (src_of s))) (s_r s) ;;
    let '(r, _, lines, ok) := y in
    let s := st_r s r in
    let x := stx_s x s in
    if negb ok then Ok x
    else
      let line_num := rline s in
      let stats := if negb (lines =? 0)
                   then rev (map (fun i => (line_num - 1, Z.of_nat i, true)) (seq 0 (c_len (s_c s))))
                   else stats in
      let blank := is_blank_line (line_num - 1) 0 stats in
      o <- open_blocksX (2 * length (src_of s) + 8) root blank x ;;
      let '(res, x) := o in
      if negb (res =? newBlocksOpened) then Ok x
      else
        let x := advance_line_x x in
        y <- lines_loopX (S (length (src_of (bx_s x)))) root stats x ;;
        let '(r, stats) := y in
        match r with
        | inl x => Ok x
        | inr x => parse_blocks_loopX f root stats x
        end
  end.

Definition parse_blocksX (src : bytes) : result stx :=
  let s := {| s_h := [mknode BDocument 0]; s_c := init_ctx; s_r := new_reader src |} in
  parse_blocks_loopX (S (length src)) 0%nat [] {| bx_s := s; bx_tabs := [] |}.

End WithTables.
