(* A model of Go's regexp package for the regular expressions goldmark uses: the syntax tree
   that regexp/syntax.Parse(...).Simplify() yields (regenerated from the live Regexp objects
   into gen/Regexes.v) and a backtracking matcher with leftmost-first (Perl) priorities and
   capture groups, stepping rune by rune over UTF-8 like the Go engines do.

   re_find r s = Some caps: the leftmost match, caps = byte index pairs as FindSubmatchIndex
   returns them (group 0 first; None for a group that took no part).

   An iteration of a star that consumes nothing is abandoned (the Go engines drop a thread
   that returns to the same instruction at the same position); so every iteration consumes
   at least one byte and the fuel S (length s) of the star loops is never exhausted. *)
Require Import GM.model.Base GM.model.Util.
From Coq Require Import ZArith.
Open Scope Z_scope.

Inductive re :=
| REmpty
| RNone                                  (* OpNoMatch *)
| RLit (c : N)                           (* one rune *)
| RClass (ranges : list (N * N))         (* rune ranges, inclusive *)
| RAny                                   (* any rune *)
| RAnyNotNL
| RBeginText
| REndText
| RCat (a b : re)
| RAlt (a b : re)
| RStar (greedy : bool) (a : re)
| RPlus (greedy : bool) (a : re)
| RQuest (greedy : bool) (a : re)
| RCap (idx : nat) (a : re).

Definition caps := list (option (Z * Z)).
Fixpoint set_cap (c : caps) (n : nat) (v : Z * Z) : caps :=
  match n, c with
  | O, _ :: tl => Some v :: tl
  | O, [] => [Some v]
  | S k, x :: tl => x :: set_cap tl k v
  | S k, [] => None :: set_cap [] k v
  end.

Fixpoint in_ranges (rs : list (N * N)) (c : N) : bool :=
  match rs with
  | [] => false
  | (lo, hi) :: tl => ((lo <=? c)%N && (c <=? hi)%N) || in_ranges tl c
  end.

(* a position: byte index and the bytes from there on *)
Definition pos := (Z * bytes)%type.
Definition kont := pos -> caps -> option caps.

(* one rune: (rune, position after it); None at the end of the text *)
Definition step_rune (p : pos) : option (N * pos) :=
  match snd p with
  | [] => None
  | _ => let '(r, w) := decode_rune (snd p) in
         Some (r, (fst p + Z.of_N w, skipn (N.to_nat w) (snd p)))
  end.

Fixpoint star_loop (body : pos -> caps -> kont -> option caps) (greedy : bool)
                   (fuel : nat) (p : pos) (c : caps) (k : kont) : option caps :=
  match fuel with
  | O => None
  | S f =>
    let iter := fun _ : unit =>
      body p c (fun p' c' => if fst p' =? fst p then None else star_loop body greedy f p' c' k) in
    if greedy then match iter tt with Some x => Some x | None => k p c end
    else match k p c with Some x => Some x | None => iter tt end
  end.

Fixpoint m (r : re) (fuel : nat) (p : pos) (c : caps) (k : kont) {struct r} : option caps :=
  match r with
  | REmpty => k p c
  | RNone => None
  | RLit x => match step_rune p with Some (y, p') => if N.eqb x y then k p' c else None | None => None end
  | RClass rs => match step_rune p with Some (y, p') => if in_ranges rs y then k p' c else None | None => None end
  | RAny => match step_rune p with Some (_, p') => k p' c | None => None end
  | RAnyNotNL => match step_rune p with Some (y, p') => if N.eqb y 10 then None else k p' c | None => None end
  | RBeginText => if fst p =? 0 then k p c else None
  | REndText => match snd p with [] => k p c | _ => None end
  | RCat a b => m a fuel p c (fun p' c' => m b fuel p' c' k)
  | RAlt a b => match m a fuel p c k with Some x => Some x | None => m b fuel p c k end
  | RStar g a => star_loop (m a fuel) g fuel p c k
  | RPlus g a => m a fuel p c (fun p' c' => star_loop (m a fuel) g fuel p' c' k)
  | RQuest g a =>
    if g then match m a fuel p c k with Some x => Some x | None => k p c end
    else match k p c with Some x => Some x | None => m a fuel p c k end
  | RCap n a => m a fuel p c (fun p' c' => k p' (set_cap c' n (fst p, fst p')))
  end.

(* leftmost: try every start position in order *)
Fixpoint find_from (r : re) (fuel : nat) (n : nat) (p : pos) : option caps :=
  match m r fuel p [] (fun p' c' => Some (set_cap c' 0 (fst p, fst p'))) with
  | Some x => Some x
  | None =>
    match n with
    | O => None
    | S n' =>
      match step_rune p with
      | Some (_, p') => find_from r fuel n' p'
      | None => None
      end
    end
  end.

Definition re_find (r : re) (s : bytes) : option caps :=
  find_from r (S (length s)) (length s) (0, s).
Definition re_match (r : re) (s : bytes) : bool :=
  match re_find r s with Some _ => true | None => false end.
Definition cap_at (c : caps) (n : nat) : option (Z * Z) := nth n c None.
