(* Model of /repo/text/segment.go and /repo/text/reader.go (both readers, after the fix:
   commits), transcribed method by method.  Indices are Z; every slice or index expression
   of the Go code goes through a checked accessor that yields Panic out of range. *)
Require Import GM.model.Base GM.model.Util.
From Coq Require Import ZArith.
Open Scope Z_scope.

Record seg := { s_start : Z; s_stop : Z; s_pad : Z; s_fnl : bool }.
Definition mkseg (a b : Z) : seg := {| s_start := a; s_stop := b; s_pad := 0; s_fnl := false |}.
Definition mksegp (a b p : Z) : seg := {| s_start := a; s_stop := b; s_pad := p; s_fnl := false |}.

(* source[a:b] *)
Definition slice (src : bytes) (a b : Z) : result bytes :=
  if (0 <=? a) && (a <=? b) && (b <=? zlen src)
  then Ok (firstn (Z.to_nat (b - a)) (skipn (Z.to_nat a) src))
  else Panic.
(* source[i] *)
Definition at_ (src : bytes) (i : Z) : result N :=
  if (0 <=? i) && (i <? zlen src) then Ok (nth (Z.to_nat i) src 0%N) else Panic.

Definition spaces_n (p : Z) : bytes := repeat 32%N (Z.to_nat p).

(* Segment.Value (segment.go:57) *)
Definition seg_value (src : bytes) (t : seg) : result bytes :=
  v <- slice src (s_start t) (s_stop t) ;;
  let r := if s_pad t =? 0 then v
           else if s_pad t <? 0 then v   (* bytes.Repeat panics on a negative count *)
           else spaces_n (s_pad t) ++ v in
  if (s_pad t <? 0) then Panic
  else if s_fnl t then
    match rev r with
    | [] => Ok r
    | c :: _ => if N.eqb c 10 then Ok r else Ok (r ++ [10%N])
    end
  else Ok r.

Definition seg_len (t : seg) : Z := s_stop t - s_start t + s_pad t.
Definition seg_with_start (t : seg) (v : Z) : seg := mksegp v (s_stop t) (s_pad t).
Definition seg_with_stop (t : seg) (v : Z) : seg := mksegp (s_start t) v (s_pad t).
Definition seg_between (t other : seg) : result seg :=
  if s_stop t =? s_stop other then Ok (mksegp (s_start t) (s_start other) (s_pad t - s_pad other)) else Panic.
Definition seg_is_empty (t : seg) : bool := (s_stop t <=? s_start t) && (s_pad t =? 0).

Section WithTables.
Variable space_table : list N.
Variable punct_table : list N.
Notation is_space := (is_space space_table).
Notation is_punct := (is_punct punct_table).

Fixpoint trim_left_space_len (v : bytes) : Z :=
  match v with c :: r => if is_space c then 1 + trim_left_space_len r else 0 | [] => 0 end.
Definition trim_right_space_len (v : bytes) : Z := trim_left_space_len (rev v).

Definition seg_trim_right_space (src : bytes) (t : seg) : result seg :=
  v <- slice src (s_start t) (s_stop t) ;;
  let l := trim_right_space_len v in
  if l =? zlen v then Ok (mkseg (s_start t) (s_start t)) else Ok (mksegp (s_start t) (s_stop t - l) (s_pad t)).
Definition seg_trim_left_space (src : bytes) (t : seg) : result seg :=
  v <- slice src (s_start t) (s_stop t) ;;
  Ok (mkseg (s_start t + trim_left_space_len v) (s_stop t)).

Fixpoint is_blank (v : bytes) : bool :=
  match v with c :: r => is_space c && is_blank r | [] => true end.

(* ================= reader (reader.go:97) ================= *)
Record reader := {
  r_src : bytes;
  r_line : Z;
  r_peeked : option bytes;     (* peekedLine cache; None = nil *)
  r_pos : seg;
  r_head : Z;
  r_loff : Z                   (* lineOffset cache; -1 = not computed *)
}.
Definition r_len (r : reader) : Z := zlen (r_src r).
Definition rset_pos r p := {| r_src := r_src r; r_line := r_line r; r_peeked := r_peeked r; r_pos := p; r_head := r_head r; r_loff := r_loff r |}.
Definition rset_line r l := {| r_src := r_src r; r_line := l; r_peeked := r_peeked r; r_pos := r_pos r; r_head := r_head r; r_loff := r_loff r |}.
Definition rset_peeked r v := {| r_src := r_src r; r_line := r_line r; r_peeked := v; r_pos := r_pos r; r_head := r_head r; r_loff := r_loff r |}.
Definition rset_head r v := {| r_src := r_src r; r_line := r_line r; r_peeked := r_peeked r; r_pos := r_pos r; r_head := v; r_loff := r_loff r |}.
Definition rset_loff r v := {| r_src := r_src r; r_line := r_line r; r_peeked := r_peeked r; r_pos := r_pos r; r_head := r_head r; r_loff := v |}.

(* index of the first newline at or after i (exclusive end of the line), scanning the list *)
Fixpoint line_stop (rest : bytes) (i : Z) : Z :=
  match rest with
  | [] => i
  | c :: tl => if N.eqb c 10 then i + 1 else line_stop tl (i + 1)
  end.

(* AdvanceLine (reader.go:222) *)
Definition r_advance_line (r : reader) : reader :=
  let r := rset_peeked (rset_loff r (-1)) None in
  let start := s_stop (r_pos r) in
  let r := rset_head (rset_pos r {| s_start := start; s_stop := s_stop (r_pos r); s_pad := s_pad (r_pos r); s_fnl := s_fnl (r_pos r) |}) start in
  if start <? 0 then r
  else
    let stop := if start <? r_len r then line_stop (skipn (Z.to_nat start) (r_src r)) start else r_len r in
    let r := rset_pos r {| s_start := start; s_stop := stop; s_pad := 0; s_fnl := s_fnl (r_pos r) |} in
    rset_line r (r_line r + 1).

(* NewReader / ResetPosition (reader.go:116) *)
Definition new_reader (src : bytes) : reader :=
  r_advance_line {| r_src := src; r_line := -1; r_peeked := None; r_pos := mkseg 0 0; r_head := 0; r_loff := -1 |}.
Definition r_reset_position (r : reader) : reader :=
  r_advance_line (rset_loff (rset_head (rset_line r (-1)) 0) (-1)).

Definition r_in_range (r : reader) : bool :=
  (0 <=? s_start (r_pos r)) && (s_start (r_pos r) <? r_len r).

(* Peek (reader.go:132); EOF = 255 *)
Definition r_peek (r : reader) : result N :=
  if r_in_range r then
    if negb (s_pad (r_pos r) =? 0) then Ok 32%N else at_ (r_src r) (s_start (r_pos r))
  else Ok 255%N.

(* PeekLine (reader.go:142): None = nil line *)
Definition r_peek_line (r : reader) : result (reader * option bytes * seg) :=
  if r_in_range r then
    match r_peeked r with
    | Some v => Ok (r, Some v, r_pos r)
    | None =>
      v <- seg_value (r_src r) (r_pos r) ;;
      (* a nil/empty value leaves the cache nil in Go as well (len 0 slice of make is non-nil,
         but every later use only looks at its length) *)
      Ok (rset_peeked r (Some v), Some v, r_pos r)
    end
  else Ok (r, None, r_pos r).

(* tab-expanded width of source[head:start] *)
Fixpoint col_width (v : bytes) (acc : Z) : Z :=
  match v with
  | [] => acc
  | c :: tl => if N.eqb c 9 then col_width tl (acc + (4 - acc mod 4)) else col_width tl (acc + 1)
  end.

(* LineOffset (reader.go:160) *)
Definition r_line_offset (r : reader) : result (reader * Z) :=
  if r_loff r <? 0 then
    (* for i := head; i < pos.Start; i++ { source[i] } *)
    if r_head r <? s_start (r_pos r) then
      v <- slice (r_src r) (r_head r) (s_start (r_pos r)) ;;
      let o := col_width v 0 - s_pad (r_pos r) in
      Ok (rset_loff r o, o)
    else
      let o := 0 - s_pad (r_pos r) in Ok (rset_loff r o, o)
  else Ok (r, r_loff r).

(* Advance (reader.go:194) *)
Fixpoint r_advance_slow (fuel : nat) (r : reader) (n : Z) : result reader :=
  match fuel with
  | O => OutOfFuel
  | S f =>
    if (0 <? n) && (s_start (r_pos r) <? r_len r) then
      if negb (s_pad (r_pos r) =? 0) then
        r_advance_slow f (rset_pos r {| s_start := s_start (r_pos r); s_stop := s_stop (r_pos r); s_pad := s_pad (r_pos r) - 1; s_fnl := s_fnl (r_pos r) |}) (n - 1)
      else
        c <- at_ (r_src r) (s_start (r_pos r)) ;;
        if N.eqb c 10 then r_advance_slow f (r_advance_line r) (n - 1)
        else r_advance_slow f (rset_pos r {| s_start := s_start (r_pos r) + 1; s_stop := s_stop (r_pos r); s_pad := s_pad (r_pos r); s_fnl := s_fnl (r_pos r) |}) (n - 1)
    else Ok r
  end.

Definition r_advance (r : reader) (n : Z) : result reader :=
  let r := rset_loff r (-1) in
  let plen := match r_peeked r with Some v => zlen v | None => 0 end in
  if (n <? plen) && (s_pad (r_pos r) =? 0) then
    Ok (rset_peeked (rset_pos r {| s_start := s_start (r_pos r) + n; s_stop := s_stop (r_pos r); s_pad := s_pad (r_pos r); s_fnl := s_fnl (r_pos r) |}) None)
  else
    r_advance_slow (Z.to_nat n + 1) (rset_peeked r None) n.

(* SetPadding / SetPosition (after the fix) *)
Definition r_set_padding (r : reader) (v : Z) : reader :=
  let r := rset_peeked (rset_loff r (-1)) None in
  rset_pos r {| s_start := s_start (r_pos r); s_stop := s_stop (r_pos r); s_pad := v; s_fnl := s_fnl (r_pos r) |}.

(* scan back from `head` while source[head-1] != '\n' *)
Fixpoint back_to_line_head (fuel : nat) (src : bytes) (head : Z) : result Z :=
  match fuel with
  | O => OutOfFuel
  | S f =>
    if 0 <? head then
      c <- at_ src (head - 1) ;;
      if N.eqb c 10 then Ok head else back_to_line_head f src (head - 1)
    else Ok head
  end.

Definition r_set_position (r : reader) (line : Z) (pos : seg) : result reader :=
  let r := rset_peeked (rset_loff r (-1)) None in
  r <- (if negb (line =? r_line r) then
          let head := if r_len r <? s_start pos then r_len r else s_start pos in
          h <- back_to_line_head (Z.to_nat head + 1) (r_src r) head ;;
          Ok (if 0 <=? h then rset_head r h else r)
        else Ok r) ;;
  Ok (rset_pos (rset_line r line) pos).

Definition r_advance_and_set_padding (r : reader) (n p : Z) : result reader :=
  r <- r_advance r n ;;
  if s_pad (r_pos r) <? p then Ok (r_set_padding r p) else Ok r.

(* PrecendingCharacter (reader.go:175): the rune before the position *)
Definition r_preceding (r : reader) : result N :=
  if s_start (r_pos r) <=? 0 then
    if negb (s_pad (r_pos r) =? 0) then Ok 32%N else Ok 10%N
  else
    if zlen (r_src r) <? s_start (r_pos r) then Panic
    else
    match rune_start_before (rev (firstn (Z.to_nat (s_start (r_pos r))) (r_src r)))
                            (skipn (Z.to_nat (s_start (r_pos r))) (r_src r)) with
    | None => Ok 10%N                      (* only continuation bytes precede (after the fix) *)
    | Some tail => Ok (fst (decode_rune tail))
    end.

(* ================= generic helpers over a reader interface ================= *)
(* The three helpers skipSpacesReader, skipBlankLinesReader, findClosureReader and
   readRuneReader are written against the Reader interface; they are instantiated for both
   readers below through this record of operations. *)
Section Generic.
Variable R : Type.
Variable peek_line : R -> result (R * option bytes * seg).
Variable advance : R -> Z -> result R.
Variable advance_line : R -> result R.
Variable position : R -> Z * seg.
Variable set_position : R -> Z -> seg -> result R.

(* skipBlankLinesReader (reader.go:505) *)
Fixpoint skip_blank_lines (fuel : nat) (r : R) (lines : Z) : result (R * seg * Z * bool) :=
  match fuel with
  | O => OutOfFuel
  | S f =>
    x <- peek_line r ;;
    let '(r, line, sg) := x in
    match line with
    | None => Ok (r, sg, lines, false)
    | Some l =>
      if is_blank l then (r <- advance_line r ;; skip_blank_lines f r (lines + 1))
      else Ok (r, sg, lines, true)
    end
  end.

(* skipSpacesReader (reader.go:521): note that the inner range loop iterates over the line
   peeked at the start of the outer iteration while the reader advances *)
Fixpoint skip_spaces_inner (line : bytes) (i : Z) (r : R) (chars : Z) (sg : seg)
  : result (R * option (seg * Z)) :=
  match line with
  | [] => Ok (r, None)
  | c :: tl =>
    if is_space c then (r <- advance r 1 ;; skip_spaces_inner tl (i + 1) r (chars + 1) sg)
    else Ok (r, Some (seg_with_start sg (s_start sg + i + 1), chars))
  end.
Fixpoint count_spaces (line : bytes) : Z :=
  match line with c :: tl => if is_space c then 1 + count_spaces tl else 0 | [] => 0 end.

Fixpoint skip_spaces (fuel : nat) (r : R) (chars : Z) : result (R * seg * Z * bool) :=
  match fuel with
  | O => OutOfFuel
  | S f =>
    x <- peek_line r ;;
    let '(r, line, sg) := x in
    match line with
    | None => Ok (r, sg, chars, false)
    | Some l =>
      y <- skip_spaces_inner l 0 r chars sg ;;
      match y with
      | (r, Some (sg', ch)) => Ok (r, sg', ch, true)
      | (r, None) => skip_spaces f r (chars + count_spaces l)
      end
    end
  end.

(* readRuneReader (reader.go:588): (rune, size, eof) *)
Definition read_rune (r : R) : result (R * N * Z * bool) :=
  x <- peek_line r ;;
  let '(r, line, _) := x in
  match line with
  | None => Ok (r, 0%N, 0, true)
  | Some l =>
    let '(rn, w) := decode_rune l in
    if N.eqb rn 65533 then Ok (r, 0%N, 0, true)
    else (r <- advance r (Z.of_N w) ;; Ok (r, rn, Z.of_N w, false))
  end.

(* findClosureReader (reader.go:600) *)
Record fc_opts := { o_codespan : bool; o_nesting : bool; o_newline : bool; o_advance : bool }.

(* count the run of back-ticks starting at bs[i]; returns (count, index of the last back-tick
   of the run) - the Go loop leaves i on the last back-tick, or at len(bs) if the run reaches
   the end of the line *)
Fixpoint tick_run (bs : bytes) (i : Z) (count : Z) : Z * Z :=
  match bs with
  | [] => (count, i)
  | c :: tl => if N.eqb c 96 then tick_run tl (i + 1) (count + 1) else (count, i - 1)
  end.

Inductive fc_line_result :=
| FcClosed (i : Z)            (* closer found at index i of the line *)
| FcAbort                     (* an opener while nesting is off *)
| FcEol (opened cs_opener : Z).

(* scan one line from index i; `bs` is the remainder of the line starting at i *)
Fixpoint fc_scan (fuel : nat) (opts : fc_opts) (opener closer : N) (bs : bytes) (i : Z)
                 (opened cso : Z) : result fc_line_result :=
  match fuel with
  | O => OutOfFuel
  | S f =>
    match bs with
    | [] => Ok (FcEol opened cso)
    | c :: tl =>
      if o_codespan opts && negb (cso =? 0) && N.eqb c 96 then
        let '(cnt, j) := tick_run bs i 0 in
        let cso := if cnt =? cso then 0 else cso in
        (* i is left on the last back-tick (or len(bs)); then i++ *)
        fc_scan f opts opener closer (skipn (Z.to_nat (j + 1 - i)) bs) (j + 1) opened cso
      else if (cso =? 0) && N.eqb c 92 &&
              match tl with d :: _ => is_punct d | [] => false end then
        fc_scan f opts opener closer (skipn 2 bs) (i + 2) opened cso
      else if o_codespan opts && (cso =? 0) && N.eqb c 96 then
        let '(cnt, j) := tick_run bs i 0 in
        fc_scan f opts opener closer (skipn (Z.to_nat (j + 1 - i)) bs) (j + 1) opened cnt
      else if (o_codespan opts && (cso =? 0)) || negb (o_codespan opts) then
        if N.eqb c closer then
          if opened - 1 =? 0 then Ok (FcClosed i)
          else fc_scan f opts opener closer tl (i + 1) (opened - 1) cso
        else if N.eqb c opener then
          if negb (o_nesting opts) then Ok FcAbort
          else fc_scan f opts opener closer tl (i + 1) (opened + 1) cso
        else fc_scan f opts opener closer tl (i + 1) opened cso
      else fc_scan f opts opener closer tl (i + 1) opened cso
    end
  end.

Fixpoint fc_lines (fuel : nat) (opts : fc_opts) (opener closer : N) (r : R) (opened cso : Z)
                  (ret : list seg) : result (R * option (list seg)) :=
  match fuel with
  | O => OutOfFuel
  | S f =>
    x <- peek_line r ;;
    let '(r, line, sg) := x in
    match line with
    | None => Ok (r, None)
    | Some bs =>
      s <- fc_scan (S (length bs)) opts opener closer bs 0 opened cso ;;
      match s with
      | FcClosed i =>
        r <- advance r (i + 1) ;;
        Ok (r, Some (ret ++ [seg_with_stop sg (s_start sg + i)]))
      | FcAbort => Ok (r, None)
      | FcEol opened cso =>
        if negb (o_newline opts) then Ok (r, None)
        else (r <- advance_line r ;; fc_lines f opts opener closer r opened cso (ret ++ [sg]))
      end
    end
  end.

Definition find_closure (fuel : nat) (r : R) (opener closer : N) (opts : fc_opts)
  : result (R * option (list seg)) :=
  let '(ol, op) := position r in
  x <- fc_lines fuel opts opener closer r 1 0 [] ;;
  let '(r, res) := x in
  r <- (if negb (o_advance opts) then set_position r ol op else Ok r) ;;
  Ok (r, res).

End Generic.

(* ---- the plain reader as an instance ---- *)
Definition r_position (r : reader) : Z * seg := (r_line r, r_pos r).
Definition r_advance_line_res (r : reader) : result reader := Ok (r_advance_line r).
Definition r_skip_blank_lines fuel r := skip_blank_lines reader r_peek_line r_advance_line_res fuel r 0.
Definition r_skip_spaces fuel r := skip_spaces reader r_peek_line r_advance fuel r 0.
Definition r_read_rune r := read_rune reader r_peek_line r_advance r.
Definition r_find_closure fuel r o c opts :=
  find_closure reader r_peek_line r_advance r_advance_line_res r_position r_set_position fuel r o c opts.
Definition r_value (r : reader) (t : seg) : result bytes := seg_value (r_src r) t.

(* ================= blockReader (reader.go:300) ================= *)
Record breader := {
  b_src : bytes;
  b_segs : list seg;
  b_line : Z;
  b_pos : seg;
  b_head : Z;
  b_last : Z;
  b_loff : Z
}.
Definition b_nsegs (r : breader) : Z := zlen (b_segs r).
Definition bset_pos r p := {| b_src := b_src r; b_segs := b_segs r; b_line := b_line r; b_pos := p; b_head := b_head r; b_last := b_last r; b_loff := b_loff r |}.
Definition bset_line r v := {| b_src := b_src r; b_segs := b_segs r; b_line := v; b_pos := b_pos r; b_head := b_head r; b_last := b_last r; b_loff := b_loff r |}.
Definition bset_head r v := {| b_src := b_src r; b_segs := b_segs r; b_line := b_line r; b_pos := b_pos r; b_head := v; b_last := b_last r; b_loff := b_loff r |}.
Definition bset_loff r v := {| b_src := b_src r; b_segs := b_segs r; b_line := b_line r; b_pos := b_pos r; b_head := b_head r; b_last := b_last r; b_loff := v |}.
Definition bset_last r v := {| b_src := b_src r; b_segs := b_segs r; b_line := b_line r; b_pos := b_pos r; b_head := b_head r; b_last := v; b_loff := b_loff r |}.

(* segments.At(i) *)
Definition seg_at (l : list seg) (i : Z) : result seg :=
  if (0 <=? i) && (i <? zlen l) then
    match nth_error l (Z.to_nat i) with Some s => Ok s | None => Panic end
  else Panic.

(* SetPosition (reader.go:457) *)
Definition b_set_position (r : breader) (line : Z) (pos : seg) : result breader :=
  let r := bset_line (bset_loff r (-1)) line in
  if s_start pos =? -1 then
    if line <? b_nsegs r then
      s <- seg_at (b_segs r) line ;;
      Ok (bset_pos (bset_head r (s_start s)) s)
    else Ok r
  else
    let r := bset_pos r pos in
    if line <? b_nsegs r then
      s <- seg_at (b_segs r) line ;;
      Ok (bset_head r (s_start s))
    else Ok r.

(* AdvanceLine (reader.go:449) *)
Definition b_advance_line (r : breader) : result breader :=
  r <- b_set_position r (b_line r + 1) (mkseg (-1) (-1)) ;;
  Ok (bset_head r (s_start (b_pos r))).

(* ResetPosition / Reset / NewBlockReader *)
Definition b_reset_position (r : breader) : result breader :=
  let r := bset_loff (bset_last (bset_head (bset_line r (-1)) 0) 0) (-1) in
  let r := bset_pos r {| s_start := -1; s_stop := -1; s_pad := 0; s_fnl := s_fnl (b_pos r) |} in
  r <- (if 0 <? b_nsegs r then (l <- seg_at (b_segs r) (b_nsegs r - 1) ;; Ok (bset_last r (s_stop l))) else Ok r) ;;
  b_advance_line r.
Definition new_block_reader (src : bytes) (segs : list seg) : result breader :=
  b_reset_position {| b_src := src; b_segs := segs; b_line := 0; b_pos := mkseg 0 0; b_head := 0; b_last := 0; b_loff := 0 |}.

Definition b_in_range (r : breader) : bool :=
  (b_line r <? b_nsegs r) && (0 <=? s_start (b_pos r)) && (s_start (b_pos r) <? b_last r).

Definition b_peek (r : breader) : result N :=
  if b_in_range r then
    if negb (s_pad (b_pos r) =? 0) then Ok 32%N else at_ (b_src r) (s_start (b_pos r))
  else Ok 255%N.

Definition b_peek_line (r : breader) : result (breader * option bytes * seg) :=
  if b_in_range r then (v <- seg_value (b_src r) (b_pos r) ;; Ok (r, Some v, b_pos r))
  else Ok (r, None, b_pos r).

Definition b_line_offset (r : breader) : result (breader * Z) :=
  if b_loff r <? 0 then
    if b_head r <? s_start (b_pos r) then
      v <- slice (b_src r) (b_head r) (s_start (b_pos r)) ;;
      let o := col_width v 0 - s_pad (b_pos r) in Ok (bset_loff r o, o)
    else let o := 0 - s_pad (b_pos r) in Ok (bset_loff r o, o)
  else Ok (r, b_loff r).

(* Advance (reader.go:427) *)
Fixpoint b_advance_slow (fuel : nat) (r : breader) (n : Z) : result breader :=
  match fuel with
  | O => OutOfFuel
  | S f =>
    if 0 <? n then
      if negb (s_pad (b_pos r) =? 0) then
        b_advance_slow f (bset_pos r {| s_start := s_start (b_pos r); s_stop := s_stop (b_pos r); s_pad := s_pad (b_pos r) - 1; s_fnl := s_fnl (b_pos r) |}) (n - 1)
      else if (s_stop (b_pos r) - 1 <=? s_start (b_pos r)) && (s_stop (b_pos r) <? b_last r) then
        (r <- b_advance_line r ;; b_advance_slow f r (n - 1))
      else
        b_advance_slow f (bset_pos r {| s_start := s_start (b_pos r) + 1; s_stop := s_stop (b_pos r); s_pad := s_pad (b_pos r); s_fnl := s_fnl (b_pos r) |}) (n - 1)
    else Ok r
  end.
Definition b_advance (r : breader) (n : Z) : result breader :=
  let r := bset_loff r (-1) in
  if (n <? s_stop (b_pos r) - s_start (b_pos r)) && (s_pad (b_pos r) =? 0) then
    Ok (bset_pos r {| s_start := s_start (b_pos r) + n; s_stop := s_stop (b_pos r); s_pad := s_pad (b_pos r); s_fnl := s_fnl (b_pos r) |})
  else b_advance_slow (Z.to_nat n + 1) r n.

Definition b_set_padding (r : breader) (v : Z) : breader :=
  let r := bset_loff r (-1) in
  bset_pos r {| s_start := s_start (b_pos r); s_stop := s_stop (b_pos r); s_pad := v; s_fnl := s_fnl (b_pos r) |}.
Definition b_advance_and_set_padding (r : breader) (n p : Z) : result breader :=
  r <- b_advance r n ;;
  if s_pad (b_pos r) <? p then Ok (b_set_padding r p) else Ok r.

(* Value (reader.go:332, after the fix) *)
Fixpoint b_value_find_line (fuel : nat) (segs : list seg) (line : Z) (start : Z) : result Z :=
  (* for ; line >= 0; line-- { if seg.Start >= segments.At(line).Start { break } } *)
  match fuel with
  | O => OutOfFuel
  | S f =>
    if 0 <=? line then
      s <- seg_at segs line ;;
      if s_start s <=? start then Ok line else b_value_find_line f segs (line - 1) start
    else Ok line
  end.
Definition pad_bytes (t : seg) : bytes := if 0 <? s_pad t then spaces_n (s_pad t) else [].
(* bytes source[i..min(seg.Stop, s.Stop)) *)
Definition copy_range (src : bytes) (i stop1 stop2 : Z) : result bytes :=
  let e := Z.min stop1 stop2 in
  if i <? e then slice src i e else Ok [].
Fixpoint b_value_loop (fuel : nat) (r : breader) (sg : seg) (line : Z) (i : Z) (acc : bytes) : result bytes :=
  match fuel with
  | O => OutOfFuel
  | S f =>
    if line <? b_nsegs r then
      s <- seg_at (b_segs r) line ;;
      let '(i, acc) := if i <? 0 then (s_start s, acc ++ pad_bytes s) else (i, acc ++ pad_bytes sg) in
      v <- copy_range (b_src r) i (s_stop sg) (s_stop s) ;;
      let acc := acc ++ v in
      if s_stop sg <=? s_stop s then Ok acc
      else b_value_loop f r sg (line + 1) (-1) acc
    else Ok acc
  end.
Definition b_value (r : breader) (sg : seg) : result bytes :=
  if s_stop sg - s_start sg + 1 <? 0 then Panic     (* make([]byte, 0, negative) *)
  else
  line <- b_value_find_line (length (b_segs r) + 1) (b_segs r) (b_nsegs r - 1) (s_start sg) ;;
  (* the loop starts with i = seg.Start, which the Go code distinguishes from the marker -1 *)
  if s_start sg <? 0 then
    (* i < 0 on the first line as well: treated like a following line *)
    b_value_loop (length (b_segs r) + 1) r sg line (-1) []
  else if line <? 0 then
    (if 0 <? b_nsegs r then Panic else Ok [])       (* segments.At(-1) *)
  else b_value_loop (length (b_segs r) + 1) r sg line (s_start sg) [].

(* PrecendingCharacter (reader.go:361) *)
Definition b_preceding (r : breader) : result N :=
  if negb (s_pad (b_pos r) =? 0) then Ok 32%N
  else if b_nsegs r <? 1 then Ok 10%N
  else
    first <- seg_at (b_segs r) 0 ;;
    if (b_line r =? 0) && (s_start (b_pos r) <=? s_start first) then Ok 10%N
    else
    (* after the fix: at the head of a following line, the last rune of the previous line *)
    cur <- (if (0 <? b_line r) && (b_line r <? b_nsegs r) then seg_at (b_segs r) (b_line r) else Ok first) ;;
    if (0 <? b_line r) && (b_line r <? b_nsegs r) && (s_start (b_pos r) <=? s_start cur) then
      prev <- seg_at (b_segs r) (b_line r - 1) ;;
      if (s_start prev <? s_stop prev) && (s_stop prev <=? zlen (b_src r)) then
        if s_start prev <? 0 then Panic
        else
        let v := firstn (Z.to_nat (s_stop prev - s_start prev)) (skipn (Z.to_nat (s_start prev)) (b_src r)) in
        Ok (decode_last_rune v)
      else Ok 10%N
    else
      let l := zlen (b_src r) in
      let i0 := s_start (b_pos r) - 1 in
      (* for ; i < l && i >= 0; i-- { if RuneStart(source[i]) break } *)
      if (i0 <? 0) || (l <=? i0) then Ok 10%N
      else
        match rune_start_before (rev (firstn (Z.to_nat (i0 + 1)) (b_src r)))
                                (skipn (Z.to_nat (i0 + 1)) (b_src r)) with
        | None => Ok 10%N
        | Some tail => Ok (fst (decode_rune tail))
        end.

Definition b_position (r : breader) : Z * seg := (b_line r, b_pos r).
Definition b_skip_blank_lines fuel r := skip_blank_lines breader b_peek_line b_advance_line fuel r 0.
Definition b_skip_spaces fuel r := skip_spaces breader b_peek_line b_advance fuel r 0.
Definition b_read_rune r := read_rune breader b_peek_line b_advance r.
Definition b_find_closure fuel r o c opts :=
  find_closure breader b_peek_line b_advance b_advance_line b_position b_set_position fuel r o c opts.

End WithTables.
