(* The parser model with its output checked: ParseTreeC yields a tree only if the tree is well
   formed (HtmlSpec.wf_tree), and Panic otherwise.  The theorems about the renderer then hold
   for the composed pipeline without a hypothesis; the correspondence runs (case kind Convert)
   compare ConvertModelC with goldmark.Convert, so a tree that fails the check shows up as a
   disagreement.  proofs/ParseBlocksRange.v and ParseInlineRange.v prove that the check never
   fails (ParseTree_wf), which makes ParseTreeC and ParseTree equal on byte strings. *)
Require Import GM.model.Base GM.model.Util GM.model.Reader GM.model.HtmlWriter GM.model.Html GM.model.HtmlSpec GM.model.HtmlI GM.model.ParseI.

Definition ParseTreeC (src : bytes) : result tree :=
  t <- ParseTree src ;; if wf_tree src t then Ok t else Panic.
Definition ConvertModelC (cfg : rcfg) (src : bytes) : result bytes :=
  t <- ParseTreeC src ;; RenderHTML cfg src t.
