package main

import (
	"bytes"
	"fmt"

	"github.com/yuin/goldmark"
	"github.com/yuin/goldmark/extension"
)

func main() {
	for _, src := range []string{"[^a]: [^b]: x\n\nt[^a] u[^b]\n", "[^a]: o\n\n    [^b]: x\n\nt[^a] u[^b]\n", "t[^b]\n\n[^a]: > [^b]: x\n"} {
		var b bytes.Buffer
		goldmark.New(goldmark.WithExtensions(extension.Footnote)).Convert([]byte(src), &b)
		fmt.Printf("%q\n -> %q\n", src, b.String())
	}
}
