package main

import (
	"bytes"
	"fmt"
	"strings"
	"time"

	"github.com/yuin/goldmark"
	"github.com/yuin/goldmark/extension"
	"github.com/yuin/goldmark/parser"
)

func main() {
	md := goldmark.New(goldmark.WithExtensions(extension.GFM), goldmark.WithParserOptions(parser.WithAutoHeadingID(), parser.WithAttribute()))
	for _, n := range []int{1024, 2048, 4099} {
		src := []byte(strings.Repeat("# h\n\n", n))
		t0 := time.Now()
		var b bytes.Buffer
		md.Convert(src, &b)
		fmt.Println(n, time.Since(t0))
	}
}
