package main

import (
	"bytes"
	"fmt"

	"github.com/yuin/goldmark"
	"github.com/yuin/goldmark/parser"
)

func main() {
	a := goldmark.New()
	var b bytes.Buffer
	a.Convert([]byte("# Title\n"), &b)
	fmt.Printf("%q\n", b.String())
	x := goldmark.New(goldmark.WithParserOptions(parser.WithAutoHeadingID()))
	b.Reset()
	x.Convert([]byte("# Title\n"), &b)
	fmt.Printf("%q\n", b.String())
	b.Reset()
	goldmark.New().Convert([]byte("# Title\n"), &b)
	fmt.Printf("%q\n", b.String())
}
