package main

import (
	"bytes"
	"fmt"

	"github.com/yuin/goldmark"
	"github.com/yuin/goldmark/extension"
)

func main() {
	for _, src := range []string{"漢字 \n漢字", "漢字\n漢字", "a \nb", "漢字 \n*漢字*", "漢 字 \n漢字"} {
		for _, ex := range [][]goldmark.Extender{{extension.CJK}, {extension.CJK, extension.Linkify}, {extension.Linkify, extension.CJK}} {
			var b bytes.Buffer
			goldmark.New(goldmark.WithExtensions(ex...)).Convert([]byte(src), &b)
			fmt.Printf("%q %d -> %q\n", src, len(ex), b.String())
		}
	}
}
