package main

// Correspondence cases for the parser model (coq/model/BlockParse.v, InlineParse.v): the
// default CommonMark parser of goldmark is run on a document and its tree is dumped in the
// format ocaml/dispatch2.ml prints the model's tree in.

import (
	"bytes"
	"fmt"
	"sort"
	"strings"

	"github.com/yuin/goldmark"
	"github.com/yuin/goldmark/ast"
	"github.com/yuin/goldmark/parser"
	"github.com/yuin/goldmark/renderer"
	"github.com/yuin/goldmark/renderer/html"
	"github.com/yuin/goldmark/text"
	"github.com/yuin/goldmark/util"
)

// the block skeleton of a parsed tree: inline nodes are left out
func dumpBlocks(root ast.Node, src []byte) string {
	var nodes []string
	var rec func(n ast.Node, depth int)
	rec = func(n ast.Node, depth int) {
		if n.Type() == ast.TypeInline {
			return
		}
		kind := n.Kind().String()
		fields := "-"
		switch v := n.(type) {
		case *ast.Heading:
			fields = itoa(v.Level)
		case *ast.FencedCodeBlock:
			fields = optHex(v.Language(src))
		case *ast.HTMLBlock:
			if v.HasClosure() {
				fields = segS(v.ClosureLine)
			} else {
				fields = "n"
			}
		case *ast.List:
			fields = btoa(v.IsOrdered()) + ":" + itoa(v.Start)
		}
		lines := "-"
		if ls := n.Lines(); ls != nil && ls.Len() > 0 {
			var ss []string
			for i := 0; i < ls.Len(); i++ {
				ss = append(ss, segS(ls.At(i)))
			}
			lines = strings.Join(ss, ",")
		}
		nodes = append(nodes, fmt.Sprintf("%d|%s|%s|%s|N", depth, kind, fields, lines))
		for c := n.FirstChild(); c != nil; c = c.NextSibling() {
			rec(c, depth+1)
		}
	}
	rec(root, 0)
	return strings.Join(nodes, "~")
}

func dumpRefs(pc parser.Context) string {
	var out []string
	for _, r := range pc.References() {
		// the key under which the context stores the reference is ToLinkReference(label)
		out = append(out, hx([]byte(util.ToLinkReference(r.Label())))+"="+hx(r.Destination())+":"+optHex(r.Title()))
	}
	sort.Strings(out)
	return strings.Join(out, ";")
}

var coreMD = goldmark.New()

func parseBlocksCase(c *Ctx, src []byte) {
	if len(src) > 600 {
		return
	}
	res := ""
	func() {
		defer func() {
			if r := recover(); r != nil {
				res = "PANIC"
			}
		}()
		pc := parser.NewContext()
		doc := coreMD.Parser().Parse(text.NewReader(src), parser.WithContext(pc))
		res = dumpBlocks(doc, src) + "#" + dumpRefs(pc)
	}()
	c.Case("ParseBlocks", []string{hx(src)}, res)
}

func parseTreeCase(c *Ctx, src []byte) {
	if len(src) > 600 {
		return
	}
	res := ""
	func() {
		defer func() {
			if r := recover(); r != nil {
				res = "PANIC"
			}
		}()
		doc := coreMD.Parser().Parse(text.NewReader(src))
		res, _ = dumpTree(doc, src)
	}()
	c.Case("ParseTree", []string{hx(src)}, res)
}

// Convert of the default parser with the four renderer options, against the composed model
// (ParseTree then RenderHTML)
var convertMDs = map[string]goldmark.Markdown{}

func convertCase(c *Ctx, cf Cfg, src []byte) { convertCaseK(c, "Convert", cf, src) }

// the same with parser.WithAutoHeadingID(), against ConvertModelA (model/HeadingIds.v)
func convertAutoIDCase(c *Ctx, cf Cfg, src []byte) { convertCaseK(c, "ConvertA", cf, src) }

func convertCaseK(c *Ctx, kind string, cf Cfg, src []byte) {
	if len(src) > 600 {
		return
	}
	key := kind + rcfgStr(cf)
	md, ok := convertMDs[key]
	if !ok {
		var ro []renderer.Option
		if cf.Unsafe {
			ro = append(ro, html.WithUnsafe())
		}
		if cf.XHTML {
			ro = append(ro, html.WithXHTML())
		}
		if cf.HardWraps {
			ro = append(ro, html.WithHardWraps())
		}
		if kind == "ConvertA" {
			md = goldmark.New(goldmark.WithRendererOptions(ro...), goldmark.WithParserOptions(parser.WithAutoHeadingID()))
		} else {
			md = goldmark.New(goldmark.WithRendererOptions(ro...))
		}
		convertMDs[key] = md
	}
	res := ""
	func() {
		defer func() {
			if r := recover(); r != nil {
				res = "PANIC"
			}
		}()
		var b bytes.Buffer
		if err := md.Convert(src, &b); err != nil {
			res = "ERR"
			return
		}
		res = hx(b.Bytes())
	}()
	c.Case(kind, []string{rcfgStr(cf), hx(src)}, res)
}

var convertCfgs = []Cfg{{}, {Unsafe: true}, {XHTML: true}, {Unsafe: true, XHTML: true}, {HardWraps: true}, {Unsafe: true, XHTML: true, HardWraps: true}}

// parserModelCases: the documents of a run (each once, up to max) against the parser model and
// the composed Convert model
// roundRobin orders the documents so that every stream gets its share of a capped number of
// cases: the first of every stream, then the second of every stream, ...
func roundRobin(items []docItem) []docItem {
	var order []string
	by := map[string][]docItem{}
	for _, it := range items {
		if _, ok := by[it.stream]; !ok {
			order = append(order, it.stream)
		}
		by[it.stream] = append(by[it.stream], it)
	}
	out := make([]docItem, 0, len(items))
	for k := 0; len(out) < len(items); k++ {
		for _, s := range order {
			if k < len(by[s]) {
				out = append(out, by[s][k])
			}
		}
	}
	return out
}

func parserModelCases(c *Ctx, items []docItem, max int) {
	seen := map[string]bool{}
	n := 0
	items = roundRobin(items)
	for i, it := range items {
		if n >= max {
			break
		}
		if len(it.doc) > 600 || seen[string(it.doc)] {
			continue
		}
		seen[string(it.doc)] = true
		n++
		parseTreeCase(c, it.doc)
		convertCase(c, convertCfgs[i%len(convertCfgs)], it.doc)
	}
	c.Rep.Extra["parser_model_documents"] = n
}

// experiment runner: parser-model cases only
func init() {
	runners["PX"] = func(c *Ctx) {
		n := 3000
		if !c.Quick() {
			n = 40000
		}
		regexCases(c, n)
		attrCases(c, n)
		for _, e := range loadSpec() {
			parseBlocksCase(c, []byte(e.Markdown))
			parseTreeCase(c, []byte(e.Markdown))
		}
		docStreams(c, docOpts{blockLines: 2, randLines: n, corpus: true, random: n, mutants: n / 4}, func(stream string, doc []byte) {
			parseBlocksCase(c, doc)
			parseTreeCase(c, doc)
		})
	}
}
