package main

import (
	"fmt"
	"strings"

	"github.com/yuin/goldmark/ast"
	"github.com/yuin/goldmark/parser"
)

func init() { runners["C15"] = runC15 }

var c15Values = []string{"a", "a", "a-1", "a-1-1", "a-2", "A", " a ", "a b", "a_b", "a-b", "", "   ", "!!!", "あ", "é", "heading", "heading-1", "id", "1", "-", "--", "x\x80y", "x\xe3y", "\xff",
	strings.Repeat("long-heading-text-", 5), strings.Repeat("z", 70), "b", "b", "B", "\tb\n", "c d e", "C D E", "c-d-e",
	// numbered and prefixed headings: the same slug behind different digit / hyphen / punctuation prefixes
	"1 a", "2 a", "1. a", "-a", "1-a", "a 1", "1 heading", "2. heading", "2024 b", "10 b", "b 10", "b-10", "1 1", "1-1", "-1", "_a", "a_", "*a*", "`a`", "[a](u)", "a&amp;b", "a&b", "&#97;", "\\a", "a\\-1", "<b>a</b>", "a<!--x-->", "ａ", "a\u00a0b", "a\u3000b", "İ", "ǅ", "ß", "SS", "ss",
	// attribute-like text (the attribute syntax is not enabled in these configurations)
	"x {#notes}", "y {#notes}", "{#notes}", "z {.c}", "w {#notes .c k=v}", "v {#a} {#b}"}

func headingIDs(out []byte) (ids []string, missing int, errs []string) {
	toks, errs := scanHTML(out)
	for _, t := range toks {
		if t.kind == 's' && len(t.name) == 2 && t.name[0] == 'h' && t.name[1] >= '1' && t.name[1] <= '6' {
			if v, ok := t.attr("id"); ok {
				ids = append(ids, v)
			} else {
				missing++
			}
		}
	}
	return
}

func runC15(c *Ctx) {
	c.Rep.Rule = "a case is an IDs call sequence, or (configuration, history, document); distinct by hash; non-trivial = at least 2 headings whose slugs collide or are empty"
	// ---- part 1: IDs call sequences through the public context API ----
	n := 4000
	if !c.Quick() {
		n = 80000
	}
	for i := 0; i < n; i++ {
		ids := parser.NewContext().IDs()
		nOps := 1 + c.R.Intn(10)
		var ops, obs []string
		seen := map[string]int{}
		coll := 0
		for o := 0; o < nOps; o++ {
			v := []byte(c.R.PickS(c15Values))
			if c.R.Intn(8) == 0 {
				ids.Put(v)
				ops = append(ops, "p"+hx(v))
				obs = append(obs, "")
				seen[string(v)]++
				continue
			}
			kind := ast.KindHeading
			kh := "1"
			if c.R.Intn(5) == 0 {
				kind = ast.KindParagraph
				kh = "0"
			}
			in := append([]byte(nil), v...)
			r := ids.Generate(in, kind)
			ops = append(ops, "g"+kh+hx(v))
			obs = append(obs, hx(r))
			if len(r) == 0 {
				c.Violate("ids-empty", map[string]string{"ops": strings.Join(ops, " ")}, "Generate returned an empty id", "ids-empty")
			}
			if seen[string(r)] > 0 {
				coll++
				c.Violate("ids-duplicate", map[string]string{"ops": strings.Join(ops, " ")}, fmt.Sprintf("Generate returned %q which is already taken", r), "ids-duplicate")
			}
			seen[string(r)]++
		}
		sc := strings.Join(ops, " ")
		c.Case("IdsProg", []string{sc}, strings.Join(obs, "|"))
		c.Count("ids-sequences", sc, nOps >= 3)
		if i < 3 {
			c.Sample(map[string]string{"ids_ops": sc})
		}
	}
	// ---- part 2: documents with automatic heading ids ----
	mkHeading := func(v string) string {
		v = strings.ReplaceAll(strings.ReplaceAll(v, "\n", " "), "\r", " ")
		switch c.R.Intn(5) {
		case 0:
			if strings.TrimSpace(v) != "" {
				return v + "\n===\n\n"
			}
			return "# " + v + "\n\n"
		case 1:
			return "> ## " + v + "\n\n"
		case 2:
			return "- ### " + v + "\n\n"
		case 3:
			return "###### " + v + " ######\n\n"
		default:
			return "# " + v + "\n\n"
		}
	}
	cfgs := []Cfg{{Ext: "core", AutoID: true}, {Ext: "gfm", AutoID: true, XHTML: true}, {Ext: "all", AutoID: true},
		{Ext: "core", AutoID: true, XHTML: true}, {Ext: "core", AutoID: true, Unsafe: true, HardWraps: true}, {Ext: "all", AutoID: true, XHTML: true, Unsafe: true},
		{Ext: "typo", AutoID: true}, {Ext: "cjk", AutoID: true, XHTML: true, HardWraps: true}, {Ext: "footnote", AutoID: true, XHTML: true}}
	nd := 1500
	if !c.Quick() {
		nd = 30000
	}
	corp := corpusDocs()
	var hoptItems []docItem
	// long slugs: headings that agree on their first L bytes, for L around every power of two (a
	// limit or a truncation on ids applied before or after the id table made them unique), and
	// slugs that already end in the suffix the table would add
	var longDocs [][]byte
	for _, L := range []int{15, 16, 17, 31, 32, 33, 63, 64, 65, 100, 127, 128, 129, 130, 200, 255, 256, 257, 258, 511, 512, 513, 1023, 1024, 1025, 2048, 4097} {
		x := strings.Repeat("q", L)
		y := strings.Repeat("word ", L/5+1)[:L]
		for _, hs := range [][]string{{x, x}, {x, x, x}, {x + "a", x + "b"}, {x, x + "-1", x}, {x + "-1", x, x}, {x[:L-2], x[:L-2] + "-1", x[:L-2]}, {y, y}, {y + "tail one", y + "tail two", y}, {x, strings.ToUpper(x)}} {
			var d, e strings.Builder
			for i, h := range hs {
				d.WriteString("# " + h + "\n\n")
				e.WriteString([]string{"> ## " + h + "\n\n", h + "\n===\n\n", "- ### " + h + " ###\n\n"}[i%3])
			}
			longDocs = append(longDocs, []byte(d.String()), []byte(e.String()))
		}
	}
	for _, cf := range cfgs {
		used := cf.Build() // long-lived instance: history must not matter
		for i := -len(longDocs); i < nd; i++ {
			var doc strings.Builder
			var src []byte
			if i < 0 {
				src = longDocs[i+len(longDocs)]
			} else {
				nh := 1 + c.R.Intn(6)
				for h := 0; h < nh; h++ {
					doc.WriteString(mkHeading(c.R.PickS(c15Values)))
					if c.R.Intn(3) == 0 {
						doc.WriteString("text\n\n")
					}
				}
				src = []byte(doc.String())
				if i%10 == 9 {
					src = corp[c.R.Intn(len(corp))]
				}
			}
			out, errS, panicS := convertSafe(used, src)
			if errS != "" || panicS != "" {
				continue
			}
			if cf.Ext == "core" && len(src) <= 600 {
				// the model of Convert with parser.WithAutoHeadingID() (model/HeadingIds.v)
				convertAutoIDCase(c, cf, src)
				hoptItems = append(hoptItems, docItem{"heading-documents", src})
			}
			ids, missing, _ := headingIDs(out)
			in := map[string]string{"config": cf.Name(), "source": q(src)}
			if missing > 0 {
				c.Violate("heading-id-missing", in, fmt.Sprintf("%d heading(s) without id in %.200q", missing, out), "heading-id-missing")
			}
			seen := map[string]bool{}
			coll := false
			for _, id := range ids {
				if id == "" {
					c.Violate("heading-id-empty", in, fmt.Sprintf("empty id in %.200q", out), "heading-id-empty")
				}
				if seen[id] {
					coll = true
					c.Violate("heading-id-duplicate", in, fmt.Sprintf("id %q twice in %.300q", id, out), "heading-id-duplicate")
				}
				seen[id] = true
			}
			_ = coll
			fresh, _, _ := convertSafe(cf.Build(), src)
			if string(fresh) != string(out) {
				c.Violate("heading-id-history", in, fmt.Sprintf("long-used instance gives %.200q, a fresh one %.200q", out, fresh), "heading-id-history")
			}
			c.Count("heading-documents", cf.Name()+string(src), len(ids) >= 2)
			if i >= 0 && i < 2 {
				c.Sample(map[string]string{"config": cf.Name(), "source": q(src), "ids": strings.Join(ids, ",")})
			}
		}
	}
	// the model of the heading options WithAttribute / WithAutoHeadingID inside the block driver
	// (model/HeadingOpts.v), on these documents and on headings with attribute blocks
	for _, it := range collectDocs(c, docOpts{random: 2000}, nil) {
		if it.stream == "attribute-soup" || it.stream == "attribute-bytes" {
			hoptItems = append(hoptItems, it)
		}
	}
	if c.Quick() {
		headingOptModelCases(c, hoptItems, 6000)
	} else {
		headingOptModelCases(c, hoptItems, 80000)
	}
}
