package main

import (
	"bufio"
	"crypto/sha256"
	"encoding/hex"
	"encoding/json"
	"fmt"
	"os"
	"path/filepath"
	"sort"
	"strings"
	"time"
)

// ---------- PRNG (splitmix64): every random choice derives from one seed ----------

type RNG struct{ s uint64 }

func NewRNG(seed uint64) *RNG { return &RNG{s: seed*0x9E3779B97F4A7C15 + 0x1234567} }
func (r *RNG) Next() uint64 {
	r.s += 0x9E3779B97F4A7C15
	z := r.s
	z = (z ^ (z >> 30)) * 0xBF58476D1CE4E5B9
	z = (z ^ (z >> 27)) * 0x94D049BB133111EB
	return z ^ (z >> 31)
}
func (r *RNG) Intn(n int) int {
	if n <= 0 {
		return 0
	}
	return int(r.Next() % uint64(n))
}
func (r *RNG) Bool() bool              { return r.Next()&1 == 1 }
func (r *RNG) Pick(b []byte) byte      { return b[r.Intn(len(b))] }
func (r *RNG) PickS(b []string) string { return b[r.Intn(len(b))] }

// ---------- encoding ----------

func hx(b []byte) string {
	if len(b) == 0 {
		return "-"
	}
	return hex.EncodeToString(b)
}
func unhx(s string) []byte {
	if s == "-" || s == "" {
		return []byte{}
	}
	b, err := hex.DecodeString(s)
	if err != nil {
		panic(err)
	}
	return b
}
func itoa(i int) string { return fmt.Sprintf("%d", i) }
func btoa(b bool) string {
	if b {
		return "1"
	}
	return "0"
}

// ---------- run context: case file for the model side, report for the driver ----------

type Violation struct {
	Kind   string      `json:"kind"`   // which oracle/monitor
	Input  interface{} `json:"input"`  // replayable input
	Detail string      `json:"detail"` // what was observed
	Sig    string      `json:"sig"`    // signature used to match known findings
}

type Report struct {
	Property    string                 `json:"property"`
	Tier        string                 `json:"tier"`
	Seed        uint64                 `json:"seed"`
	Evaluations int                    `json:"evaluations"`
	Distinct    int                    `json:"distinct"`
	Nontrivial  int                    `json:"distinct_nontrivial"`
	Rule        string                 `json:"rule"`
	Streams     map[string]int         `json:"streams"`
	Histogram   map[string]int         `json:"histogram"`
	Samples     []interface{}          `json:"samples"`
	Violations  []Violation            `json:"violations"`
	ModelCases  int                    `json:"model_cases"`
	Extra       map[string]interface{} `json:"extra,omitempty"`
}

type Ctx struct {
	Prop    string
	Tier    string
	Seed    uint64
	OutDir  string
	R       *RNG
	cases   *bufio.Writer
	cf      *os.File
	seen    map[[16]byte]bool
	Rep     Report
	maxViol int
}

func NewCtx(prop, tier string, seed uint64, outDir string) *Ctx {
	os.MkdirAll(outDir, 0o755)
	f, err := os.Create(filepath.Join(outDir, "cases.txt"))
	if err != nil {
		panic(err)
	}
	c := &Ctx{Prop: prop, Tier: tier, Seed: seed, OutDir: outDir, R: NewRNG(seed), cf: f,
		cases: bufio.NewWriterSize(f, 1<<20), seen: map[[16]byte]bool{}, maxViol: 20}
	c.Rep = Report{Property: prop, Tier: tier, Seed: seed, Streams: map[string]int{}, Histogram: map[string]int{}, Extra: map[string]interface{}{}}
	return c
}

func (c *Ctx) Quick() bool { return c.Tier != "thorough" }

// Case records one correspondence case: the model side recomputes `result` from fn+args.
func (c *Ctx) Case(fn string, args []string, result string) {
	c.cases.WriteString(fn)
	for _, a := range args {
		c.cases.WriteByte('\t')
		c.cases.WriteString(a)
	}
	c.cases.WriteString("\t=>\t")
	c.cases.WriteString(result)
	c.cases.WriteByte('\n')
	c.Rep.ModelCases++
}

// Count registers one explored case for the coverage numbers.
func (c *Ctx) Count(stream string, key string, nontrivial bool) {
	c.Rep.Evaluations++
	c.Rep.Streams[stream]++
	h := sha256.Sum256([]byte(key))
	var k [16]byte
	copy(k[:], h[:16])
	if !c.seen[k] {
		c.seen[k] = true
		c.Rep.Distinct++
		if nontrivial {
			c.Rep.Nontrivial++
		}
	}
}

func (c *Ctx) Hist(k string) { c.Rep.Histogram[k]++ }

func (c *Ctx) Sample(v interface{}) {
	if len(c.Rep.Samples) < 8 {
		c.Rep.Samples = append(c.Rep.Samples, v)
	}
}

func (c *Ctx) Violate(kind string, input interface{}, detail, sig string) {
	if len(c.Rep.Violations) < c.maxViol {
		c.Rep.Violations = append(c.Rep.Violations, Violation{kind, input, detail, sig})
	}
}

func (c *Ctx) Close() {
	c.cases.Flush()
	c.cf.Close()
	b, _ := json.MarshalIndent(c.Rep, "", " ")
	os.WriteFile(filepath.Join(c.OutDir, "report.json"), b, 0o644)
}

// ---------- small generators shared by several properties ----------

// enumerate all strings over alphabet up to length n (inclusive), calling f.
func enumStrings(alpha []byte, n int, f func([]byte)) {
	buf := make([]byte, 0, n)
	var rec func(d int)
	rec = func(d int) {
		f(append([]byte(nil), buf...))
		if d == n {
			return
		}
		for _, a := range alpha {
			buf = append(buf, a)
			rec(d + 1)
			buf = buf[:len(buf)-1]
		}
	}
	rec(0)
}

func randBytes(r *RNG, alpha []byte, maxLen int) []byte {
	n := r.Intn(maxLen + 1)
	b := make([]byte, n)
	for i := range b {
		b[i] = r.Pick(alpha)
	}
	return b
}

func sortedKeys(m map[string]int) []string {
	k := make([]string, 0, len(m))
	for s := range m {
		k = append(k, s)
	}
	sort.Strings(k)
	return k
}

func q(b []byte) string { return fmt.Sprintf("%q", string(b)) }

var _ = strings.Join

// watchdog runs f; if it does not return within d the run is cut short: the violation is
// recorded, the report written and the process exits (the stuck goroutine cannot be stopped).
func (c *Ctx) watchdog(d time.Duration, kind string, input func() interface{}, f func()) {
	done := make(chan struct{})
	go func() {
		defer close(done)
		f()
	}()
	select {
	case <-done:
	case <-time.After(d):
		c.Violate(kind, input(), fmt.Sprintf("no result after %v (hang)", d), kind)
		if c.Rep.Evaluations == 0 {
			c.Rep.Evaluations = 1
		}
		c.Close()
		os.Exit(0)
	}
}

// otherModelCases: the models of the other extension parsers (Footnote, Typographer /
// DefinitionList, the heading options), whose totality, well-formedness and safe-mode theorems are
// listed under this property too, against goldmark on the documents of this run
func otherModelCases(c *Ctx, items []docItem, max int) {
	footnoteModelCases(c, items, max)
	typoDefModelCases(c, items, max)
	headingOptModelCases(c, items, max)
}
