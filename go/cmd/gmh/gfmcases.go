package main

// Correspondence cases for the GFM parser model (coq/model/InlineParseX.v, BlockParseX.v,
// GfmParse.v, GfmI.v): goldmark with extension.GFM - or with a subset of its four extensions,
// so that each part of the model can be compared with a parser that has exactly those
// extensions - is run on a document; the tree dump and the bytes of Convert are what
// ocaml/dispatch3.ml re-computes from the extracted model.
//
// Case kinds:
//   ParseTreeGfm  src                => tree dump of goldmark.New(WithExtensions(extension.GFM)).Parser().Parse
//   ConvertGfm    rcfg src           => bytes of Convert of the same with the renderer options rcfg
//   ParseTreeX    exts src           => the same for the extensions named by exts
//   ConvertX      exts rcfg src         (s strikethrough, t task list, T table, l linkify, "-" none)

import (
	"bytes"
	"os"
	"strings"

	"github.com/yuin/goldmark"
	"github.com/yuin/goldmark/extension"
	"github.com/yuin/goldmark/renderer"
	"github.com/yuin/goldmark/renderer/html"
	"github.com/yuin/goldmark/text"
)

var gfmMDs = map[string]goldmark.Markdown{}

// exts "GFM": extension.GFM itself; otherwise the named extensions in the order gfm.Extend
// installs them (Linkify, Table, Strikethrough, TaskList)
func gfmMarkdown(exts string, cf Cfg) goldmark.Markdown {
	key := exts + "/" + rcfgStr(cf)
	if md, ok := gfmMDs[key]; ok {
		return md
	}
	var es []goldmark.Extender
	if exts == "GFM" {
		es = []goldmark.Extender{extension.GFM}
	} else {
		if strings.Contains(exts, "l") {
			es = append(es, extension.Linkify)
		}
		if strings.Contains(exts, "T") {
			es = append(es, extension.Table)
		}
		if strings.Contains(exts, "s") {
			es = append(es, extension.Strikethrough)
		}
		if strings.Contains(exts, "t") {
			es = append(es, extension.TaskList)
		}
	}
	var ro []renderer.Option
	if cf.Unsafe {
		ro = append(ro, html.WithUnsafe())
	}
	if cf.XHTML {
		ro = append(ro, html.WithXHTML())
	}
	if cf.HardWraps {
		ro = append(ro, html.WithHardWraps())
	}
	md := goldmark.New(goldmark.WithExtensions(es...), goldmark.WithRendererOptions(ro...))
	gfmMDs[key] = md
	return md
}

func gfmParseResult(md goldmark.Markdown, src []byte) (res string) {
	defer func() {
		if r := recover(); r != nil {
			res = "PANIC"
		}
	}()
	doc := md.Parser().Parse(text.NewReader(src))
	res, _ = dumpTree(doc, src)
	return res
}

func gfmConvertResult(md goldmark.Markdown, src []byte) (res string) {
	defer func() {
		if r := recover(); r != nil {
			res = "PANIC"
		}
	}()
	var b bytes.Buffer
	if err := md.Convert(src, &b); err != nil {
		return "ERR"
	}
	return hx(b.Bytes())
}

func parseTreeGfmCase(c *Ctx, src []byte) {
	if len(src) > 600 {
		return
	}
	c.Case("ParseTreeGfm", []string{hx(src)}, gfmParseResult(gfmMarkdown("GFM", Cfg{}), src))
}

func convertGfmCase(c *Ctx, cf Cfg, src []byte) {
	if len(src) > 600 {
		return
	}
	c.Case("ConvertGfm", []string{rcfgStr(cf), hx(src)}, gfmConvertResult(gfmMarkdown("GFM", cf), src))
}

func parseTreeXCase(c *Ctx, exts string, src []byte) {
	if len(src) > 600 {
		return
	}
	c.Case("ParseTreeX", []string{exts, hx(src)}, gfmParseResult(gfmMarkdown(exts, Cfg{}), src))
}

func convertXCase(c *Ctx, exts string, cf Cfg, src []byte) {
	if len(src) > 600 {
		return
	}
	c.Case("ConvertX", []string{exts, rcfgStr(cf), hx(src)}, gfmConvertResult(gfmMarkdown(exts, cf), src))
}

// the sixteen subsets of the four extensions
var gfmSubsets = []string{"-", "s", "t", "T", "l", "st", "sT", "sl", "tT", "tl", "Tl", "stT", "stl", "sTl", "tTl", "stTl"}

// gfmModelCases: the documents of a run (each once, up to max, at most 600 bytes) against the
// GFM parser model (ParseTreeGfm) and the composed Convert model (ConvertGfm); every document
// is also parsed with one of the sixteen subsets of the extensions (ParseTreeX)
func gfmModelCases(c *Ctx, items []docItem, max int) {
	seen := map[string]bool{}
	n := 0
	items = roundRobin(items)
	for i, it := range items {
		if n >= max {
			break
		}
		if len(it.doc) > 600 || seen[string(it.doc)] {
			continue
		}
		seen[string(it.doc)] = true
		n++
		parseTreeGfmCase(c, it.doc)
		convertGfmCase(c, convertCfgs[i%len(convertCfgs)], it.doc)
		parseTreeXCase(c, gfmSubsets[i%len(gfmSubsets)], it.doc)
		if bytes.IndexByte(it.doc, '|') >= 0 {
			// the statement of C17 evaluated on the model's tree (model/GfmSpec.v): always true
			c.Case("GfmTablesOk", []string{"stTl", hx(it.doc)}, "1")
		}
	}
	c.Rep.Extra["gfm_model_documents"] = n
}

// ---------- documents aimed at the GFM extensions ----------

// pieces of autolinks, their delimiters and the characters with a special rule at their end
var gfmLinkTokens = []string{
	"http://", "https://", "ftp://", "http:", "https:/", "www.", "www", "mailto:", "xhttp://", "HTTP://", "a", "b", "example", "com", "a.b", "x.y.z", ".", "..", ".c", "a-b", "a_b", "-", "_",
	"/", "/p", "?q=1", "#f", "&amp;", "&lt;", "&a", "&copy;", ";", "&", "=", "%20", "+", ":", ":80", ":8", "@", "a@b.c", "u@h", "u.v@w.x", "@b.c", "a@", "a@b", "a@b.c.", "a@b.c-", "a@b.c_", "a@b.c/", "a+b@c.d",
	"(", ")", "()", "((", "))", "(a)", "[", "]", "[a](", "](/u)", "<", ">", "<http://a.b>", "<a@b.c>", "\"", "'", "!", "?", ",", "*", "**", "_", "__", "~", "~~", "~~~", "`", "``", "|", "\\", "\\ ", "\\(",
	" ", "  ", "   ", "\t", "\n", "  \n", "\\\n", " \n", "\r\n", "\n\n", "é", "あ", "\x80", "1", "2",
}

// task list items and what can be mistaken for them
var gfmTaskHeads = []string{"- ", "* ", "+ ", "1. ", "1) ", "- - ", "> - ", "-\t", "  - ", "- > ", "-  ", "- \n  ", "- # ", "- a\n  ", "- \n\n  ", ""}
var gfmTaskBoxes = []string{"[ ] ", "[x] ", "[X] ", "[ ]", "[x]", "[x]a", "[  ] ", "[] ", "[y] ", "\\[ ] ", "[ ]\t", "[\t] ", "[ ]  ", "[ ]\n", "[x]\n  a", "[ ] [ ] ", "[ ][x]", "[ ](/u)", "[x]: /u\n", " [ ] ", "![ ] ", "[ ] \\", "[ ]\\\n", "[ ]  \n", "*[ ]* ", "[ ]*a*", "[x] www.a.b", "[ ] ~~a~~", "[x]~a~"}

// strikethrough runs in every flanking situation
var gfmStrikeTokens = []string{"~", "~~", "~~~", "~~~~", "a", "b", " ", "*", "**", "_", "[", "](/u)", "`", "\\", "\\~", ".", "(", ")", "\n", "é", "あ", "www.a.b", "http://a.b/~c", "~a~", "~~a~~", "a~b", "|"}

func gfmTokenDoc(r *RNG, toks []string, maxTok int) []byte {
	n := 1 + r.Intn(maxTok)
	var b []byte
	for i := 0; i < n; i++ {
		b = append(b, r.PickS(toks)...)
	}
	return b
}

func gfmTaskDoc(r *RNG) []byte {
	var sb strings.Builder
	for k := 1 + r.Intn(3); k > 0; k-- {
		sb.WriteString(r.PickS(gfmTaskHeads))
		sb.WriteString(r.PickS(gfmTaskBoxes))
		switch r.Intn(4) {
		case 0:
			sb.WriteString(string(gfmTokenDoc(r, gfmLinkTokens, 4)))
		case 1:
			sb.WriteString(string(gfmTokenDoc(r, gfmStrikeTokens, 4)))
		case 2:
			sb.WriteString("text")
		}
		sb.WriteString("\n")
		if r.Intn(5) == 0 {
			sb.WriteString("\n")
		}
	}
	return []byte(sb.String())
}

// tables as in the C17 generator, with cells that carry the other extensions
var gfmCells = append(append([]string{}, c17Cells...), "~~d~~", "~a~", "www.a.b", "http://a.b/c", "a@b.c", "[ ] t", "[x]", "`a\\|b` \\| `c\\|d`", "`\\|`", "a \\| `b\\|c`", "*`x\\|y`*", "[`a\\|b`](/u)", "``a\\|b``", "`a\\|b", "\\|`a\\|b`", " www.a.b. ", "(http://a.b/(c))", "~~`a\\|b`~~")

func gfmTableDoc(r *RNG) []byte {
	hc := 1 + r.Intn(4)
	dc := hc
	if r.Intn(4) == 0 {
		dc = 1 + r.Intn(4)
	}
	var b strings.Builder
	switch r.Intn(6) {
	case 0:
		b.WriteString("intro text\n")
	case 1:
		b.WriteString("[ref]: /u\n")
	case 2:
		b.WriteString("intro\nsecond  \n")
	}
	header := c17Row(r, hc, gfmCells)
	if r.Intn(10) == 0 {
		header = []string{"|", "||", "| |", "a", ""}[r.Intn(5)]
	}
	b.WriteString(header + "\n")
	var ds []string
	for k := 0; k < dc; k++ {
		ds = append(ds, r.PickS(c17Delims[:8]))
		if r.Intn(12) == 0 {
			ds[k] = r.PickS(c17Delims)
		}
	}
	dl := strings.Join(ds, "|")
	if r.Bool() {
		dl = "|" + dl + "|"
	}
	b.WriteString(dl + "\n")
	for k := r.Intn(4); k > 0; k-- {
		b.WriteString(c17Row(r, 1+r.Intn(6), gfmCells) + "\n")
	}
	switch r.Intn(8) {
	case 0:
		b.WriteString("===\n")
	case 1:
		b.WriteString("---\n")
	case 2:
		b.WriteString("\nafter\n")
	case 3:
		b.WriteString("> q\n")
	}
	d := b.String()
	switch r.Intn(8) {
	case 0:
		d = string(prefixLines([]byte(d), "> "))
	case 1:
		d = "- " + strings.ReplaceAll(strings.TrimSuffix(d, "\n"), "\n", "\n  ") + "\n"
	case 2:
		d = "- a\n\n  " + strings.ReplaceAll(strings.TrimSuffix(d, "\n"), "\n", "\n  ") + "\n- b\n"
	case 3:
		d = "1. " + strings.ReplaceAll(strings.TrimSuffix(d, "\n"), "\n", "\n\t") + "\n"
	}
	return []byte(d)
}

// gfmDocs feeds f with the common document streams and the GFM-specific ones
func gfmDocs(c *Ctx, n int, f func(stream string, doc []byte)) {
	docStreams(c, docOpts{blockLines: 2, randLines: n, corpus: true, random: n, mutants: n / 4}, f)
	for i := 0; i < n; i++ {
		f("gfm-table-soup", gfmTableDoc(c.R))
	}
	for i := 0; i < n; i++ {
		d := gfmTokenDoc(c.R, gfmLinkTokens, 10)
		switch i % 8 {
		case 1:
			d = append([]byte("[l "), append(d, []byte(" m](/u) ")...)...)
		case 2:
			d = append([]byte("# "), d...)
		case 3:
			d = append([]byte("- "), d...)
		case 4:
			d = append([]byte("|"), append(bytes.ReplaceAll(d, []byte("\n"), []byte(" ")), []byte("|\n|-|\n")...)...)
		case 5:
			d = append(d, []byte("\n\n[a]: /u\n")...)
		}
		f("gfm-link-soup", d)
	}
	for i := 0; i < n/2; i++ {
		f("gfm-strike-soup", gfmTokenDoc(c.R, gfmStrikeTokens, 10))
	}
	// every short tail behind a link of each kind (the rules for the end of a link)
	tailLen := 2
	if !c.Quick() {
		tailLen = 3
	}
	tailAlpha := []byte(".)(;&a~*_!?,:- \n<>`[]\\|/@1\xc3")
	for _, pre := range []string{"www.a.b", "http://a.b/", "a@b.c", "x www.a.b/c", "(https://a.b", "ftp://a.b/&amp", "www.a.b/(c"} {
		enumStrings(tailAlpha, tailLen, func(t []byte) { f("gfm-link-tails", append([]byte(pre), t...)) })
	}
	// every document of up to three lines over table-related line forms
	bodies := []string{"a|b", "-|-", "|-|", "---", "===", "a", "", "- x", "> y", "[a]: /u", "`a\\|b`|c", "    -|-", " |:-:|", "\\|a|b", "a|b|c", "|"}
	prefixes := []string{""}
	if !c.Quick() {
		prefixes = []string{"", "> ", "- ", "  "}
	}
	var forms []string
	for _, p := range prefixes {
		for _, b := range bodies {
			forms = append(forms, p+b+"\n")
		}
	}
	for _, l1 := range forms {
		for _, l2 := range forms {
			f("gfm-table-lines", []byte(l1+l2))
			for _, l3 := range forms {
				if len(prefixes) == 1 || (len(l1)+len(l2)+len(l3))%3 == 0 {
					f("gfm-table-lines", []byte(l1+l2+l3))
				}
			}
		}
	}
	for i := 0; i < n/2; i++ {
		f("gfm-task-lists", gfmTaskDoc(c.R))
	}
}

// experiment runner: GFM parser-model cases only.  GX_EXTS selects a stage: unset or "GFM" =
// the full set of case kinds of gfmModelCases; otherwise (e.g. "s", "st", "stT", "stTl", "-")
// only ParseTreeX / ConvertX with exactly those extensions.
func init() {
	runners["GX"] = func(c *Ctx) {
		n := 3000
		if !c.Quick() {
			n = 40000
		}
		exts := os.Getenv("GX_EXTS")
		var items []docItem
		gfmDocs(c, n, func(stream string, doc []byte) {
			if len(doc) <= 600 {
				items = append(items, docItem{stream, doc})
				c.Rep.Streams[stream]++
			}
		})
		if exts == "" || exts == "GFM" {
			gfmModelCases(c, items, len(items))
			return
		}
		seen := map[string]bool{}
		for i, it := range items {
			if seen[string(it.doc)] {
				continue
			}
			seen[string(it.doc)] = true
			parseTreeXCase(c, exts, it.doc)
			convertXCase(c, exts, convertCfgs[i%len(convertCfgs)], it.doc)
		}
		c.Rep.Extra["gfm_model_documents"] = len(seen)
	}
}
