package main

import (
	"errors"
	"fmt"
	"strings"
	"time"

	"github.com/yuin/goldmark/ast"
)

func init() { runners["C13"] = runC13 }

// ----- reference forest (independent of the Coq model; used as the search oracle) -----

type refForest struct {
	parent map[int]int // 0 = none
	kids   map[int][]int
}

func newRef() *refForest { return &refForest{map[int]int{}, map[int][]int{}} }
func (f *refForest) detach(x int) {
	p := f.parent[x]
	if p == 0 {
		return
	}
	var nk []int
	for _, k := range f.kids[p] {
		if k != x {
			nk = append(nk, k)
		}
	}
	f.kids[p] = nk
	f.parent[x] = 0
}
func (f *refForest) isAncestorOrSelf(a, x int) bool {
	for x != 0 {
		if a == x {
			return true
		}
		x = f.parent[x]
	}
	return false
}
func (f *refForest) insertAt(p, x, idx int) {
	k := f.kids[p]
	nk := append([]int{}, k[:idx]...)
	nk = append(nk, x)
	nk = append(nk, k[idx:]...)
	f.kids[p] = nk
	f.parent[x] = p
}
func (f *refForest) indexOf(p, r int) int {
	for i, k := range f.kids[p] {
		if k == r {
			return i
		}
	}
	return -1
}

type astOp struct {
	kind    byte // A B F R D C S
	s, r, x int
	keys    []int
}

func (o astOp) String() string {
	switch o.kind {
	case 'A', 'D':
		return fmt.Sprintf("%c%d.%d", o.kind, o.s, o.x)
	case 'B', 'F', 'R':
		return fmt.Sprintf("%c%d.%d.%d", o.kind, o.s, o.r, o.x)
	case 'C':
		return fmt.Sprintf("C%d", o.s)
	default:
		ks := make([]string, len(o.keys))
		for i, k := range o.keys {
			ks[i] = itoa(k)
		}
		return fmt.Sprintf("S%d.%s", o.s, strings.Join(ks, "."))
	}
}

func (f *refForest) legal(o astOp) bool {
	switch o.kind {
	case 'A':
		return !f.isAncestorOrSelf(o.x, o.s)
	case 'B', 'F', 'R':
		return !f.isAncestorOrSelf(o.x, o.s) && o.r != o.x
	}
	return true
}

func (f *refForest) apply(o astOp) {
	switch o.kind {
	case 'A':
		f.detach(o.x)
		f.insertAt(o.s, o.x, len(f.kids[o.s]))
	case 'B', 'F', 'R':
		isChild := o.r != 0 && f.parent[o.r] == o.s
		f.detach(o.x)
		if !isChild {
			f.insertAt(o.s, o.x, len(f.kids[o.s]))
		} else {
			i := f.indexOf(o.s, o.r)
			if o.kind == 'F' {
				i++
			}
			f.insertAt(o.s, o.x, i)
		}
		if o.kind == 'R' && o.r != 0 && f.parent[o.r] == o.s {
			f.detach(o.r)
		}
	case 'D':
		if f.parent[o.x] == o.s {
			f.detach(o.x)
		}
	case 'C':
		for _, k := range f.kids[o.s] {
			f.parent[k] = 0
		}
		f.kids[o.s] = nil
	case 'S':
		// stable insertion as documented by the comparator contract: sorted by key, ties keep
		// the order produced by inserting each element before the first not-smaller one
		var out []int
		for _, x := range f.kids[o.s] {
			i := 0
			for i < len(out) && o.keys[out[i]]-o.keys[x] < 0 {
				i++
			}
			out = append(out[:i], append([]int{x}, out[i:]...)...)
		}
		f.kids[o.s] = out
	}
}

// ----- real nodes -----

func mkPool(n int) []ast.Node {
	pool := make([]ast.Node, n+1)
	for i := 1; i <= n; i++ {
		switch i % 4 {
		case 0:
			pool[i] = ast.NewParagraph()
		case 1:
			pool[i] = ast.NewEmphasis(1)
		case 2:
			pool[i] = ast.NewList('-')
		default:
			pool[i] = ast.NewText()
		}
	}
	return pool
}

func idOf(pool []ast.Node, n ast.Node) int {
	if n == nil {
		return 0
	}
	for i := 1; i < len(pool); i++ {
		if pool[i] == n {
			return i
		}
	}
	return -1
}

func nodeOrNil(pool []ast.Node, i int) ast.Node {
	if i == 0 {
		return nil
	}
	return pool[i]
}

func applyReal(pool []ast.Node, o astOp) (panicked bool) {
	defer func() {
		if r := recover(); r != nil {
			panicked = true
		}
	}()
	s := pool[o.s]
	switch o.kind {
	case 'A':
		s.AppendChild(s, nodeOrNil(pool, o.x))
	case 'B':
		s.InsertBefore(s, nodeOrNil(pool, o.r), nodeOrNil(pool, o.x))
	case 'F':
		s.InsertAfter(s, nodeOrNil(pool, o.r), nodeOrNil(pool, o.x))
	case 'R':
		s.ReplaceChild(s, nodeOrNil(pool, o.r), nodeOrNil(pool, o.x))
	case 'D':
		s.RemoveChild(s, nodeOrNil(pool, o.x))
	case 'C':
		s.RemoveChildren(s)
	case 'S':
		s.SortChildren(func(a, b ast.Node) int { return o.keys[idOf(pool, a)] - o.keys[idOf(pool, b)] })
	}
	return false
}

func observe(pool []ast.Node) string {
	var sb strings.Builder
	for i := 1; i < len(pool); i++ {
		n := pool[i]
		if i > 1 {
			sb.WriteByte(';')
		}
		hc := 0
		if n.HasChildren() {
			hc = 1
		}
		fmt.Fprintf(&sb, "%d,%d,%d,%d,%d,%d,%d", idOf(pool, n.Parent()), idOf(pool, n.FirstChild()), idOf(pool, n.LastChild()),
			idOf(pool, n.NextSibling()), idOf(pool, n.PreviousSibling()), n.ChildCount(), hc)
	}
	return sb.String()
}

func observeRef(f *refForest, n int) string {
	var sb strings.Builder
	for i := 1; i <= n; i++ {
		if i > 1 {
			sb.WriteByte(';')
		}
		k := f.kids[i]
		first, last, hc := 0, 0, 0
		if len(k) > 0 {
			first, last, hc = k[0], k[len(k)-1], 1
		}
		next, prev := 0, 0
		if p := f.parent[i]; p != 0 {
			sib := f.kids[p]
			idx := f.indexOf(p, i)
			if idx+1 < len(sib) {
				next = sib[idx+1]
			}
			if idx > 0 {
				prev = sib[idx-1]
			}
		}
		fmt.Fprintf(&sb, "%d,%d,%d,%d,%d,%d,%d", f.parent[i], first, last, next, prev, len(k), hc)
	}
	return sb.String()
}

func randOp(r *RNG, n int, withNil bool) astOp {
	o := astOp{s: 1 + r.Intn(n), x: 1 + r.Intn(n)}
	lo := 1
	if withNil {
		lo = 0
	}
	o.r = lo + r.Intn(n+1-lo)
	switch r.Intn(12) {
	case 0, 1, 2:
		o.kind = 'A'
	case 3, 4:
		o.kind = 'B'
	case 5, 6:
		o.kind = 'F'
	case 7:
		o.kind = 'R'
	case 8, 9:
		o.kind = 'D'
	case 10:
		if r.Intn(3) == 0 {
			o.kind = 'C'
		} else {
			o.kind = 'A'
		}
	default:
		o.kind = 'S'
		o.keys = make([]int, n+1)
		for i := range o.keys {
			o.keys[i] = r.Intn(4)
		}
	}
	return o
}

// runs a program on real nodes and on the reference forest; returns per-step observations
func runProg(c *Ctx, n int, ops []astOp, stream string) (string, []ast.Node, *refForest) {
	pool := mkPool(n)
	ref := newRef()
	var obs []string
	var names []string
	parents := map[int]bool{}
	for i, o := range ops {
		names = append(names, o.String())
		panicked := false
		c.watchdog(60*time.Second, "ast-hang", func() interface{} {
			return map[string]interface{}{"nodes": n, "ops": strings.Join(names, " ")}
		}, func() { panicked = applyReal(pool, o) })
		if panicked {
			c.Violate("panic", map[string]interface{}{"nodes": n, "ops": strings.Join(names, " ")}, "mutator panicked on a legal call", "ast-panic")
			obs = append(obs, "PANIC")
			break
		}
		ref.apply(o)
		parents[o.s] = true
		got, want := observe(pool), observeRef(ref, n)
		obs = append(obs, got)
		if got != want {
			c.Violate("ast-oracle", map[string]interface{}{"nodes": n, "ops": strings.Join(names[:i+1], " ")},
				fmt.Sprintf("observers report %s, the list-of-children tree gives %s", got, want), "ast-oracle")
			break
		}
	}
	prog := strings.Join(names, " ")
	c.Case("AstProg", []string{itoa(n), prog}, strings.Join(obs, "|"))
	c.Count(stream, "AstProg"+itoa(n)+prog, len(ops) >= 3 && len(parents) >= 2)
	return prog, pool, ref
}

func runC13(c *Ctx) {
	c.Rep.Rule = "a case is (pool size, operation sequence[, walker script]); distinct by hash; non-trivial = at least 3 operations touching at least 2 different parents"
	// stream 1: exhaustive short programs over a 3-node pool (legal ops only, incl. nil/foreign references)
	n := 3
	var menu []astOp
	for s := 1; s <= n; s++ {
		for x := 1; x <= n; x++ {
			menu = append(menu, astOp{kind: 'A', s: s, x: x}, astOp{kind: 'D', s: s, x: x})
			for r := 0; r <= n; r++ {
				menu = append(menu, astOp{kind: 'B', s: s, r: r, x: x}, astOp{kind: 'F', s: s, r: r, x: x}, astOp{kind: 'R', s: s, r: r, x: x})
			}
		}
		menu = append(menu, astOp{kind: 'C', s: s})
	}
	depth := 2
	if !c.Quick() {
		depth = 3
	}
	var rec func(prefix []astOp, f *refForest)
	count := 0
	rec = func(prefix []astOp, f *refForest) {
		if len(prefix) > 0 {
			runProg(c, n, prefix, fmt.Sprintf("exhaustive<=%d", depth))
			count++
		}
		if len(prefix) == depth {
			return
		}
		for _, o := range menu {
			if !f.legal(o) {
				continue
			}
			g := newRef()
			for k, v := range f.parent {
				g.parent[k] = v
			}
			for k, v := range f.kids {
				g.kids[k] = append([]int{}, v...)
			}
			g.apply(o)
			rec(append(append([]astOp{}, prefix...), o), g)
		}
	}
	rec(nil, newRef())
	// stream 2: random long programs over pools of 4..7 nodes
	nRand := 1500
	maxLen := 60
	if !c.Quick() {
		nRand = 30000
		maxLen = 200
	}
	for i := 0; i < nRand; i++ {
		pn := 4 + c.R.Intn(4)
		l := 3 + c.R.Intn(maxLen)
		ref := newRef()
		var ops []astOp
		for len(ops) < l {
			o := randOp(c.R, pn, true)
			if !ref.legal(o) {
				continue
			}
			ref.apply(o)
			ops = append(ops, o)
		}
		prog, pool, rf := runProg(c, pn, ops, "random-programs")
		if i < 3 {
			c.Sample(map[string]interface{}{"nodes": pn, "ops": prog})
		}
		// walker scripts on the resulting tree
		for w := 0; w < 3; w++ {
			root := 1 + c.R.Intn(pn)
			runWalk(c, pn, prog, pool, rf, root)
		}
	}
}

// walker script: status per call index, e.g. "3,3,2,1e": 1 stop 2 skip 3 continue, suffix e = return an error
func runWalk(c *Ctx, pn int, prog string, pool []ast.Node, rf *refForest, root int) {
	nCalls := 2 * (pn + 1)
	script := make([]string, nCalls)
	for i := range script {
		st := 3
		switch c.R.Intn(10) {
		case 0:
			st = 1
		case 1, 2:
			st = 2
		}
		e := ""
		if c.R.Intn(14) == 0 {
			e = "e"
		}
		script[i] = itoa(st) + e
	}
	var trace []string
	calls := 0
	errX := errors.New("x")
	var err error
	c.watchdog(60*time.Second, "walk-hang", func() interface{} {
		return map[string]interface{}{"nodes": pn, "ops": prog, "root": root, "script": strings.Join(script, ",")}
	}, func() {
		err = ast.Walk(pool[root], func(n ast.Node, entering bool) (ast.WalkStatus, error) {
			s := "3"
			if calls < len(script) {
				s = script[calls]
			}
			calls++
			d := "-"
			if entering {
				d = "+"
			}
			trace = append(trace, d+itoa(idOf(pool, n)))
			var e error
			if strings.HasSuffix(s, "e") {
				e = errX
			}
			if len(trace) > 100000 {
				return ast.WalkStop, errX // runaway walk (cyclic tree): reported by the oracle below
			}
			return ast.WalkStatus(int(s[0] - '0')), e
		})
	})
	res := btoa(err != nil) + ":" + strings.Join(trace, ",")
	// independent oracle: depth-first walk of the reference forest
	var want []string
	calls2 := 0
	var wantErr bool
	var walk func(x int) int // returns 1 stop, 3 continue
	walk = func(x int) int {
		s := "3"
		if calls2 < len(script) {
			s = script[calls2]
		}
		calls2++
		want = append(want, "+"+itoa(x))
		if strings.HasSuffix(s, "e") {
			wantErr = true
			return 1
		}
		if s[0] == '1' {
			return 1
		}
		if s[0] != '2' {
			for _, k := range rf.kids[x] {
				if walk(k) == 1 {
					return 1
				}
			}
		}
		s = "3"
		if calls2 < len(script) {
			s = script[calls2]
		}
		calls2++
		want = append(want, "-"+itoa(x))
		if strings.HasSuffix(s, "e") {
			wantErr = true
			return 1
		}
		if s[0] == '1' {
			return 1
		}
		return 3
	}
	walk(root)
	wres := btoa(wantErr) + ":" + strings.Join(want, ",")
	sc := strings.Join(script, ",")
	if res != wres {
		c.Violate("walk-oracle", map[string]interface{}{"nodes": pn, "ops": prog, "root": root, "script": sc},
			fmt.Sprintf("Walk gave %s, depth-first walk of the list-of-children tree gives %s", res, wres), "walk-oracle")
	}
	c.Case("AstWalk", []string{itoa(pn), prog, itoa(root), sc}, res)
	c.Count("walk-scripts", "AstWalk"+prog+itoa(root)+sc, len(trace) >= 3)
}
