package main

import (
	"bytes"
	"fmt"
	"regexp"
	"strings"

	"github.com/yuin/goldmark"
	"github.com/yuin/goldmark/ast"
	"github.com/yuin/goldmark/extension"
	east "github.com/yuin/goldmark/extension/ast"
	"github.com/yuin/goldmark/parser"
	"github.com/yuin/goldmark/text"
	"github.com/yuin/goldmark/util"
)

var reFnItem = regexp.MustCompile(`^fn:(\d+)$`)
var reFnRef = regexp.MustCompile(`^fnref(\d*):(\d+)$`)

// footnote id/href graph of a rendered document
func footnoteErrors(out []byte) (errs []string, danglingBacklinks []string, nItems, nRefs int) {
	toks, _ := scanHTML(out)
	ids := map[string]int{}
	var items []int            // footnote numbers in list order
	refIDs := map[string]int{} // fnref ids -> number shown
	var backHrefs []string
	var refHrefs [][2]string // (href, shown number)
	inFootnotes := false
	for i, t := range toks {
		if t.kind != 's' {
			continue
		}
		if id, ok := t.attr("id"); ok {
			ids[id]++
			// an id of the footnote family belongs to a list item of the footnote list (fn:N) or to
			// a reference (fnrefK:N), and is spelled with natural numbers
			if strings.HasPrefix(id, "fn:") && (t.name != "li" || !inFootnotes || !reFnItem.MatchString(id)) {
				errs = append(errs, fmt.Sprintf("id %q on <%s> outside the footnote list or malformed", id, t.name))
			}
			if strings.HasPrefix(id, "fnref") && (t.name != "sup" || !reFnRef.MatchString(id)) {
				errs = append(errs, fmt.Sprintf("id %q on <%s> is no footnote reference", id, t.name))
			}
		}
		if cl, _ := t.attr("class"); t.name == "div" && cl == "footnotes" {
			inFootnotes = true
		}
		if t.name == "li" && inFootnotes {
			if id, ok := t.attr("id"); ok {
				if m := reFnItem.FindStringSubmatch(id); m != nil {
					var n int
					fmt.Sscan(m[1], &n)
					items = append(items, n)
				}
			}
		}
		if t.name == "sup" {
			if id, ok := t.attr("id"); ok && reFnRef.MatchString(id) {
				// <sup id="fnref:1"><a href="#fn:1" ...>1</a></sup>
				shown := ""
				href := ""
				if i+2 < len(toks) && toks[i+1].kind == 's' && toks[i+1].name == "a" && toks[i+2].kind == 't' {
					href, _ = toks[i+1].attr("href")
					shown = toks[i+2].text
				}
				refIDs[id]++
				refHrefs = append(refHrefs, [2]string{href, shown})
			}
		}
		if cl, _ := t.attr("class"); t.name == "a" && cl == "footnote-backref" {
			h, _ := t.attr("href")
			backHrefs = append(backHrefs, h)
		}
	}
	for id, n := range ids {
		// (ids the author chose with attribute syntax are not this property's concern)
		if n > 1 && (reFnItem.MatchString(id) || reFnRef.MatchString(id)) {
			errs = append(errs, fmt.Sprintf("id %q occurs %d times", id, n))
		}
	}
	for i, n := range items {
		if n != i+1 {
			errs = append(errs, fmt.Sprintf("footnote items are numbered %v, not consecutively from 1 in list order", items))
			break
		}
	}
	for _, rh := range refHrefs {
		want := "#fn:" + rh[1]
		if rh[0] != want {
			errs = append(errs, fmt.Sprintf("reference showing %q links to %q", rh[1], rh[0]))
			continue
		}
		if ids[strings.TrimPrefix(rh[0], "#")] != 1 {
			errs = append(errs, fmt.Sprintf("reference links to %q which is not the id of exactly one rendered item", rh[0]))
		}
	}
	seenBack := map[string]int{}
	for _, h := range backHrefs {
		seenBack[h]++
		if refIDs[strings.TrimPrefix(h, "#")] == 0 {
			danglingBacklinks = append(danglingBacklinks, h)
		}
	}
	for h, n := range seenBack {
		if n > 1 {
			errs = append(errs, fmt.Sprintf("%d back-links point to %q", n, h))
		}
	}
	for id := range refIDs {
		if seenBack["#"+id] == 0 {
			errs = append(errs, fmt.Sprintf("reference %q has no back-link", id))
		}
	}
	return errs, danglingBacklinks, len(items), len(refHrefs)
}

var c16Labels = []string{"1", "a", "b", "c", "note", "A B", "x*y", "2"}

func runC16(c *Ctx) {
	c.Rep.Rule = "a case is (configuration, document mixing footnote definitions and references); the id/href graph of the output is checked; distinct by hash; non-trivial = at least one definition and one reference"
	// id prefixes: none, strings whose []byte conversion has spare capacity (9 and 17 bytes), a
	// short one, and a prefix function returning a slice with spare capacity
	cfgs := []Cfg{{Ext: "footnote"}, {Ext: "gfm+footnote", XHTML: true}, {Ext: "all", AutoID: true, Attr: true},
		{Ext: "footnote", FnPrefix: "article1-"}, {Ext: "gfm+footnote", FnPrefix: "my-blog-article7-", XHTML: true}, {Ext: "footnote", FnPrefix: "p-", FnPrefixFunc: true}, {Ext: "all", FnPrefix: "d0c-", FnPrefixFunc: true, Unsafe: true}, {Ext: "footnote", Opts: true}, {Ext: "gfm+footnote", Opts: true, FnPrefix: "my-blog-article7-", XHTML: true}}
	n := 25000
	if !c.Quick() {
		n = 600000
	}
	var items []docItem
	for _, d := range propCorpus("C16") {
		items = append(items, docItem{"past-failures", d})
	}
	for i := 0; i < n; i++ {
		var b strings.Builder
		nl := 1 + c.R.Intn(4)
		labels := make([]string, nl)
		for k := range labels {
			labels[k] = c16Labels[c.R.Intn(len(c16Labels))]
		}
		parts := 2 + c.R.Intn(7)
		for p := 0; p < parts; p++ {
			l := labels[c.R.Intn(nl)]
			ref := "[^" + l + "]"
			switch c.R.Intn(14) {
			case 0, 1, 2:
				fmt.Fprintf(&b, "text%s more\n\n", ref)
			case 3:
				fmt.Fprintf(&b, "*em%s* and **s%s**\n\n", ref, ref)
			case 4:
				fmt.Fprintf(&b, "[link%s](/u)\n\n", ref)
			case 5:
				fmt.Fprintf(&b, "![alt%s](/i)\n\n", ref)
			case 6:
				fmt.Fprintf(&b, "|a%s|b|\n|-|-|\n|c|d%s|\n\n", ref, ref)
			case 7:
				fmt.Fprintf(&b, "# head%s\n\n", ref)
			case 8, 9, 10:
				inner := labels[c.R.Intn(nl)]
				body := []string{"note", "note " + "[^" + labels[c.R.Intn(nl)] + "]", "para\n\n    second", "- item", "> q",
					// a definition inside the body of a definition: directly, indented, in a quote, in a list
					"[^" + inner + "]: inner", "outer\n\n    [^" + inner + "]: inner", "> [^" + inner + "]: inner", "- [^" + inner + "]: inner", "[^" + inner + "]: [^" + labels[c.R.Intn(nl)] + "]: deep"}[c.R.Intn(10)]
				fmt.Fprintf(&b, "[^%s]: %s\n\n", l, body)
			case 11:
				fmt.Fprintf(&b, "> [^%s]: in quote\n\n", l)
			case 12:
				fmt.Fprintf(&b, "- x%s\n- [^%s]: in list\n\n", ref, l)
			default:
				fmt.Fprintf(&b, "%s%s%s\n\n", ref, ref, "[^"+labels[c.R.Intn(nl)]+"]")
			}
		}
		items = append(items, docItem{"footnote-documents", []byte(b.String())})
	}
	for _, it := range collectDocs(c, docOpts{corpus: true, random: 3000}, nil) {
		if bytes.Contains(it.doc, []byte("[^")) {
			items = append(items, it)
		}
	}
	for i, it := range items {
		if i%3 == 0 || it.stream != "footnote-documents" {
			footnoteCase(c, it.doc)
		}
	}
	// the model of the parser with extension.Footnote (model/FootnoteI.v): tree and output
	if c.Quick() {
		footnoteModelCases(c, items, 6000)
	} else {
		footnoteModelCases(c, items, 80000)
	}
	lawSweep(c, cfgs, items, "footnote-graph", func(d []byte) bool { return true }, func(m mdT, d []byte) (string, bool) {
		out, e, p := convertSafe(m.md, d)
		if e != "" || p != "" {
			return "", false
		}
		errs, dangling, nItems, nRefs := footnoteErrors(m.cf.stripFnPrefix(out))
		nontrivial := nItems > 0 && nRefs > 0
		if len(errs) > 0 {
			return fmt.Sprintf("%s; output %.400q", strings.Join(errs[:min(len(errs), 3)], "; "), out), nontrivial
		}
		// one parser.Context handed to two conversions of the document (parser.WithContext): the
		// second one must number and link its footnotes like the first
		if len(d)%4 == 0 && nItems > 0 {
			ctx := parser.NewContext()
			var b1, b2 bytes.Buffer
			func() {
				defer func() { recover() }()
				if m.md.Convert(d, &b1, parser.WithContext(ctx)) == nil && m.md.Convert(d, &b2, parser.WithContext(ctx)) == nil {
					e2, d2, _, _ := footnoteErrors(m.cf.stripFnPrefix(b2.Bytes()))
					if len(e2) > 0 || len(d2) > len(dangling) {
						errs = append(errs, fmt.Sprintf("second conversion with the same parser.Context: %v dangling %v; output %.300q", e2, d2, b2.Bytes()))
					}
				}
			}()
			if len(errs) > 0 {
				return fmt.Sprintf("%s; output %.400q", strings.Join(errs[:min(len(errs), 3)], "; "), out), nontrivial
			}
		}
		if len(dangling) > 0 {
			// the recorded finding: the missing reference lies in image alt text or in the body of
			// a footnote that was itself removed (never referenced, or a duplicate definition)
			if danglingExplained(m, d, dangling) {
				return "KNOWN:dangling-backlink:ref-not-rendered " + fmt.Sprintf("back-link to %v; output %.200q", dangling, out), nontrivial
			}
			return fmt.Sprintf("back-link to %v which is not in the output; output %.400q", dangling, out), nontrivial
		}
		return "", nontrivial
	})
}

// Are the dangling back-links exactly those whose reference exists in the parsed document but is
// not rendered: it sits below an Image (alt text), or in a footnote body that was removed from
// the tree?  Decided on the final AST: for every footnote index, the references the transformer
// counted (RefCount) minus the references that are in the tree outside images must equal the
// number of dangling back-links, and every in-image reference must be among them.
func danglingExplained(m mdT, d []byte, dangling []string) bool {
	doc := m.md.Parser().Parse(text.NewReader(d))
	rendered := map[int]map[int]bool{} // index -> set of RefIndex rendered
	inImage := map[int]map[int]bool{}
	refCount := map[int]int{}
	var walk func(n ast.Node, img bool)
	walk = func(n ast.Node, img bool) {
		switch v := n.(type) {
		case *ast.Image:
			img = true
		case *east.FootnoteLink:
			t := rendered
			if img {
				t = inImage
			}
			if t[v.Index] == nil {
				t[v.Index] = map[int]bool{}
			}
			t[v.Index][v.RefIndex] = true
		case *east.FootnoteBacklink:
			refCount[v.Index] = v.RefCount
		}
		for c := n.FirstChild(); c != nil; c = c.NextSibling() {
			walk(c, img)
		}
	}
	walk(doc, false)
	dang := map[int]map[int]bool{}
	for _, h := range dangling {
		mm := reFnRef.FindStringSubmatch(strings.TrimPrefix(h, "#"))
		if mm == nil {
			return false
		}
		ri, idx := 0, 0
		if mm[1] != "" {
			fmt.Sscan(mm[1], &ri)
		}
		fmt.Sscan(mm[2], &idx)
		if dang[idx] == nil {
			dang[idx] = map[int]bool{}
		}
		dang[idx][ri] = true
	}
	for idx, set := range dang {
		if refCount[idx]-len(rendered[idx]) != len(set) {
			return false
		}
		for ri := range inImage[idx] {
			if !set[ri] {
				return false
			}
		}
		for ri := range set {
			if rendered[idx][ri] {
				return false
			}
		}
	}
	return true
}

// ---- correspondence of the numbering / transformer model ----

type fnProbe struct {
	defs  []string
	links []*east.FootnoteLink
	evs   []string
}

func (p *fnProbe) Transform(doc *ast.Document, reader text.Reader, pc parser.Context) {
	p.defs, p.links, p.evs = nil, nil, nil
	byIndex := map[int]string{}
	var walk func(n ast.Node)
	walk = func(n ast.Node) {
		switch v := n.(type) {
		case *east.FootnoteList:
			for d := v.FirstChild(); d != nil; d = d.NextSibling() {
				if f, ok := d.(*east.Footnote); ok {
					p.defs = append(p.defs, hx(f.Ref))
					if _, seen := byIndex[f.Index]; !seen && f.Index >= 0 {
						byIndex[f.Index] = hx(f.Ref)
					}
				}
			}
		case *east.FootnoteLink:
			p.links = append(p.links, v)
		}
		for c := n.FirstChild(); c != nil; c = c.NextSibling() {
			walk(c)
		}
	}
	walk(doc)
	for _, l := range p.links {
		p.evs = append(p.evs, byIndex[l.Index])
	}
}

func footnoteCase(c *Ctx, src []byte) {
	probe := &fnProbe{}
	md := goldmark.New(goldmark.WithExtensions(extension.Footnote),
		goldmark.WithParserOptions(parser.WithASTTransformers(util.Prioritized(probe, 998))))
	var doc ast.Node
	func() {
		defer func() { recover() }()
		doc = md.Parser().Parse(text.NewReader(src))
	}()
	if doc == nil || len(probe.defs) == 0 {
		return
	}
	var ls []string
	for _, l := range probe.links {
		ls = append(ls, fmt.Sprintf("%d.%d.%d", l.Index, l.RefCount, l.RefIndex))
	}
	var items []string
	var walk func(n ast.Node)
	walk = func(n ast.Node) {
		if fl, ok := n.(*east.FootnoteList); ok {
			for d := fl.FirstChild(); d != nil; d = d.NextSibling() {
				f := d.(*east.Footnote)
				var bl []string
				var bw func(x ast.Node)
				bw = func(x ast.Node) {
					if b, ok := x.(*east.FootnoteBacklink); ok {
						bl = append(bl, fmt.Sprintf("%d.%d.%d", b.Index, b.RefCount, b.RefIndex))
					}
					for cc := x.FirstChild(); cc != nil; cc = cc.NextSibling() {
						bw(cc)
					}
				}
				bw(f)
				items = append(items, fmt.Sprintf("%d:%s", f.Index, strings.Join(bl, ",")))
			}
			return
		}
		for cc := n.FirstChild(); cc != nil; cc = cc.NextSibling() {
			walk(cc)
		}
	}
	walk(doc)
	evs := strings.Join(probe.evs, ";")
	if evs == "" {
		evs = "none"
	}
	c.Case("Footnotes", []string{strings.Join(probe.defs, ";"), evs}, strings.Join(ls, ",")+"|"+strings.Join(items, ";"))
}
