package main

import (
	"bytes"
	"fmt"
	"strings"
	"unicode"
	"unicode/utf8"

	"github.com/yuin/goldmark/util"
)

func init() { runners["C19"] = runC19 }

var c19Alpha = []byte{'&', '#', ';', 'x', '1', 'a', '%', '\\', ' ', '<', '"', '\t', 0xC3, 0xA9, 0xE3, 'Z'}

var c19Tokens = []string{"&amp;", "&lt;", "&quot;", "&#65;", "&#065;", "&#x41;", "&#X6a;", "&#0;", "&#xD800;", "&#1114112;", "&#12345678;",
	"&colon;", "&Tab;", "&NewLine;", "&ouml;", "&bogus;", "&amp", "%41", "%4g", "%", "%a", "\\:", "\\\\", "\\a", " ", "  ", "\t", "\n", "\x0b", "\x0c", "\r",
	"a", "Z", "é", "É", "ẞ", "µ", "Σ", "ς", "あ", "\xc3", "\xe3\x81", "\x80", "\xff", "\xf0\x9f\x98\x80", "İ", "ǰ", "<", ">", "\"", "'", "`", "{", "}", "|", "^", "[", "]",
	"javascript:", "/", "?", "=", "+", "~", "\x00", "\x7f", "\x1f"}

func c19Random(r *RNG, maxTok int) []byte {
	n := 1 + r.Intn(maxTok)
	var b []byte
	for i := 0; i < n; i++ {
		b = append(b, r.PickS(c19Tokens)...)
	}
	return b
}

func isHexB(c byte) bool {
	return c >= '0' && c <= '9' || c >= 'a' && c <= 'f' || c >= 'A' && c <= 'F'
}

// independent decoder of the four references EscapeHTML may produce
func decode4(b []byte) ([]byte, bool) {
	var out []byte
	for i := 0; i < len(b); {
		c := b[i]
		if c == '<' || c == '>' || c == '"' {
			return nil, false
		}
		if c == '&' {
			rest := string(b[i:])
			switch {
			case strings.HasPrefix(rest, "&quot;"):
				out = append(out, '"')
				i += 6
			case strings.HasPrefix(rest, "&amp;"):
				out = append(out, '&')
				i += 5
			case strings.HasPrefix(rest, "&lt;"):
				out = append(out, '<')
				i += 4
			case strings.HasPrefix(rest, "&gt;"):
				out = append(out, '>')
				i += 4
			default:
				return nil, false
			}
			continue
		}
		out = append(out, c)
		i++
	}
	return out, true
}

func c19UrlOutOK(out []byte) string {
	for i, c := range out {
		if c <= 0x20 || c == 0x7f || c == '"' || c == '<' || c == '>' {
			return fmt.Sprintf("forbidden byte %#x at %d", c, i)
		}
		if c == '%' {
			if !(i+2 < len(out) && isHexB(out[i+1]) && isHexB(out[i+2])) {
				return fmt.Sprintf("%% at %d not followed by two hex digits", i)
			}
		}
	}
	return ""
}

func caseVariant(r *RNG, v []byte) []byte {
	// change letter case (any member of the rune's simple-case-folding orbit) and stretch
	// whitespace runs; by the property this keeps the label's identity
	var out []byte
	for i := 0; i < len(v); {
		c := v[i]
		if util.IsSpace(c) {
			out = append(out, c)
			for k := r.Intn(3); k > 0; k-- {
				out = append(out, " \t\n"[r.Intn(3)])
			}
			i++
			continue
		}
		rn, w := utf8.DecodeRune(v[i:])
		if rn == utf8.RuneError {
			out = append(out, v[i:i+w]...)
			i += w
			continue
		}
		for k := r.Intn(4); k > 0; k-- {
			rn = unicode.SimpleFold(rn)
		}
		out = utf8.AppendRune(out, rn)
		i += w
	}
	return out
}

func runC19(c *Ctx) {
	c.Rep.Rule = "cases = (function, input bytes); distinct by hash of both; non-trivial = input contains a byte the function treats specially (& % \\ space < > \" non-ASCII, upper-case) or is a filter program with >= 2 colliding keys"
	special := func(b []byte) bool {
		for _, x := range b {
			if x == '&' || x == '%' || x == '\\' || x == ' ' || x == '<' || x == '>' || x == '"' || x >= 0x80 || x == '\t' || (x >= 'A' && x <= 'Z') {
				return true
			}
		}
		return false
	}
	safe := func(f func() []byte) (out []byte, panicked bool) {
		defer func() {
			if r := recover(); r != nil {
				panicked = true
			}
		}()
		return f(), false
	}
	one := func(stream string, v []byte) {
		in := append([]byte(nil), v...)
		h := hx(in)
		nt := special(in)
		type fn struct {
			name string
			args []string
			f    func() []byte
		}
		fns := []fn{
			{"EscapeHTML", []string{h}, func() []byte { return util.EscapeHTML(in) }},
			{"URLEscape", []string{h, "0"}, func() []byte { return util.URLEscape(in, false) }},
			{"URLEscape", []string{h, "1"}, func() []byte { return util.URLEscape(in, true) }},
			{"UnescapePunctuations", []string{h}, func() []byte { return util.UnescapePunctuations(in) }},
			{"ResolveNumericReferences", []string{h}, func() []byte { return util.ResolveNumericReferences(in) }},
			{"ResolveEntityNames", []string{h}, func() []byte { return util.ResolveEntityNames(in) }},
			{"TrimLeftSpace", []string{h}, func() []byte { return util.TrimLeftSpace(in) }},
			{"TrimRightSpace", []string{h}, func() []byte { return util.TrimRightSpace(in) }},
			{"DoFullUnicodeCaseFolding", []string{h}, func() []byte { return util.DoFullUnicodeCaseFolding(in) }},
			{"ReplaceSpaces", []string{h, "32"}, func() []byte { return util.ReplaceSpaces(in, ' ') }},
			{"ToLinkReference", []string{h}, func() []byte { return []byte(util.ToLinkReference(in)) }},
		}
		for _, f := range fns {
			out, p := safe(f.f)
			res := hx(out)
			if p {
				res = "PANIC"
				c.Violate("panic", map[string]string{"fn": f.name, "input": q(in)}, "panic in "+f.name, "panic:"+f.name)
			}
			c.Case(f.name, f.args, res)
			c.Count(stream, f.name+strings.Join(f.args, ","), nt)
			if !bytes.Equal(in, v) {
				c.Violate("input-modified", map[string]string{"fn": f.name, "input": q(v)}, "input slice modified", "modified:"+f.name)
				copy(in, v)
			}
			if p {
				continue
			}
			// direct law oracles on the implementation (used for the counterexample search)
			switch {
			case f.name == "EscapeHTML":
				if d, ok := decode4(out); !ok || !bytes.Equal(d, in) {
					c.Violate("law:EscapeHTML", map[string]string{"input": q(in)}, fmt.Sprintf("output %q is not in the escape alphabet or does not decode to the input", out), "law:EscapeHTML")
				}
			case f.name == "URLEscape":
				resolve := f.args[1] == "1"
				if m := c19UrlOutOK(out); m != "" {
					c.Violate("law:URLEscape-alphabet", map[string]string{"input": q(in), "resolve": f.args[1]}, fmt.Sprintf("output %q: %s", out, m), "law:URLEscape-alphabet")
				}
				if again := util.URLEscape(out, false); !bytes.Equal(again, out) {
					c.Violate("law:URLEscape-idempotent", map[string]string{"input": q(in), "resolve": f.args[1]}, fmt.Sprintf("URLEscape(%q,false)=%q", out, again), "law:URLEscape-idempotent")
				}
				if !resolve && utf8.Valid(in) {
					for _, x := range out {
						if x >= 0x80 {
							c.Violate("law:URLEscape-ascii", map[string]string{"input": q(in)}, fmt.Sprintf("non-ASCII byte in %q", out), "law:URLEscape-ascii")
							break
						}
					}
				}
			case f.name == "UnescapePunctuations" || f.name == "ResolveNumericReferences" || f.name == "ResolveEntityNames":
				if utf8.Valid(in) && !utf8.Valid(out) {
					c.Violate("law:resolver-utf8", map[string]string{"fn": f.name, "input": q(in)}, fmt.Sprintf("valid UTF-8 became %q", out), "law:resolver-utf8")
				}
			case f.name == "ToLinkReference":
				if again := util.ToLinkReference(out); again != string(out) {
					c.Violate("law:ToLinkReference-idempotent", map[string]string{"input": q(in)}, fmt.Sprintf("%q -> %q", out, again), "law:ToLinkReference-idempotent")
				}
				vr := caseVariant(c.R, in)
				if k2 := util.ToLinkReference(vr); k2 != string(out) {
					c.Violate("law:ToLinkReference-identifies", map[string]string{"input": q(in), "variant": q(vr)}, fmt.Sprintf("%q vs %q", out, k2), "law:ToLinkReference-identifies")
				}
			}
		}
		c.Sample(map[string]string{"stream": stream, "input": q(in)})
	}

	// stream 1: exhaustive over the alphabet
	L := 3
	if !c.Quick() {
		L = 4
	}
	enumStrings(c19Alpha, L, func(b []byte) { one(fmt.Sprintf("exhaustive<=%d", L), b) })
	// stream 2: random token strings
	nRand := 6000
	if !c.Quick() {
		nRand = 120000
	}
	for i := 0; i < nRand; i++ {
		one("random-tokens", c19Random(c.R, 8))
	}
	// stream 3: single runes around the UTF-8 boundaries, every entity, every folding source
	for _, r := range []rune{0, 1, 0x7f, 0x80, 0x7ff, 0x800, 0xd7ff, 0xe000, 0xfffd, 0xffff, 0x10000, 0x10ffff} {
		one("boundaries", []byte(string(r)))
		one("boundaries", []byte(fmt.Sprintf("&#%d;", r)))
		one("boundaries", []byte(fmt.Sprintf("&#x%x;", r)))
	}
	for _, s := range []string{"&#xD800;", "&#xDFFF;", "&#x110000;", "&#xFFFFFFFF;", "&#x100000000;", "&#4294967296;", "&#9999999;", "&#00000065;", "&#x0000000000041;"} {
		one("boundaries", []byte(s))
	}
	// numeric references of every length up to 20 digits: low bits that spell a valid rune behind
	// high bits that make the value too large, leading zeros, both bases, with and without ';'
	for n := 1; n <= 20; n++ {
		for k := 0; k < 12; k++ {
			hexd := make([]byte, n)
			decd := make([]byte, n)
			for i := range hexd {
				hexd[i] = "0123456789abcdefABCDEF"[c.R.Intn(22)]
				decd[i] = byte('0' + c.R.Intn(10))
			}
			switch k % 4 {
			case 0: // ...0041
				if n >= 2 {
					copy(hexd[n-2:], "41")
					for i := 1; i < n-2; i++ {
						hexd[i] = '0'
					}
				}
			case 1:
				for i := 0; i < n-2; i++ {
					hexd[i], decd[i] = '0', '0'
				}
			}
			for _, x := range []string{"x", "X"} {
				one("numeric-refs", []byte("&#"+x+string(hexd)+";"))
			}
			one("numeric-refs", []byte("&#"+string(decd)+";"))
			one("numeric-refs", []byte("a&#x"+string(hexd)+" b"))
			one("numeric-refs", []byte("/u&#"+string(decd)+";&#x"+string(hexd)+";"))
		}
	}
	nEnt := 0
	util.VerifEntities(func(name string, _ []byte) {
		if c.Quick() && nEnt%7 != int(c.Seed%7) {
			nEnt++
			return
		}
		nEnt++
		one("entities", []byte("&"+name+";"))
	})
	for r := range util.VerifCaseFoldings() {
		one("foldings", []byte("x"+string(r)+" Y"))
	}
	// single bytes: predicates
	for i := 0; i < 256; i++ {
		c.Case("IsPunct", []string{itoa(i)}, btoa(util.IsPunct(byte(i))))
		c.Case("IsSpace", []string{itoa(i)}, btoa(util.IsSpace(byte(i))))
	}
	// utf8 model vs library
	for i := 0; i < 4000; i++ {
		b := randBytes(c.R, []byte{0x00, 0x41, 0x7f, 0x80, 0x8f, 0x90, 0x9f, 0xa0, 0xbf, 0xc0, 0xc1, 0xc2, 0xdf, 0xe0, 0xe1, 0xed, 0xee, 0xef, 0xf0, 0xf1, 0xf4, 0xf5, 0xff}, 5)
		r, w := utf8.DecodeRune(b)
		c.Case("DecodeRune", []string{hx(b)}, fmt.Sprintf("%d:%d", r, w))
		c.Case("ValidUTF8", []string{hx(b)}, btoa(utf8.Valid(b)))
	}
	for _, r := range []rune{0, 0x41, 0x7f, 0x80, 0x7ff, 0x800, 0xd7ff, 0xd800, 0xdfff, 0xe000, 0xfffd, 0xffff, 0x10000, 0x10ffff, 0x110000} {
		buf := make([]byte, 4)
		n := utf8.EncodeRune(buf, r)
		c.Case("EncodeRune", []string{itoa(int(r))}, hx(buf[:n]))
	}
	// ToRune
	for i := 0; i < 3000; i++ {
		b := randBytes(c.R, []byte{'a', 0x80, 0xbf, 0xc3, 0xe3, 0x81, 0xf0}, 5)
		for pos := 0; pos < len(b); pos++ {
			in := append([]byte(nil), b...)
			res := "PANIC"
			func() {
				defer func() { recover() }()
				res = itoa(int(util.ToRune(in, pos)))
			}()
			if res == "PANIC" {
				c.Violate("panic", map[string]string{"fn": "ToRune", "input": q(in), "pos": itoa(pos)}, "ToRune panicked on an in-range position", "panic:ToRune")
			}
			c.Case("ToRune", []string{hx(b), itoa(pos)}, res)
		}
	}
	runC19Filters(c)
}

// ---- BytesFilter programs ----

func collidingKeys(n int) [][]byte {
	// keys whose bytesHash falls into one bucket: half share their first three bytes
	// (so that the prefix bitmap cannot tell them apart), half do not
	var keys [][]byte
	target := util.VerifBytesHash([]byte("key0")) % 64
	for i := 0; len(keys) < n/2; i++ {
		k := []byte(fmt.Sprintf("key%d", i))
		if util.VerifBytesHash(k)%64 == target {
			keys = append(keys, k)
		}
	}
	enumStrings([]byte("abcdefgh"), 4, func(b []byte) {
		if len(b) == 0 || len(keys) >= n {
			return
		}
		if util.VerifBytesHash(b)%64 == target {
			keys = append(keys, b)
		}
	})
	return keys
}

func runC19Filters(c *Ctx) {
	keys := collidingKeys(10)
	other := [][]byte{[]byte("id"), []byte("class"), []byte("x"), []byte(""), []byte("abcde"), []byte("data-x")}
	// keys around the word sizes a length bitmap or a small fixed buffer would have: 31, 32, 33,
	// 63, 64, 65, 127, 128, 129, 255, 256, 257 bytes, two different keys of each length
	for _, n := range []int{31, 32, 33, 63, 64, 65, 127, 128, 129, 255, 256, 257} {
		other = append(other, bytes.Repeat([]byte("a"), n), append(bytes.Repeat([]byte("a"), n-1), 'b'))
	}
	all := append(append([][]byte{}, keys...), other...)
	for i, k := range all {
		c.Case("BytesHashMod64", []string{hx(k)}, itoa(int(util.VerifBytesHash(k)%64)))
		_ = i
	}
	nProg := 3000
	if !c.Quick() {
		nProg = 60000
	}
	for p := 0; p < nProg; p++ {
		targeted := p%2 == 0
		// the program is interpreted on the real filters and, by modelrun, on the model
		filters := []util.BytesFilter{util.NewBytesFilter()}
		ref := []map[string]bool{{}}
		cur := 0
		var prog []string
		var out strings.Builder
		nOps := 2 + c.R.Intn(14)
		coll := 0
		// targeted shape: fill one bucket of the root, derive siblings that add colliding
		// keys, let the parent grow afterwards, then query everything everywhere
		var script []int
		if targeted {
			for j := c.R.Intn(6); j > 0; j-- {
				script = append(script, 0)
			}
			for j := 2 + c.R.Intn(3); j > 0; j-- {
				script = append(script, 6, 2)
			}
			script = append(script, 6, 0, 0)
			for j := 0; j < 10; j++ {
				script = append(script, 3, 4, 4)
			}
			nOps = len(script)
		}
		for o := 0; o < nOps; o++ {
			k := all[c.R.Intn(len(all))]
			if c.R.Intn(3) > 0 || targeted {
				k = keys[c.R.Intn(len(keys))]
				coll++
			}
			op := c.R.Intn(6)
			if targeted {
				op = script[o]
				if op == 6 { // select the root
					cur = 0
					prog = append(prog, "s0")
					continue
				}
			}
			switch op {
			case 0, 1:
				filters[cur].Add(k)
				ref[cur][string(k)] = true
				prog = append(prog, "a"+hx(k))
			case 2:
				nk := c.R.Intn(3)
				if targeted {
					nk = 1
				}
				var ks [][]byte
				var hs []string
				for j := 0; j < nk; j++ {
					kk := all[c.R.Intn(len(all))]
					if targeted {
						kk = keys[c.R.Intn(len(keys))]
					}
					if len(kk) == 0 || bytes.Contains(kk, []byte(",")) {
						continue
					}
					ks = append(ks, kk)
					hs = append(hs, hx(kk))
				}
				var nf util.BytesFilter
				if c.R.Bool() {
					nf = filters[cur].Extend(ks...)
				} else {
					var ss []string
					for _, kk := range ks {
						ss = append(ss, string(kk))
					}
					nf = filters[cur].ExtendString(strings.Join(ss, ","))
				}
				nm := map[string]bool{}
				for s := range ref[cur] {
					nm[s] = true
				}
				for _, kk := range ks {
					nm[string(kk)] = true
				}
				filters = append(filters, nf)
				ref = append(ref, nm)
				prog = append(prog, "e"+strings.Join(hs, ";"))
			case 3:
				cur = c.R.Intn(len(filters))
				prog = append(prog, "s"+itoa(cur))
			default:
				got := filters[cur].Contains(k)
				out.WriteString(btoa(got))
				prog = append(prog, "c"+hx(k))
				if got != ref[cur][string(k)] {
					c.Violate("law:BytesFilter-set", map[string]string{"program": strings.Join(prog, ",")},
						fmt.Sprintf("Contains(%q)=%v but the set semantics gives %v", k, got, ref[cur][string(k)]), "law:BytesFilter-set")
				}
			}
		}
		ps := strings.Join(prog, ",")
		c.Case("FilterProg", []string{ps}, out.String())
		c.Count("filter-programs", "FilterProg"+ps, coll >= 2)
		if p < 2 {
			c.Sample(map[string]string{"stream": "filter-programs", "program": ps})
		}
	}
}
