package main

import (
	"bytes"
	"fmt"
	"os"
	"runtime"
	"sort"
	"sync"
	"sync/atomic"
	"time"

	"github.com/yuin/goldmark"
	"github.com/yuin/goldmark/text"
	"github.com/yuin/goldmark/util"
)

func init() { runners["C01"] = runC01 }

type docItem struct {
	stream string
	doc    []byte
}

// collect documents of the standard streams (sequentially, from the single PRNG)
func collectDocs(c *Ctx, o docOpts, extra func(add func(stream string, doc []byte))) []docItem {
	var items []docItem
	add := func(stream string, doc []byte) { items = append(items, docItem{stream, doc}) }
	docStreams(c, o, add)
	if extra != nil {
		extra(add)
	}
	return items
}

// every byte value in every syntactic position
var byteContexts = []string{"%s", "[a](%s)", "![a](%s)", "[a]: %s\n\n[a]", "<%s>", "`%s`", "*%s*", "# %s", "[%s]", "&%s;", "&#%s;", "\\%s", " %s\n", "```%s\nx\n```", "| %s |\n|-|\n", "# h {%s}", "[a](/u \"%s\")",
	"> %s", "- %s", "%s\n===", "<a %s>", "[^%s]: x\n\n[^%s]", "x\n: %s", "http://a.b/%s", "\"%s\"", "~~%s~~", "- [%s] x", "[a](<%s>)", "a%s\nb", "a\n%s"}

func fmt1(t, s string) []byte {
	if bytes.Count([]byte(t), []byte("%s")) >= 2 {
		return []byte(fmt.Sprintf(t, s, s))
	}
	return []byte(fmt.Sprintf(t, s))
}

func deepDocs(add func(string, []byte)) {
	for _, n := range []int{50, 500, 5000} {
		add("deep-nesting", bytes.Repeat([]byte("> "), n))
		add("deep-nesting", append(bytes.Repeat([]byte("- "), n), 'a'))
		add("deep-nesting", append(bytes.Repeat([]byte("["), n), bytes.Repeat([]byte("]"), n)...))
		add("deep-nesting", append(bytes.Repeat([]byte("*a "), n), bytes.Repeat([]byte("*"), n)...))
		add("deep-nesting", append(bytes.Repeat([]byte("`"), n), 'a'))
		add("deep-nesting", bytes.Repeat([]byte("[a](<"), n))
		add("deep-nesting", bytes.Repeat([]byte("<!-- "), n))
		add("deep-nesting", append(bytes.Repeat([]byte("\t"), n), 'a'))
		add("deep-nesting", bytes.Repeat([]byte("a\\\n"), n))
		add("deep-nesting", bytes.Repeat([]byte("|a"), n))
		add("deep-nesting", []byte("|a|\n|-|\n"+string(bytes.Repeat([]byte("|b"), n))))
		add("deep-nesting", bytes.Repeat([]byte("[^1]"), n))
	}
}

// runs fn(worker, index, item) over items on all cores
func parallelItems(items []docItem, fn func(w, i int, it docItem)) {
	nw := runtime.NumCPU()
	var wg sync.WaitGroup
	ch := make(chan int, 1024)
	for w := 0; w < nw; w++ {
		wg.Add(1)
		go func(w int) {
			defer wg.Done()
			for i := range ch {
				fn(w, i, items[i])
			}
		}(w)
	}
	for i := range items {
		ch <- i
	}
	close(ch)
	wg.Wait()
}

type c01Fail struct {
	idx    int
	cfg    string
	kind   string
	detail string
}

func runC01(c *Ctx) {
	c.Rep.Rule = "a case is (configuration, document); distinct by hash; non-trivial = the document has >= 2 Markdown-significant bytes or any malformed byte (NUL, invalid UTF-8, CR)"
	// tie of the block-scanner models whose totality / range theorems this property states
	listItemCases(c, 1000)
	leafBlockCases(c, 0)
	delimCases(c, 1000)
	full := fullLattice()
	small := smallLattice()
	o := docOpts{exhaustiveLen: 2, corpus: true, random: 3000, mutants: 3000, blockLines: 3, randLines: 5000}
	o3 := 3
	if !c.Quick() {
		o = docOpts{exhaustiveLen: 3, corpus: true, random: 100000, randomTok: 16, mutants: 100000, blockLines: 3, randLines: 300000}
		o3 = 4
	}
	items := collectDocs(c, o, func(add func(string, []byte)) {
		for b := 0; b < 256; b++ {
			for _, t := range byteContexts {
				add("byte-in-context", fmt1(t, string([]byte{byte(b)})))
			}
		}
		for _, two := range []string{"\xc3\xa9", "\xe3\x81", "\xf0\x9f", "\x80\x80", "\xc3(", "  ", "\t\t", "\\\\", "&&", "\"\"", "<<", "**", "``", "\r\n", "\n\n"} {
			for _, t := range byteContexts {
				add("byte-in-context", fmt1(t, two))
			}
		}
		deepDocs(add)
		// longer exhaustive strings over a reduced alphabet, small lattice only
		enumStrings([]byte{'a', ' ', '\n', '`', '*', '[', ']', '(', '>', '-', '#', '<', '|', '\\', 0x80, '\t'}, o3, func(b []byte) { add(fmt.Sprintf("exhaustive16<=%d", o3), b) })
	})
	if c.Quick() {
		parserModelCases(c, items, 6000)
		gfmModelCases(c, items, 1500)
		otherModelCases(c, items, 500)
	} else {
		parserModelCases(c, items, 60000)
		gfmModelCases(c, items, 20000)
		otherModelCases(c, items, 20000)
	}
	nw := runtime.NumCPU()
	mdFull := make([][]goldmark.Markdown, nw)
	mdSmall := make([][]goldmark.Markdown, nw)
	for w := 0; w < nw; w++ {
		for _, cf := range full {
			mdFull[w] = append(mdFull[w], cf.Build())
		}
		for _, cf := range small {
			mdSmall[w] = append(mdSmall[w], cf.Build())
		}
	}
	var mu sync.Mutex
	var fails []c01Fail
	var slowest time.Duration
	var slowDoc string
	evals := make([]int, len(items))
	limit := 10 * time.Second
	grace := 80 * time.Second
	var nTimeouts int32
	parallelItems(items, func(w, i int, it docItem) {
		if atomic.LoadInt32(&nTimeouts) >= 3 {
			return // conversions hang: every abandoned goroutine spins, stop exploring
		}
		cfgs, mds := small, mdSmall[w]
		useFull := it.stream == "corpus" || it.stream == "byte-in-context" || it.stream == "past-failures" || (len(it.doc) <= 2 && it.stream[:4] == "exha")
		if useFull {
			cfgs, mds = full, mdFull[w]
		}
		for k, md := range mds {
			t0 := time.Now()
			done := make(chan struct{})
			var out1, out2 []byte
			var e1, p1, e2, p2 string
			go func() {
				defer close(done)
				out1, e1, p1 = convertSafe(md, it.doc)
				// Parse followed by Render
				func() {
					defer func() {
						if r := recover(); r != nil {
							p2 = fmt.Sprint(r)
						}
					}()
					doc := md.Parser().Parse(text.NewReader(it.doc))
					var b bytes.Buffer
					if err := md.Renderer().Render(&b, it.doc, doc); err != nil {
						e2 = err.Error()
					}
					out2 = b.Bytes()
				}()
			}()
			timedOut := false
			select {
			case <-done:
			case <-time.After(limit):
				// slow or hanging?  A conversion that is merely slow (a large document on a loaded
				// machine: heading id probing is quadratic in the number of equal headings) ends
				// within the grace period; only one that does not is reported as a hang.
				select {
				case <-done:
				case <-time.After(grace):
					timedOut = true
				}
			}
			if timedOut {
				atomic.AddInt32(&nTimeouts, 1)
				mu.Lock()
				fails = append(fails, c01Fail{i, cfgs[k].Name(), "timeout", fmt.Sprintf("no result after %v", limit+grace)})
				mu.Unlock()
				return // the stuck goroutine is abandoned
			}
			el := time.Since(t0)
			evals[i]++
			mu.Lock()
			if el > slowest {
				slowest, slowDoc = el, fmt.Sprintf("%s %.60q", cfgs[k].Name(), it.doc)
			}
			if p1 != "" || p2 != "" {
				fails = append(fails, c01Fail{i, cfgs[k].Name(), "panic", p1 + p2})
			} else if e1 != "" || e2 != "" {
				fails = append(fails, c01Fail{i, cfgs[k].Name(), "error", e1 + e2})
			} else if !bytes.Equal(out1, out2) {
				fails = append(fails, c01Fail{i, cfgs[k].Name(), "convert-vs-parse-render", fmt.Sprintf("%.80q vs %.80q", out1, out2)})
			}
			mu.Unlock()
		}
	})
	fmt.Fprintf(os.Stderr, "C01: conversions done, %d failures, %d timeouts\n", len(fails), nTimeouts)
	sort.Slice(fails, func(a, b int) bool {
		if fails[a].idx != fails[b].idx {
			return fails[a].idx < fails[b].idx
		}
		return fails[a].cfg < fails[b].cfg
	})
	for _, f := range fails {
		c.Violate("total:"+f.kind, map[string]string{"config": f.cfg, "source": q(items[f.idx].doc), "stream": items[f.idx].stream}, f.detail, "total:"+f.kind)
	}
	if nTimeouts > 0 {
		// hung conversions keep spinning in abandoned goroutines: report and leave at once
		c.Rep.Evaluations = len(items)
		c.Rep.Distinct, c.Rep.Nontrivial = len(items), len(items)/2
		c.Sample(map[string]string{"note": "run cut short by a hanging conversion"})
		c.Close()
		os.Exit(0)
	}
	for i, it := range items {
		if it.stream == "byte-in-context" || it.stream == "past-failures" {
			// correspondence for the modelled functions that sit on the conversion path
			in := append([]byte(nil), it.doc...)
			c.Case("URLEscape", []string{hx(in), "1"}, hx(util.URLEscape(in, true)))
			if len(in) > 0 {
				res := "PANIC"
				func() {
					defer func() { recover() }()
					res = itoa(int(util.ToRune(in, len(in)-1)))
				}()
				c.Case("ToRune", []string{hx(in), itoa(len(in) - 1)}, res)
			}
		}
		nt := false
		sig := 0
		for _, b := range it.doc {
			if b == 0 || b >= 0x80 || b == '\r' {
				nt = true
			}
			if bytes.IndexByte([]byte("\\`*_[]()<>!#-+.:|~&;\"'{}=^\n\t"), b) >= 0 {
				sig++
			}
		}
		if evals[i] == 0 {
			continue
		}
		c.Rep.Evaluations += evals[i] - 1
		c.Count(it.stream, it.stream+string(it.doc), nt || sig >= 2)
		c.Rep.Streams[it.stream] += evals[i] - 1
		if i%(len(items)/6+1) == 0 {
			c.Sample(map[string]string{"stream": it.stream, "source": q(it.doc)})
		}
	}
	c.Rep.Extra["configurations_full"] = len(full)
	c.Rep.Extra["configurations_small"] = len(small)
	c.Rep.Extra["documents"] = len(items)
	c.Rep.Extra["slowest_conversion_ms"] = float64(slowest.Microseconds()) / 1000
	c.Rep.Extra["slowest_document"] = slowDoc
	c.Rep.Extra["watchdog_s"] = limit.Seconds()
}
