package main

// AST dump through the public node API, in the line format read by ocaml/dispatch2.ml.

import (
	"bytes"
	"fmt"
	"strings"

	"github.com/yuin/goldmark"
	"github.com/yuin/goldmark/ast"
	east "github.com/yuin/goldmark/extension/ast"
	"github.com/yuin/goldmark/text"
)

func segS(s text.Segment) string {
	return fmt.Sprintf("%d:%d:%d:%s", s.Start, s.Stop, s.Padding, btoa(s.ForceNewline))
}

func optHex(b []byte) string {
	if b == nil {
		return "n"
	}
	return "h" + hx(b)
}

func dumpAttrs(n ast.Node) string {
	as := n.Attributes()
	if as == nil {
		return "N"
	}
	if len(as) == 0 {
		return "E"
	}
	var out []string
	for _, a := range as {
		switch t := a.Value.(type) {
		case []byte:
			out = append(out, fmt.Sprintf("%s:b:%s", hx(a.Name), hx(t)))
		case string:
			out = append(out, fmt.Sprintf("%s:s:%s", hx(a.Name), hx([]byte(t))))
		default:
			out = append(out, fmt.Sprintf("%s:o:-", hx(a.Name)))
		}
	}
	return strings.Join(out, ";")
}

// returns the dump and false if the tree contains something the model does not cover
func dumpTree(root ast.Node, src []byte) (string, bool) {
	var nodes []string
	ok := true
	var rec func(n ast.Node, depth int)
	rec = func(n ast.Node, depth int) {
		kind := n.Kind().String()
		fields := "-"
		switch v := n.(type) {
		case *ast.Heading:
			fields = itoa(v.Level)
		case *ast.FencedCodeBlock:
			// Language() caches its result in the node; the dump is taken from a tree that is
			// rendered afterwards, so calling it here does not change what the renderer sees
			fields = optHex(v.Language(src))
		case *ast.HTMLBlock:
			if v.HasClosure() {
				fields = segS(v.ClosureLine)
			} else {
				fields = "n"
			}
		case *ast.List:
			fields = btoa(v.IsOrdered()) + ":" + itoa(v.Start)
		case *ast.Text:
			fields = segS(v.Segment) + ":" + btoa(v.SoftLineBreak()) + ":" + btoa(v.HardLineBreak()) + ":" + btoa(v.IsRaw())
		case *ast.String:
			fields = hx(v.Value) + ":" + btoa(v.IsRaw()) + ":" + btoa(v.IsCode())
		case *ast.Emphasis:
			fields = itoa(v.Level)
		case *ast.Link:
			fields = hx(v.Destination) + ":" + optHex(v.Title)
		case *ast.Image:
			fields = hx(v.Destination) + ":" + optHex(v.Title)
		case *ast.AutoLink:
			fields = btoa(v.AutoLinkType == ast.AutoLinkEmail) + ":" + hx(v.URL(src)) + ":" + hx(v.Label(src))
		case *ast.RawHTML:
			var ss []string
			for i := 0; i < v.Segments.Len(); i++ {
				ss = append(ss, segS(v.Segments.At(i)))
			}
			fields = strings.Join(ss, ",")
			if fields == "" {
				fields = "-"
			}
		case *east.TableCell:
			fields = itoa(int(v.Alignment))
		case *east.TaskCheckBox:
			fields = btoa(v.IsChecked)
		case *east.FootnoteLink:
			fields = fmt.Sprintf("%d:%d:%d", v.Index, v.RefCount, v.RefIndex)
		case *east.FootnoteBacklink:
			fields = fmt.Sprintf("%d:%d:%d", v.Index, v.RefCount, v.RefIndex)
		case *east.Footnote:
			fields = itoa(v.Index)
		case *east.DefinitionDescription:
			fields = btoa(v.IsTight)
		}
		lines := "-"
		if n.Type() != ast.TypeInline {
			if ls := n.Lines(); ls != nil && ls.Len() > 0 {
				var ss []string
				for i := 0; i < ls.Len(); i++ {
					ss = append(ss, segS(ls.At(i)))
				}
				lines = strings.Join(ss, ",")
			}
		}
		nodes = append(nodes, fmt.Sprintf("%d|%s|%s|%s|%s", depth, kind, fields, lines, dumpAttrs(n)))
		for c := n.FirstChild(); c != nil; c = c.NextSibling() {
			rec(c, depth+1)
		}
	}
	rec(root, 0)
	return strings.Join(nodes, "~"), ok
}

func rcfgStr(cf Cfg) string {
	return fmt.Sprintf("%s,%s,%s,%d", btoa(cf.Unsafe), btoa(cf.XHTML), btoa(cf.HardWraps), cf.TableAlign)
}

// one tree-correspondence case: Parse with md, dump the tree, Render it with md's renderer
func treeCase(md goldmark.Markdown, cf Cfg, src []byte) (args []string, result string, ok bool) {
	defer func() {
		if r := recover(); r != nil {
			ok = false
		}
	}()
	if len(src) > 3000 || cf.Opts || cf.FnPrefix != "" {
		// (the renderer model has no extension options)
		return nil, "", false
	}
	doc := md.Parser().Parse(text.NewReader(src))
	d, okd := dumpTree(doc, src)
	if !okd {
		return nil, "", false
	}
	var b bytes.Buffer
	res := ""
	func() {
		defer func() {
			if r := recover(); r != nil {
				res = "PANIC"
			}
		}()
		if err := md.Renderer().Render(&b, src, doc); err != nil {
			res = "ERR"
		}
	}()
	if res == "" {
		res = hx(b.Bytes())
	}
	return []string{rcfgStr(cf), hx(src), d}, res, true
}
