package main

// Correspondence cases for the footnote parser model (coq/model/FootnoteParseBlock.v,
// FootnoteParseInline.v, FootnoteParse.v, FootnoteI.v): goldmark with extension.Footnote on
// top of the default parser is run on a document; the tree dump and the bytes of Convert are
// what the model side re-computes from the extracted model.
//
// Case kinds:
//   ParseTreeFn  src        => tree dump of goldmark.New(WithExtensions(extension.Footnote)).Parser().Parse
//   ConvertFn    rcfg src   => bytes of Convert of the same with the renderer options rcfg

import (
	"bytes"
	"fmt"
	"strings"

	"github.com/yuin/goldmark"
	"github.com/yuin/goldmark/extension"
	"github.com/yuin/goldmark/renderer"
	"github.com/yuin/goldmark/renderer/html"
	"github.com/yuin/goldmark/text"
)

var fnMDs = map[string]goldmark.Markdown{}

func fnMarkdown(cf Cfg) goldmark.Markdown {
	key := rcfgStr(cf)
	if md, ok := fnMDs[key]; ok {
		return md
	}
	var ro []renderer.Option
	if cf.Unsafe {
		ro = append(ro, html.WithUnsafe())
	}
	if cf.XHTML {
		ro = append(ro, html.WithXHTML())
	}
	if cf.HardWraps {
		ro = append(ro, html.WithHardWraps())
	}
	md := goldmark.New(goldmark.WithExtensions(extension.Footnote), goldmark.WithRendererOptions(ro...))
	fnMDs[key] = md
	return md
}

func parseTreeFnCase(c *Ctx, src []byte) {
	if len(src) > 600 {
		return
	}
	res := ""
	func() {
		defer func() {
			if r := recover(); r != nil {
				res = "PANIC"
			}
		}()
		doc := fnMarkdown(Cfg{}).Parser().Parse(text.NewReader(src))
		res, _ = dumpTree(doc, src)
	}()
	c.Case("ParseTreeFn", []string{hx(src)}, res)
}

func convertFnCase(c *Ctx, cf Cfg, src []byte) {
	if len(src) > 600 {
		return
	}
	res := ""
	func() {
		defer func() {
			if r := recover(); r != nil {
				res = "PANIC"
			}
		}()
		var b bytes.Buffer
		if err := fnMarkdown(cf).Convert(src, &b); err != nil {
			res = "ERR"
			return
		}
		res = hx(b.Bytes())
	}()
	c.Case("ConvertFn", []string{rcfgStr(cf), hx(src)}, res)
}

// footnoteModelCases: the documents of a run (each once, up to max, at most 600 bytes) against
// the footnote parser model (ParseTreeFn) and the composed Convert model (ConvertFn)
func footnoteModelCases(c *Ctx, items []docItem, max int) {
	seen := map[string]bool{}
	n := 0
	items = roundRobin(items)
	for i, it := range items {
		if n >= max {
			break
		}
		if len(it.doc) > 600 || seen[string(it.doc)] {
			continue
		}
		seen[string(it.doc)] = true
		n++
		parseTreeFnCase(c, it.doc)
		convertFnCase(c, convertCfgs[i%len(convertCfgs)], it.doc)
	}
	c.Rep.Extra["footnote_model_documents"] = n
}

// ---------- documents aimed at the footnote extension ----------

// the generator of the C16 runner (c16.go), copied: documents mixing definitions and references
func fnC16Doc(r *RNG) []byte {
	var b strings.Builder
	nl := 1 + r.Intn(4)
	labels := make([]string, nl)
	for k := range labels {
		labels[k] = c16Labels[r.Intn(len(c16Labels))]
	}
	parts := 2 + r.Intn(7)
	for p := 0; p < parts; p++ {
		l := labels[r.Intn(nl)]
		ref := "[^" + l + "]"
		switch r.Intn(14) {
		case 0, 1, 2:
			fmt.Fprintf(&b, "text%s more\n\n", ref)
		case 3:
			fmt.Fprintf(&b, "*em%s* and **s%s**\n\n", ref, ref)
		case 4:
			fmt.Fprintf(&b, "[link%s](/u)\n\n", ref)
		case 5:
			fmt.Fprintf(&b, "![alt%s](/i)\n\n", ref)
		case 6:
			fmt.Fprintf(&b, "|a%s|b|\n|-|-|\n|c|d%s|\n\n", ref, ref)
		case 7:
			fmt.Fprintf(&b, "# head%s\n\n", ref)
		case 8, 9, 10:
			inner := labels[r.Intn(nl)]
			body := []string{"note", "note " + "[^" + labels[r.Intn(nl)] + "]", "para\n\n    second", "- item", "> q",
				"[^" + inner + "]: inner", "outer\n\n    [^" + inner + "]: inner", "> [^" + inner + "]: inner", "- [^" + inner + "]: inner", "[^" + inner + "]: [^" + labels[r.Intn(nl)] + "]: deep"}[r.Intn(10)]
			fmt.Fprintf(&b, "[^%s]: %s\n\n", l, body)
		case 11:
			fmt.Fprintf(&b, "> [^%s]: in quote\n\n", l)
		case 12:
			fmt.Fprintf(&b, "- x%s\n- [^%s]: in list\n\n", ref, l)
		default:
			fmt.Fprintf(&b, "%s%s%s\n\n", ref, ref, "[^"+labels[r.Intn(nl)]+"]")
		}
	}
	return []byte(b.String())
}

// labels: plain, with spaces, case variants, unicode, escapes, brackets, blank, long
var fnLabels = []string{"1", "a", "A", "b", "note", "a b", "A B", "a  b", " a", "a ", "é", "É", "あ", "ß", "SS", "x*y", "x_y_", "a\\]b", "a\\[b", "a[b", "a`b", "`", "\\", "a\\", " ", "\t", "", "^", "^a", "a^", "a:b", ":", "!", "1.", "-", "<b>", "&amp;", "a\tb", "\x80", "0123456789012345678901234567890123456789"}

// what a reference can look like (%s = label)
var fnRefForms = []string{"[^%s]", "[^%s]", "[^%s]", "![^%s]", "!x^%s]", "!!^%s]", "\\[^%s]", "[\\^%s]", "[^%s\\]", "[ ^%s]", "[^%s]:", "[^%s](/u)", "[^%s][r]", "[[^%s]]", "[^%s", "^%s]", "[^%s]]", "`[^%s]`", "<[^%s]>", "[^%s]: not a definition", "[^\n%s]", "[^%s\n]"}

// inline contexts (%s = the reference)
var fnInlineCtx = []string{"%s", "text%s more", "%s.", "a %s b", "*em%s*", "**st%s**", "*a %s", "_%s_", "[link%s](/u)", "[link %s][r]", "[%s]", "![alt%s](/i)", "![%s](/i \"t\")", "![a[b%s](/x)](/y)", "`code%s`", "<a href=\"%s\">", "<http://a.b/%s>", "|a%s|b|", "a%s  \nb", "a%s\\\nb", "%s\n%s", "a\\%s", "&amp;%s", "%s%s", "[a%s]: /u", "!%s", "!!%s", "x!%s", "[x]%s(y)", "%s[x](/y)", "![%s", "[%s](", "*%s**%s*"}

// block contexts for a paragraph-like text (%s = inline text)
var fnBlockCtx = []string{"%s\n", "%s\n\n", "# %s\n", "## %s #\n", "%s\n===\n", "%s\n---\n", "> %s\n", "- %s\n", "1. %s\n", "- a\n\n  %s\n", "> - %s\n", "    %s\n", "```\n%s\n```\n", "<div>%s</div>\n", "|h|\n|-|\n|%s|\n", "  %s\n", "\t%s\n", "%s\n%s\n", "[r]: /ref\n\n%s\n", "* * *\n%s\n"}

// bodies of a definition (after "[^l]:"); continuation lines are indented by the caller's choice
var fnBodies = []string{" note", "note", "", " ", "\t", "  note  ", " *em* `c`", " line one\nline two (lazy)", " line one\n    line two", " para\n\n    second para", " para\n\n    second\n\n    third", " para\n\n  too little indent", " para\n\n   three\n\n    four",
	" x\n\n    ```\n    code\n    ```", " x\n\n        indented code", " x\n\n    - item\n    - item2", " x\n\n    > quote", " x\n\n    # heading", " x\n\n    ---", " x\n    ===", " - item", " > q", " # h", " ```\n    c\n    ```", " <div>\n    html\n    </div>", "     code?", "\n    next line body", "\n\n    after blank", "\n\n\n    after two blanks", " x\n\ty", " x\n\n\ty", " x\n \ty", " [r]: /ref", " [r]: /ref\n    [r]", " |a|b|\n    |-|-|", " x  ", " x\\", " a\n\n    b\n\nc"}

func fnPick(r *RNG, labels []string) string { return labels[r.Intn(len(labels))] }

func fnRef(r *RNG, labels []string) string {
	f := fnRefForms[0]
	if r.Intn(4) == 0 {
		f = r.PickS(fnRefForms)
	}
	return strings.Replace(f, "%s", fnPick(r, labels), -1)
}

func fnInline(r *RNG, labels []string) string {
	ctx := r.PickS(fnInlineCtx)
	for strings.Contains(ctx, "%s") {
		ctx = strings.Replace(ctx, "%s", fnRef(r, labels), 1)
	}
	return ctx
}

func fnBody(r *RNG, labels []string, depth int) string {
	switch r.Intn(10) {
	case 0:
		// a reference (possibly to itself) in the body
		return " see " + fnRef(r, labels) + r.PickS([]string{"", "\n\n    and " + fnRef(r, labels), "\n    " + fnInline(r, labels)})
	case 1:
		if depth < 3 {
			// nested definitions: directly, after text, indented, in containers
			inner := fnDef(r, labels, depth+1)
			switch r.Intn(6) {
			case 0:
				return " " + inner
			case 1:
				return " outer\n\n    " + strings.Replace(strings.TrimSuffix(inner, "\n"), "\n", "\n    ", -1)
			case 2:
				return " > " + inner
			case 3:
				return " - " + inner
			case 4:
				return " outer\n    " + inner
			default:
				return inner
			}
		}
	case 2:
		return " " + fnInline(r, labels)
	}
	return r.PickS(fnBodies)
}

// one definition, without container
func fnDef(r *RNG, labels []string, depth int) string {
	head := "[^" + fnPick(r, labels) + "]:"
	switch r.Intn(24) {
	case 0:
		head = "[^" + fnPick(r, labels) + "] :"
	case 1:
		head = " [^" + fnPick(r, labels) + "]:"
	case 2:
		head = "   [^" + fnPick(r, labels) + "]:"
	case 3:
		head = "    [^" + fnPick(r, labels) + "]:"
	case 4:
		head = "[^" + fnPick(r, labels) + "]::"
	case 5:
		head = "\t[^" + fnPick(r, labels) + "]:"
	case 6:
		head = "[^" + fnPick(r, labels) + "]:[^" + fnPick(r, labels) + "]:"
	case 7:
		head = "[" + fnPick(r, labels) + "]:"
	case 8:
		head = "[^" + fnPick(r, labels) + "]"
	}
	return head + fnBody(r, labels, depth) + "\n"
}

func fnWrap(r *RNG, d string) string {
	t := strings.TrimSuffix(d, "\n")
	switch r.Intn(16) {
	case 0:
		return string(prefixLines([]byte(d), "> "))
	case 1:
		return "> " + d // lazy continuation lines
	case 2:
		return "- " + strings.Replace(t, "\n", "\n  ", -1) + "\n"
	case 3:
		return "- " + d
	case 4:
		return "1. " + strings.Replace(t, "\n", "\n   ", -1) + "\n"
	case 5:
		return "- a\n\n  " + strings.Replace(t, "\n", "\n  ", -1) + "\n- b\n"
	case 6:
		return "> - " + strings.Replace(t, "\n", "\n>   ", -1) + "\n"
	case 7:
		return "-\t" + strings.Replace(t, "\n", "\n\t", -1) + "\n"
	}
	return d
}

func fnDoc(r *RNG) []byte {
	nl := 1 + r.Intn(4)
	labels := make([]string, nl)
	for k := range labels {
		labels[k] = r.PickS(fnLabels)
		if r.Intn(3) != 0 {
			labels[k] = fnLabels[r.Intn(6)]
		}
	}
	// sometimes two labels that differ by case or spacing only
	if nl >= 2 && r.Intn(6) == 0 {
		labels[1] = strings.ToUpper(labels[0])
	}
	var b strings.Builder
	parts := 1 + r.Intn(6)
	for p := 0; p < parts; p++ {
		switch r.Intn(8) {
		case 0, 1, 2:
			b.WriteString(fnWrap(r, fnDef(r, labels, 0)))
		case 3:
			// duplicate definitions back to back
			d := fnDef(r, labels, 0)
			b.WriteString(d)
			b.WriteString(fnDef(r, labels, 0))
		default:
			ctx := r.PickS(fnBlockCtx)
			for strings.Contains(ctx, "%s") {
				ctx = strings.Replace(ctx, "%s", fnInline(r, labels), 1)
			}
			b.WriteString(ctx)
		}
		switch r.Intn(5) {
		case 0:
		case 1:
			b.WriteString("\n\n")
		default:
			b.WriteString("\n")
		}
	}
	d := b.String()
	switch r.Intn(12) {
	case 0:
		d = strings.TrimRight(d, "\n")
	case 1:
		d = strings.Replace(d, "\n", "\r\n", -1)
	}
	return []byte(d)
}

// every document of up to three lines over footnote-related line forms
func fnLineDocs(quick bool, f func([]byte)) {
	bodies := []string{"[^a]: x", "[^a]:", "[^b]: [^a]: y", "    z", "  z", "z[^a]", "[^a][^b]", "", "> [^a]: q", "- [^b]: l", "    [^b]: i", "![^a]", "# h[^b]", "[^a]: - i", "\tt", "[^a]: [^a]", "---", "[a]: /u", "```"}
	prefixes := []string{""}
	if !quick {
		prefixes = []string{"", "> ", "- ", "  "}
	}
	var forms []string
	for _, p := range prefixes {
		for _, b := range bodies {
			forms = append(forms, p+b+"\n")
		}
	}
	for _, l1 := range forms {
		f([]byte(l1))
		for _, l2 := range forms {
			f([]byte(l1 + l2))
			for _, l3 := range forms {
				if len(prefixes) == 1 || (len(l1)+len(l2)+len(l3))%3 == 0 {
					f([]byte(l1 + l2 + l3))
					if len(prefixes) == 1 && len(l3)%2 == 0 {
						f([]byte(l1 + l2 + l3 + "\nr[^a] s[^b]\n"))
					}
				}
			}
		}
	}
}

// documents for single code paths: a definition that ends the input, padding left by a tab in
// front of a definition, the '!' form of a reference, nested and cyclic definitions, counted
// references that are not rendered
var fnHandpicked = []string{
	"[^a]:", "[^a]: ", "[^a]:x", "[^a]:\n", "[^a]:\n\n", "[^a]:\n    x", "[^a]:\n\n    x\n\n[^a]", "[^a]", "[^a]\n\n[^a]: x", "x[^a]\n\n[^a]:", "x[^a]\n\n[^a]: ",
	"-\t[^a]: x\n\n\t    y\n\nz[^a]", "- \t[^a]:\tx\n\n\t\ty\n\n[^a]", "-\t[^a]:", "-\t[^a]:x", " -\t[^a]: x\n\n[^a]", ">\t[^a]: x\n>\t    y\n\n[^a]", "1.\t[^a]:\n\n\t\tx\n[^a]", "-  \t[^a]:\t\tx\n[^a]",
	"\t[^a]: x\n\n[^a]", "   [^a]: x\n\n[^a]", "    [^a]: x\n\n[^a]", "x\n[^a]: y\n\n[^a]", "x\n    [^a]: y\n\n[^a]", "# h\n[^a]: y\n[^a]",
	"[^a]: x\n\ty\n\n[^a]", "[^a]: x\n\n\ty\n\n[^a]", "[^a]: x\n\n  \ty\n\n[^a]", "[^a]: x\n\n   y\n\n[^a]", "[^a]: x\n\n     y\n\n[^a]", "[^a]: x\n\n        y\n\n[^a]", "[^a]:\tx\n\n[^a]", "[^a]:\t\tx\n\n[^a]", "[^a]:     x\n\n[^a]",
	"!x^a]\n\n[^a]: d", "![^a]\n\n[^a]: d", "!\\^a]\n\n[^a]: d", "!!^a]\n\n[^a]: d", "!]^a]\n\n[^a]: d", "![^a](/u)\n\n[^a]: d", "![x[^a]](/u)\n\n[^a]: d", "![^a\n\n[^a]: d", "a![^a]![^a]\n\n[^a]: d", "!^a]\n\n[^a]: d", "!", "![", "![^", "[^", "[^]", "[^ ]: x\n\n[^ ]",
	"[^a]: [^b]: x\n\n[^a]", "[^a]: [^b]: x\n\n[^b]", "[^a]: [^b]: x\n\n[^a][^b]", "[^a]: [^b]: x\n\n[^b][^a][^b]", "[^a]: [^b]: [^c]: x\n\n[^c][^a][^b]", "[^a]: [^b]: x", "[^a]: t\n\n    [^b]: y\n\n    z\n\n[^a][^b]", "[^a]: t\n    [^b]: y\n[^b][^a]",
	"[^a]: > [^b]: x\n\n[^a][^b]", "[^a]: - [^b]: x\n\n[^b][^a]", "> [^a]: x\n\n[^b]: y\n\n[^b][^a]", "- [^a]: x\n\n[^a]", "- [^a]: x\n- [^b]: y\n\n[^b][^a]", "- a\n- [^a]: x\n\n  [^a]",
	"[^a]: x[^b]\n\n[^b]: y[^a]\n\n[^a]", "[^a]: x[^b]\n\n[^b]: y", "[^a]: x[^a]", "[^a]: x[^a]\n\n[^a]", "[^a]: 1\n[^a]: 2[^b]\n[^b]: 3\n\n[^a]", "![i[^a]](/u)\n\n[^a]: x", "![i[^a]](/u) [^a]\n\n[^a]: x", "[^a]: x\n[^A]: y\n\n[^A][^a]",
	"[^a]: x\n[^a]: y\n\n[^a]", "[^a b]: x\n\n[^a b] [^a  b]", "[^é]: x\n\n[^é][^É]", "[^a\\]b]: x\n\n[^a\\]b]", "[^a[b]: x\n\n[^a[b]", "[^a]: x\n\n[^a]\n===", "[^a]: x\n\n[l[^a]]\n\n[l[^a]]: /u", "[^a]: /u\n\n[^a]", "[^a]: /u \"t\"\n\n[^a][b]\n\n[b]: /v",
	"[^a]: x\n\n    ```\n    c\n    ```\n\n[^a]", "[^a]: x\n\n    - i\n\n[^a]", "[^a]: x\n\n    > q\n\n[^a]", "[^a]: x\n\n        c\n\n[^a]", "[^a]: x\n\n    # h\n\n[^a]", "[^a]: x\n\n    ---\n\n[^a]", "[^a]: x\n\n    <div>\n\n[^a]", "[^a]: ```\n    c\n\n[^a]", "[^a]:\n\n[^a]",
	"[^a]: x\r\n\r\n    y\r\n\r\n[^a]\r\n", "[^a]: x\n\n[^a][^a][^a]", "[^1]: a\n[^2]: b\n[^3]: c\n\n[^3][^1][^2][^1]", "[^a]: x\n\n*[^a]* **[^a]** [t[^a]](/u) `[^a]` <[^a]>",
}

func fnEnumTokens(toks []string, n int, f func(string)) {
	var rec func(prefix string, d int)
	rec = func(prefix string, d int) {
		f(prefix)
		if d == n {
			return
		}
		for _, t := range toks {
			rec(prefix+t, d+1)
		}
	}
	rec("", 0)
}

// fnDocs feeds f with the common document streams and the footnote-specific ones
func fnDocs(c *Ctx, n int, f func(stream string, doc []byte)) {
	docStreams(c, docOpts{blockLines: 2, randLines: n, corpus: true, random: n, mutants: n / 4}, f)
	for _, d := range loadTestFiles() {
		if bytes.Contains(d, []byte("[^")) {
			f("footnote-test-files", d)
		}
	}
	for i := 0; i < n; i++ {
		f("footnote-documents", fnC16Doc(c.R))
	}
	for i := 0; i < 2*n; i++ {
		f("footnote-soup", fnDoc(c.R))
	}
	fnLineDocs(c.Quick(), func(d []byte) { f("footnote-lines", d) })
	for _, d := range fnHandpicked {
		f("footnote-handpicked", []byte(d))
	}
	// every sequence of a few tokens that matter for the indentation rules of a definition
	tokLen := 4
	if !c.Quick() {
		tokLen = 5
	}
	fnEnumTokens([]string{"[^a]:", "[^b]:", " ", "\t", "x", "\n", "- ", "> ", "    ", "[^a]"}, tokLen, func(d string) {
		f("footnote-token-sequences", []byte(d))
	})
	// every short text between "[^" / "![^" and the end of the block, with a definition for "a"
	tailLen := 3
	if !c.Quick() {
		tailLen = 4
	}
	enumStrings([]byte("a]^[!\\: \n"), tailLen, func(t []byte) {
		f("footnote-ref-tails", append(append([]byte("[^a]: d\n\nx[^"), t...), '\n'))
		f("footnote-ref-tails", append(append([]byte("[^a]: d\n\n!"), t...), '\n'))
		f("footnote-def-tails", append(append([]byte("[^"), t...), []byte("\n\n[^a] [^a]\n")...))
	})
}

// experiment runner: footnote parser-model cases only
func init() {
	runners["FX"] = func(c *Ctx) {
		n := 3000
		if !c.Quick() {
			n = 40000
		}
		var items []docItem
		fnDocs(c, n, func(stream string, doc []byte) {
			if len(doc) <= 600 {
				items = append(items, docItem{stream, doc})
				c.Rep.Streams[stream]++
			}
		})
		footnoteModelCases(c, items, len(items))
	}
}
