package main

import (
	"flag"
	"fmt"
	"os"
	"strconv"
)

type propRunner func(c *Ctx)

var runners = map[string]propRunner{}

func main() {
	if len(os.Args) < 2 {
		fmt.Fprintln(os.Stderr, "usage: gmh tables <dir> | run <Cxx> --tier T --seed S --out DIR | replay <Cxx> <file>")
		os.Exit(2)
	}
	switch os.Args[1] {
	case "tables":
		cmdTables(os.Args[2])
	case "run":
		prop := os.Args[2]
		fs := flag.NewFlagSet("run", flag.ExitOnError)
		tier := fs.String("tier", "quick", "")
		seed := fs.String("seed", "1", "")
		out := fs.String("out", ".", "")
		fs.Parse(os.Args[3:])
		s, _ := strconv.ParseUint(*seed, 10, 64)
		r, ok := runners[prop]
		if !ok {
			fmt.Fprintln(os.Stderr, "no runner for", prop)
			os.Exit(2)
		}
		c := NewCtx(prop, *tier, s, *out)
		// (C06 compares with fresh child processes; C07 is about the first uses in a process)
		if prop != "C06" && prop != "C07" {
			otherConfigurationsFirst(c)
		}
		r(c)
		c.Close()
	default:
		fmt.Fprintln(os.Stderr, "unknown command", os.Args[1])
		os.Exit(2)
	}
}
