package main

import (
	"bytes"
	"encoding/xml"
	"fmt"
	"github.com/yuin/goldmark"
	"github.com/yuin/goldmark/extension"
	"github.com/yuin/goldmark/renderer/html"
	"github.com/yuin/goldmark/util"
	"io"
	"sort"
	"strings"
	"sync"
	"unicode/utf8"
)

func init() { runners["C03"] = runC03; runners["C04"] = runC04 }

// the renderer's fixed vocabulary (independent copy; a change of the code's lists shows here)
var vocabTags = map[string]bool{}
var vocabAttrs = map[string]bool{}

func init() {
	for _, t := range strings.Fields("h1 h2 h3 h4 h5 h6 blockquote pre code ul ol li p hr a em strong img br table thead tbody tr th td del input div sup dl dt dd") {
		vocabTags[t] = true
	}
	for _, a := range strings.Split("accesskey,autocapitalize,autofocus,class,contenteditable,dir,draggable,enterkeyhint,hidden,id,inert,inputmode,is,itemid,itemprop,itemref,itemscope,itemtype,lang,part,role,slot,spellcheck,style,tabindex,title,translate,"+
		"cite,start,reversed,type,value,align,color,noshade,size,width,download,hreflang,media,ping,referrerpolicy,rel,shape,target,href,src,alt,border,crossorigin,decoding,height,importance,intrinsicsize,ismap,loading,sizes,srcset,usemap,"+
		"bgcolor,cellpadding,cellspacing,frame,rules,summary,valign,char,charoff,abbr,axis,colspan,headers,rowspan,scope,checked,disabled", ",") {
		vocabAttrs[a] = true
	}
}

func xmlRepresentable(b []byte) bool {
	if !utf8.Valid(b) {
		return false
	}
	for _, r := range string(b) {
		if r < 0x20 && r != '\t' && r != '\n' && r != '\r' || r == 0xfffe || r == 0xffff || r == utf8.RuneError {
			return false
		}
	}
	return true
}

func checkXML(out []byte) string {
	d := xml.NewDecoder(io.MultiReader(strings.NewReader("<root>"), bytes.NewReader(out), strings.NewReader("</root>")))
	d.Strict = true
	d.Entity = xml.HTMLEntity
	for {
		_, err := d.Token()
		if err == io.EOF {
			return ""
		}
		if err != nil {
			return err.Error()
		}
	}
}

// inertness oracle for safe-mode output
func inertErrors(out []byte, xhtml bool) []string {
	toks, errs := scanHTML(out)
	errs = append(errs, checkNesting(toks)...)
	for _, t := range toks {
		if t.kind != 's' && t.kind != 'e' {
			continue
		}
		if !vocabTags[t.name] {
			errs = append(errs, "element outside the vocabulary: "+t.name)
		}
		for _, a := range t.attrs {
			if !vocabAttrs[strings.ToLower(a[0])] && !strings.HasPrefix(a[0], "data-") {
				errs = append(errs, fmt.Sprintf("attribute outside the vocabulary: %s on <%s>", a[0], t.name))
			}
		}
		if t.kind == 's' && voidTags[t.name] && xhtml && !t.self {
			errs = append(errs, "void element without /> in XHTML mode: "+t.name)
		}
	}
	return errs
}

var c03Targeted = []string{
	"<script>alert(1)</script>", "<img src=x onerror=alert(1)>", "a <b onclick=x>c</b>", "<!-- c --> t", "<div\nonmouseover=x>", "</p><script>",
	"# h {#id .c k=v}", "# h {onclick=\"alert(1)\"}", "# h {title=\"a\\\"\\\" onmouseover=alert(1) x=\\\"\\\"\"}", "# h {a=\"<b>\"}", "# h {data-x=\"&quot;>\"}", "# h {class=\"a\" class='b'}", "# h {x=1 y=2.5 z=true}", "h\n=== {#s}",
	"[a](/u \"t\\\"><script>\")", "[a](/u 't\"x')", "![a\"b<c>](/u \"<t>\")", "![a  \nb](x)", "![`\"<`](x)", "![*a* <b> &amp; &nvlt;](x \"&nvgt;\")", "[a](</u\"onclick=x>)", "[a]: /u \"t\"\n\n[a]", "<http://a.b/\"onclick=x>", "<a@b.c\"x>",
	"```\"><script>\ncode\n```", "``` a\"b c\n```", "~~~ &nvlt;\n~~~", "&nvlt; &nvgt; &lt; &#60; &#x3c; &amp;lt; &#0; &#xD800;", "\\< \\> \\\" \\&", "a&b &copy &; &#; &#x;",
	"|a\"|<b>|\n|-|:-:|\n|&nvlt;|`<`|", "| a | b |\n|:-|-:|\n| c |", "- [ ] <b>\n- [x] \"q\"", "~~<s>~~", "[^1]\n\n[^1]: <b> \"n\" &nvlt;", "[^<a>]\n\n[^<a>]: x", "t\n: <d> \"q\"", "\"q\" -- ... <<a>> 'x'", "http://a.b/?q=\"<>&x=1 www.a.b/<>", "a@b.c\"",
	"\x00<\x00>", "\x80<\xff>", "<a href=\"x\">\xc3</a>", "<?php ?>", "<![CDATA[x]]>", "<!DOCTYPE x>", "> <div>\n> x", "- <pre>\n  x", "*<em>*", "**\"**", "`<code>`", "    <indented>", "\t\"tab\"",
}

func c03Configs() []Cfg {
	var out []Cfg
	for _, e := range []string{"core", "gfm", "deflist", "footnote", "typo", "cjk", "all"} {
		for po := 0; po < 4; po++ {
			for _, x := range []bool{false, true} {
				out = append(out, Cfg{Ext: e, AutoID: po&1 != 0, Attr: po&2 != 0, XHTML: x, HardWraps: po == 3})
			}
		}
	}
	// the extensions built with their own options (titles with placeholders, further Linkify
	// protocols including dangerous ones, Typographer substitutions)
	out = append(out, Cfg{Ext: "gfm", Opts: true}, Cfg{Ext: "all", Opts: true, XHTML: true, AutoID: true, Attr: true}, Cfg{Ext: "footnote", Opts: true, FnPrefix: "n-"},
		Cfg{Ext: "typo", Opts: true, HardWraps: true}, Cfg{Ext: "linkify", Opts: true, XHTML: true})
	return out
}

var treeEvery = 4

func safeModeSweep(c *Ctx, targeted []string, each func(cf Cfg, it docItem, out []byte, report func(kind, detail string))) {
	cfgs := c03Configs()
	o := docOpts{exhaustiveLen: 2, corpus: true, random: 4000, mutants: 3000, randLines: 2000}
	if !c.Quick() {
		o = docOpts{exhaustiveLen: 3, corpus: true, random: 150000, randomTok: 16, mutants: 100000, randLines: 50000}
	}
	items := collectDocs(c, o, func(add func(string, []byte)) {
		for _, t := range targeted {
			add("targeted", []byte(t))
			for _, ctx := range []string{"> %s", "- %s", "# %s", "| %s |\n|-|\n| %s |", "[^1]\n\n[^1]: %s", "t\n: %s", "*%s*", "[%s](/u)", "![%s](/u)", "a\n%s\nb", "%s {.c}"} {
				add("targeted-in-context", fmt1(ctx, t))
			}
		}
		for b := 0; b < 256; b++ {
			for _, t := range []string{"# h {a=\"%s\"}", "[a](/u \"%s\")", "![%s](/u)", "```%s\n```", "|%s|\n|-|", "<%s>", "&%s;", "[a](%s)"} {
				add("byte-in-context", fmt1(t, string([]byte{byte(b)})))
			}
		}
	})
	if c.Quick() {
		parserModelCases(c, items, 6000)
		gfmModelCases(c, items, 3000)
		otherModelCases(c, items, 500)
	} else {
		otherModelCases(c, items, 20000)
		parserModelCases(c, items, 60000)
		gfmModelCases(c, items, 30000)
	}
	var mu sync.Mutex
	type viol struct {
		i            int
		cfg, kind, d string
	}
	var viols []viol
	var trees [][2]interface{}
	nontriv := make([]bool, len(items))
	nw := 16
	built := make([][]mdT, nw)
	for w := 0; w < nw; w++ {
		for _, cf := range cfgs {
			built[w] = append(built[w], mdT{cf, cf.Build()})
		}
	}
	parallelItems(items, func(w, i int, it docItem) {
		w = w % nw
		use := built[w]
		if !(it.stream == "targeted" || it.stream == "targeted-in-context" || it.stream == "past-failures" || it.stream == "corpus") {
			// the large streams rotate through the configurations
			k := i % len(use)
			use = []mdT{use[k], use[(k+7)%len(use)], use[len(use)-1-(k%2)]}
			// documents about a feature that an option switches on always meet a configuration with
			// that option (the rotation alone reaches one only for some document numbers): attribute
			// blocks with the Attribute option, in HTML and in XHTML
			if bytes.Contains(it.doc, []byte("{")) {
				for j, m := range built[w] {
					if m.cf.Attr && (m.cf.Ext == "core" || m.cf.Ext == "all") && !m.cf.Opts && (j+i)%2 == 0 {
						use = append(use, m)
					}
				}
			}
		}
		for _, m := range use {
			out, errS, panicS := convertSafe(m.md, it.doc)
			if errS != "" || panicS != "" {
				continue
			}
			if bytes.ContainsAny(it.doc, "<>&\"{") && bytes.ContainsAny(out, "=&") {
				nontriv[i] = true
			}
			// tie of the renderer model: the tree the real parser built, rendered by both sides,
			// and the well-formedness hypothesis of the theorems evaluated on it
			if m.cf.Ext != "all" && m.cf.Ext != "cjk" && (i%treeEvery == 0 || (treeEvery <= 4 && it.stream == "targeted")) {
				if args, res, ok := treeCase(m.md, m.cf, it.doc); ok {
					mu.Lock()
					trees = append(trees, [2]interface{}{args, res})
					mu.Unlock()
				}
			}
			each(m.cf, it, out, func(kind, detail string) {
				mu.Lock()
				viols = append(viols, viol{i, m.cf.Name(), kind, detail})
				mu.Unlock()
			})
		}
	})
	sort.Slice(trees, func(i, j int) bool {
		return strings.Join(trees[i][0].([]string), "\t") < strings.Join(trees[j][0].([]string), "\t")
	})
	for _, tc := range trees {
		a := tc[0].([]string)
		c.Case("RenderTree", a, tc[1].(string))
		c.Case("WfTree", []string{a[1], a[2]}, "1")
	}
	c.Rep.Extra["tree_cases"] = len(trees)
	seenKind := map[string]int{}
	for _, v := range viols {
		if seenKind[v.kind] < 4 {
			seenKind[v.kind]++
			c.Violate(v.kind, map[string]string{"config": v.cfg, "source": q(items[v.i].doc), "stream": items[v.i].stream}, v.d, v.kind)
		}
	}
	for i, it := range items {
		c.Count(it.stream, it.stream+string(it.doc), nontriv[i])
		if i%(len(items)/6+1) == 0 {
			c.Sample(map[string]string{"stream": it.stream, "source": q(it.doc)})
		}
	}
	c.Rep.Extra["configurations"] = len(cfgs)
}

type mdT struct {
	cf Cfg
	md goldmark.Markdown
}

func runC03(c *Ctx) {
	attrFilterProbe(c)
	if c.Quick() {
		attrCases(c, 3000)
	} else {
		attrCases(c, 60000)
	}
	nW := 4000
	if !c.Quick() {
		nW = 100000
	}
	enumStrings(c19Alpha, 3, func(b []byte) { htmlWriterCases(c, b) })
	for i := 0; i < nW; i++ {
		htmlWriterCases(c, c19Random(c.R, 6))
	}
	renderAttributesCases(c, nW)
	c.Rep.Rule = "a case is (safe-mode configuration, document); distinct by hash of the document; non-trivial = the input contains one of < > & \" { and the output contains an attribute or a character reference"
	safeModeSweep(c, c03Targeted, func(cf Cfg, it docItem, out []byte, report func(kind, detail string)) {
		if errs := inertErrors(out, cf.XHTML); len(errs) > 0 {
			report("inert:"+strings.SplitN(errs[0], " at ", 2)[0], fmt.Sprintf("%s; output %.300q", strings.Join(errs[:min(len(errs), 3)], "; "), out))
			return
		}
		if cf.XHTML && xmlRepresentable(out) {
			if e := checkXML(out); e != "" {
				report("xhtml-not-xml", fmt.Sprintf("%s; output %.300q", e, out))
			}
		}
	})
}

// attrFilterProbe: the attribute allow-lists must not contain a name outside the declared
// vocabulary.  Candidates are near misses of the declared names: the first three bytes replaced
// by bytes that occur at the same position in other declared names (what a prefix bitmap cannot
// tell apart), one byte changed, dropped or added.  A candidate that some filter accepts is
// rendered through a heading attribute block and reported with that document.
func attrFilterProbe(c *Ctx) {
	universe := map[string]bool{}
	for a := range vocabAttrs {
		universe[a] = true
	}
	var names []string
	for a := range universe {
		names = append(names, a)
	}
	sort.Strings(names)
	var pos [3]map[byte]bool
	for i := range pos {
		pos[i] = map[byte]bool{}
	}
	for _, n := range names {
		for i := 0; i < 3 && i < len(n); i++ {
			pos[i][n[i]] = true
		}
	}
	filters := []struct {
		name string
		f    util.BytesFilter
		doc  string
	}{
		{"global", html.GlobalAttributeFilter, "# h {%s=\"v\"}\n"}, {"heading", html.HeadingAttributeFilter, "# h {%s=\"v\"}\n"}, {"blockquote", html.BlockquoteAttributeFilter, ""},
		{"list", html.ListAttributeFilter, ""}, {"listitem", html.ListItemAttributeFilter, ""}, {"thematic", html.ThematicAttributeFilter, ""}, {"link", html.LinkAttributeFilter, ""},
		{"image", html.ImageAttributeFilter, ""}, {"paragraph", html.ParagraphAttributeFilter, ""}, {"code", html.CodeAttributeFilter, ""}, {"emphasis", html.EmphasisAttributeFilter, ""},
		{"table", extension.TableAttributeFilter, ""}, {"thead", extension.TableHeaderAttributeFilter, ""}, {"tr", extension.TableRowAttributeFilter, ""},
		{"th", extension.TableThCellAttributeFilter, ""}, {"td", extension.TableTdCellAttributeFilter, ""}, {"del", extension.StrikethroughAttributeFilter, ""},
		{"dl", extension.DefinitionListAttributeFilter, ""}, {"dt", extension.DefinitionTermAttributeFilter, ""}, {"dd", extension.DefinitionDescriptionAttributeFilter, ""},
	}
	md := Cfg{Ext: "core", Attr: true}.Build()
	tried, reported := 0, 0
	try := func(cand string) {
		if universe[cand] || cand == "" || strings.HasPrefix(cand, "data-") {
			return
		}
		tried++
		for _, f := range filters {
			if f.f.Contains([]byte(cand)) {
				if reported < 5 {
					reported++
					doc := fmt.Sprintf("# h {%s=\"v\"}\n", cand)
					out, _, _ := convertSafe(md, []byte(doc))
					c.Violate("attribute-filter-accepts-undeclared-name", map[string]interface{}{"config": "core+attr", "source": q([]byte(doc)), "filter": f.name, "name": cand},
						fmt.Sprintf("the %s attribute filter contains %q, which is not a declared attribute name; the heading renders as %.200q", f.name, cand, out), "attribute-filter-accepts-undeclared-name")
				}
				return
			}
		}
	}
	alpha := "abcdefghijklmnopqrstuvwxyz-"
	for _, n := range names {
		if len(n) >= 3 {
			for a := range pos[0] {
				for b := range pos[1] {
					for d := range pos[2] {
						try(string([]byte{a, b, d}) + n[3:])
					}
				}
			}
		}
		for i := 0; i < len(n); i++ {
			try(n[:i] + n[i+1:])
			for k := 0; k < len(alpha); k++ {
				try(n[:i] + alpha[k:k+1] + n[i+1:])
				try(n[:i] + alpha[k:k+1] + n[i:])
			}
		}
		try(n + "x")
		try("on" + n)
		try(strings.ToUpper(n))
	}
	for _, n := range []string{"onclick", "onerror", "onload", "onmouseover", "onfocus", "srcdoc", "formaction", "xmlns", "action", "background", "x", "a:b", "_y", "data", "data_"} {
		try(n)
	}
	c.Rep.Extra["attribute_filter_probe_candidates"] = tried
	c.Count("attribute-filter-probe", "probe", true)
}
