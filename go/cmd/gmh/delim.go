package main

// Regenerated Unicode facts (the rune classes goldmark asks the unicode package about when it
// classifies the characters around a delimiter run) and correspondence cases for
// parser.ScanDelimiter (coq/model/Delim.v).

import (
	"bytes"
	"fmt"
	"path/filepath"
	"unicode/utf8"

	"github.com/yuin/goldmark/ast"
	"github.com/yuin/goldmark/parser"
	"github.com/yuin/goldmark/util"
)

func runeRanges(pred func(rune) bool) [][2]int {
	var out [][2]int
	start := -1
	for r := 0; r <= 0x110000; r++ {
		in := r <= 0x10FFFF && pred(rune(r))
		if in && start < 0 {
			start = r
		}
		if !in && start >= 0 {
			out = append(out, [2]int{start, r - 1})
			start = -1
		}
	}
	return out
}

func dumpUnicode(dir string) {
	var b bytes.Buffer
	b.WriteString(genHeader)
	w := func(name string, rs [][2]int) {
		fmt.Fprintf(&b, "Definition %s : list (N * N) := [\n", name)
		for i, r := range rs {
			if i > 0 {
				b.WriteString(";")
				if i%8 == 0 {
					b.WriteString("\n")
				}
			}
			fmt.Fprintf(&b, "(%d,%d)", r[0], r[1])
		}
		b.WriteString("].\n\n")
	}
	// util.IsPunctRune and util.IsSpaceRune, asked for every code point
	w("punct_rune_ranges", runeRanges(util.IsPunctRune))
	w("space_rune_ranges", runeRanges(util.IsSpaceRune))
	writeIfChanged(filepath.Join(dir, "Unicode.v"), b.Bytes())
}

type emphProc struct{}

func (emphProc) IsDelimiter(b byte) bool { return b == '*' || b == '_' }
func (emphProc) CanOpenCloser(opener, closer *parser.Delimiter) bool {
	return opener.Char == closer.Char
}
func (emphProc) OnMatch(consumes int) ast.Node { return nil }

func delimCases(c *Ctx, n int) {
	befores := []rune{'\n', ' ', '\t', 'a', 'Z', '0', '*', '_', '>', '!', '"', '\\', '(', ')', 0xA0, 0xE9, 0x2014, 0x3000, 0x4E2D, 0x1F600, 0x20AC, 0xFFFD, 0, 0x7F, 0x85, 0x200B, 0x2028, '~', '$', '+'}
	afters := []string{"", " ", "\n", "\t", "a", "1", "!", "*", "_", "\\", "(", ">", " ", "é", "—", "　", "中", "😀", "€", "\x80", "\xc3", "$", "+", "~", "\x00"}
	one := func(line []byte, before rune, minimum int) {
		res := ""
		func() {
			defer func() {
				if x := recover(); x != nil {
					res = "PANIC"
				}
			}()
			d := parser.ScanDelimiter(line, before, minimum, emphProc{})
			if d == nil {
				res = "nil"
				return
			}
			res = fmt.Sprintf("%s%s:%d", btoa(d.CanOpen), btoa(d.CanClose), d.Length)
		}()
		c.Case("ScanDelimiter", []string{hx(line), itoa(int(before)), itoa(minimum)}, res)
	}
	for _, bf := range befores {
		for _, af := range afters {
			for _, ch := range []byte{'*', '_', 'x'} {
				for k := 1; k <= 3; k++ {
					line := append(bytes.Repeat([]byte{ch}, k), af...)
					one(line, bf, 1+(k+len(af))%2)
				}
			}
		}
	}
	for i := 0; i < n; i++ {
		var bf rune
		switch c.R.Intn(4) {
		case 0:
			bf = rune(c.R.Intn(0x80))
		case 1:
			bf = rune(c.R.Intn(0x3100))
		case 2:
			bf = rune(c.R.Intn(0x110000))
		default:
			bf = befores[c.R.Intn(len(befores))]
		}
		var af []byte
		switch c.R.Intn(4) {
		case 0:
			af = []byte{byte(c.R.Intn(256))}
		case 1:
			af = utf8.AppendRune(nil, rune(c.R.Intn(0x3100)))
		case 2:
			r := rune(c.R.Intn(0x110000))
			if r >= 0xD800 && r < 0xE000 {
				r = 0x2014
			}
			af = utf8.AppendRune(nil, r)
		default:
			af = []byte(afters[c.R.Intn(len(afters))])
		}
		ch := byte("*_"[c.R.Intn(2)])
		line := append(bytes.Repeat([]byte{ch}, 1+c.R.Intn(3)), af...)
		one(line, bf, 1+c.R.Intn(2))
	}
}
