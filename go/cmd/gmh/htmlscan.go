package main

// A strict tokeniser for the HTML goldmark emits in safe mode: it accepts exactly the
// shapes the renderer is supposed to produce and reports everything else.

import (
	"fmt"
	"strings"
)

type hTok struct {
	kind  byte // 't' text, 's' start tag, 'e' end tag, 'c' comment
	name  string
	attrs [][2]string
	self  bool
	text  string
	pos   int
}

func isNameStart(c byte) bool { return c >= 'a' && c <= 'z' || c >= 'A' && c <= 'Z' }
func isTagChar(c byte) bool   { return isNameStart(c) || c >= '0' && c <= '9' }
func isAttrStart(c byte) bool { return isNameStart(c) || c == '_' || c == ':' }
func isAttrChar(c byte) bool {
	return isAttrStart(c) || c >= '0' && c <= '9' || c == '-' || c == '.'
}

// checks that every & in s starts a well-formed character reference
func checkRefs(s string, where string, pos int, errs *[]string) {
	for i := 0; i < len(s); i++ {
		if s[i] != '&' {
			continue
		}
		j := i + 1
		ok := false
		if j < len(s) && s[j] == '#' {
			j++
			if j < len(s) && (s[j] == 'x' || s[j] == 'X') {
				j++
				k := j
				for j < len(s) && isHexB(s[j]) {
					j++
				}
				ok = j > k && j < len(s) && s[j] == ';'
			} else {
				k := j
				for j < len(s) && s[j] >= '0' && s[j] <= '9' {
					j++
				}
				ok = j > k && j < len(s) && s[j] == ';'
			}
		} else {
			k := j
			for j < len(s) && isTagChar(s[j]) {
				j++
			}
			ok = j > k && j < len(s) && s[j] == ';'
		}
		if !ok {
			*errs = append(*errs, fmt.Sprintf("bare & in %s at %d", where, pos+i))
			return
		}
	}
}

const omitted = "<!-- raw HTML omitted -->"

func scanHTML(b []byte) (toks []hTok, errs []string) {
	s := string(b)
	i := 0
	for i < len(s) {
		if s[i] != '<' {
			j := strings.IndexByte(s[i:], '<')
			if j < 0 {
				j = len(s) - i
			}
			t := s[i : i+j]
			checkRefs(t, "text", i, &errs)
			toks = append(toks, hTok{kind: 't', text: t, pos: i})
			i += j
			continue
		}
		if strings.HasPrefix(s[i:], omitted) {
			toks = append(toks, hTok{kind: 'c', text: omitted, pos: i})
			i += len(omitted)
			continue
		}
		if strings.HasPrefix(s[i:], "<!--") {
			errs = append(errs, fmt.Sprintf("comment other than the placeholder at %d", i))
			j := strings.Index(s[i:], "-->")
			if j < 0 {
				return
			}
			i += j + 3
			continue
		}
		j := i + 1
		end := false
		if j < len(s) && s[j] == '/' {
			end = true
			j++
		}
		k := j
		for j < len(s) && isTagChar(s[j]) {
			j++
		}
		if j == k || !isNameStart(s[k]) {
			errs = append(errs, fmt.Sprintf("raw < at %d", i))
			i++
			continue
		}
		tok := hTok{name: s[k:j], pos: i}
		if end {
			if j < len(s) && s[j] == '>' {
				tok.kind = 'e'
				toks = append(toks, tok)
				i = j + 1
			} else {
				errs = append(errs, fmt.Sprintf("malformed end tag at %d", i))
				i++
			}
			continue
		}
		tok.kind = 's'
		bad := false
		for {
			if j >= len(s) {
				bad = true
				break
			}
			if s[j] == '>' {
				j++
				break
			}
			if strings.HasPrefix(s[j:], " />") {
				tok.self = true
				j += 3
				break
			}
			if s[j] != ' ' {
				bad = true
				break
			}
			j++
			k := j
			for j < len(s) && isAttrChar(s[j]) {
				j++
			}
			if j == k || !isAttrStart(s[k]) {
				bad = true
				break
			}
			an := s[k:j]
			if !strings.HasPrefix(s[j:], "=\"") {
				// boolean attributes: only those the renderer itself writes
				if an == "checked" || an == "disabled" {
					tok.attrs = append(tok.attrs, [2]string{an, ""})
					continue
				}
				bad = true
				break
			}
			j += 2
			q := strings.IndexByte(s[j:], '"')
			if q < 0 {
				bad = true
				break
			}
			av := s[j : j+q]
			if strings.ContainsAny(av, "<") {
				errs = append(errs, fmt.Sprintf("raw < inside attribute value at %d", j))
			}
			checkRefs(av, "attribute value", j, &errs)
			tok.attrs = append(tok.attrs, [2]string{an, av})
			j += q + 1
		}
		if bad {
			errs = append(errs, fmt.Sprintf("malformed start tag at %d: %.40q", i, s[i:]))
			i++
			continue
		}
		toks = append(toks, tok)
		i = j
	}
	return
}

func (t hTok) attr(name string) (string, bool) {
	for _, a := range t.attrs {
		if a[0] == name {
			return a[1], true
		}
	}
	return "", false
}

var voidTags = map[string]bool{"hr": true, "br": true, "img": true, "input": true}

// nesting check: every non-void start tag is closed by the matching end tag
func checkNesting(toks []hTok) []string {
	var errs []string
	var stack []string
	for _, t := range toks {
		switch t.kind {
		case 's':
			if voidTags[t.name] {
				continue
			}
			if t.self {
				errs = append(errs, "self-closing non-void element "+t.name)
				continue
			}
			stack = append(stack, t.name)
		case 'e':
			if len(stack) == 0 || stack[len(stack)-1] != t.name {
				errs = append(errs, fmt.Sprintf("end tag </%s> at %d does not match open element %v", t.name, t.pos, stack))
				return errs
			}
			stack = stack[:len(stack)-1]
		}
	}
	if len(stack) > 0 {
		errs = append(errs, fmt.Sprintf("unclosed elements %v", stack))
	}
	return errs
}

// decode character references the way a browser does for attribute values (the subset that
// matters for URL schemes: numeric references and the named ones goldmark can emit)
func decodeRefs(s string) string {
	named := map[string]string{"amp": "&", "lt": "<", "gt": ">", "quot": "\"", "colon": ":", "Tab": "\t", "NewLine": "\n", "apos": "'"}
	var b strings.Builder
	for i := 0; i < len(s); i++ {
		if s[i] != '&' {
			b.WriteByte(s[i])
			continue
		}
		// one pass, left to right: a decoded character is never decoded again
		if i+2 < len(s) && s[i+1] == '#' {
			j := i + 2
			base := 10
			if s[j] == 'x' || s[j] == 'X' {
				base = 16
				j++
			}
			v := 0
			k := j
			for j < len(s) && (base == 16 && isHexB(s[j]) || s[j] >= '0' && s[j] <= '9') && v < 0x110000 {
				d := int(s[j] - '0')
				if s[j] >= 'a' {
					d = int(s[j]-'a') + 10
				} else if s[j] >= 'A' {
					d = int(s[j]-'A') + 10
				}
				v = v*base + d
				j++
			}
			if j > k && j < len(s) && s[j] == ';' {
				b.WriteRune(rune(v))
				i = j
				continue
			}
		} else {
			j := i + 1
			for j < len(s) && isTagChar(s[j]) {
				j++
			}
			if j < len(s) && s[j] == ';' {
				if r, ok := named[s[i+1:j]]; ok {
					b.WriteString(r)
					i = j
					continue
				}
			}
		}
		b.WriteByte('&')
	}
	return b.String()
}
