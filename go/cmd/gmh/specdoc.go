package main

// Go port of coq/model/SpecDoc.v (document trees, the prescribed HTML, the Markdown printer).
// Every generated tree is also sent to the extracted Coq model as a "SpecDoc" case, which
// recomputes both byte strings, so the port is checked against the model on each run.

import (
	"bytes"
	"fmt"
	"strings"
	"unicode/utf8"
)

type sAtom struct {
	K       byte // W E N M S C L I U R s H
	W       []byte
	C       int // AEsc char, AEnt cp
	Sp      int // AEnt spelling, AHard style, delimiter
	Body    []sAtom
	Style   int
	Variant int
	Dest    []byte
	HasT    bool
	Title   []byte
	Label   []byte
	Alt     [][]byte
	Ticks   int
	Padded  bool
	TStyle  int
}

type sBlock struct {
	K       byte // P G T K Q O X
	Ind     int
	Lv      int
	St      int
	Fl      int
	Info    []byte
	Lines   [][]byte
	Atoms   []sAtom
	Blocks  []sBlock
	Ordered bool
	Start   int
	Delim   int
	Marker  int
	Tight   bool
	Items   [][]sBlock
	Extra   int
	Gap     int
}

func escHTML1(c byte) []byte {
	switch c {
	case '"':
		return []byte("&quot;")
	case '&':
		return []byte("&amp;")
	case '<':
		return []byte("&lt;")
	case '>':
		return []byte("&gt;")
	}
	return []byte{c}
}
func escHTML(v []byte) []byte {
	var o []byte
	for _, c := range v {
		o = append(o, escHTML1(c)...)
	}
	return o
}
func joinB(sep []byte, l [][]byte) []byte { return bytes.Join(l, sep) }

func entName(cp int) string {
	switch cp {
	case 38:
		return "amp"
	case 60:
		return "lt"
	case 62:
		return "gt"
	case 34:
		return "quot"
	case 169:
		return "copy"
	}
	return ""
}

func isBreak(a sAtom) bool { return a.K == 's' || a.K == 'H' }

func atomsHTML(l []sAtom) []byte {
	var o []byte
	for i, a := range l {
		o = append(o, atomHTML(a)...)
		if i+1 < len(l) && !isBreak(a) && !isBreak(l[i+1]) {
			o = append(o, ' ')
		}
	}
	return o
}

func atomHTML(a sAtom) []byte {
	switch a.K {
	case 'W':
		return a.W
	case 'E':
		return escHTML1(byte(a.C))
	case 'N':
		return escHTML(utf8.AppendRune(nil, rune(a.C)))
	case 'M':
		return []byte("<em>" + string(atomsHTML(a.Body)) + "</em>")
	case 'S':
		return []byte("<strong>" + string(atomsHTML(a.Body)) + "</strong>")
	case 'C':
		return []byte("<code>" + string(escHTML(a.W)) + "</code>")
	case 'L':
		s := `<a href="` + string(escHTML(a.Dest)) + `"`
		if a.HasT {
			s += ` title="` + string(escHTML(a.Title)) + `"`
		}
		return []byte(s + ">" + string(atomsHTML(a.Body)) + "</a>")
	case 'I':
		return []byte(`<img src="` + string(escHTML(a.Dest)) + `" alt="` + string(joinB([]byte(" "), a.Alt)) + `" />`)
	case 'U':
		u := string(escHTML(a.W))
		return []byte(`<a href="` + u + `">` + u + "</a>")
	case 'R':
		return a.W
	case 's':
		return []byte("\n")
	case 'H':
		return []byte("<br />\n")
	}
	panic("atom kind")
}

func blocksHTML(l []sBlock) []byte {
	var o []byte
	for _, b := range l {
		o = append(o, blockHTML(b)...)
	}
	return o
}

func blockHTML(b sBlock) []byte {
	switch b.K {
	case 'P':
		return []byte("<p>" + string(atomsHTML(b.Atoms)) + "</p>\n")
	case 'G':
		return []byte(fmt.Sprintf("<h%d>%s</h%d>\n", b.Lv, atomsHTML(b.Atoms), b.Lv))
	case 'T':
		return []byte("<hr />\n")
	case 'K':
		s := "<pre><code"
		if len(b.Info) > 0 && b.St >= 2 {
			s += ` class="language-` + string(escHTML(b.Info)) + `"`
		}
		s += ">"
		for _, l := range b.Lines {
			s += string(escHTML(l)) + "\n"
		}
		return []byte(s + "</code></pre>\n")
	case 'Q':
		return []byte("<blockquote>\n" + string(blocksHTML(b.Blocks)) + "</blockquote>\n")
	case 'O':
		name := "ul"
		if b.Ordered {
			name = "ol"
		}
		s := "<" + name
		if b.Ordered && b.Start != 1 {
			s += fmt.Sprintf(` start="%d"`, b.Start)
		}
		s += ">\n"
		for _, it := range b.Items {
			if b.Tight && len(it) > 0 && it[0].K == 'P' {
				s += "<li>" + string(atomsHTML(it[0].Atoms))
				if len(it) > 1 {
					s += "\n" + string(blocksHTML(it[1:]))
				}
				s += "</li>\n"
			} else {
				s += "<li>\n" + string(blocksHTML(it)) + "</li>\n"
			}
		}
		return []byte(s + "</" + name + ">\n")
	case 'X':
		var o []byte
		for _, l := range b.Lines {
			o = append(o, l...)
			o = append(o, '\n')
		}
		return o
	}
	panic("block kind")
}

func htmlOf(d []sBlock) []byte { return blocksHTML(d) }

// ---------- Markdown printer ----------

type sDef struct {
	label, dest []byte
	ts          int
	hasT        bool
	title       []byte
}

func atomDefs(a sAtom, out *[]sDef) {
	switch a.K {
	case 'M', 'S':
		for _, x := range a.Body {
			atomDefs(x, out)
		}
	case 'L':
		if a.Style >= 2 {
			*out = append(*out, sDef{a.Label, a.Dest, a.TStyle, a.HasT, a.Title})
		}
		for _, x := range a.Body {
			atomDefs(x, out)
		}
	}
}
func blockDefs(b sBlock, out *[]sDef) {
	switch b.K {
	case 'P', 'G':
		for _, a := range b.Atoms {
			atomDefs(a, out)
		}
	case 'Q':
		for _, x := range b.Blocks {
			blockDefs(x, out)
		}
	case 'O':
		for _, it := range b.Items {
			for _, x := range it {
				blockDefs(x, out)
			}
		}
	}
}

func delimBytes(d, n int) []byte {
	c := byte('*')
	if d != 0 {
		c = '_'
	}
	return bytes.Repeat([]byte{c}, n)
}
func titleMD(ts int, has bool, t []byte) []byte {
	if !has {
		return nil
	}
	switch ts {
	case 0:
		return []byte(` "` + string(t) + `"`)
	case 1:
		return []byte(` '` + string(t) + `'`)
	}
	return []byte(` (` + string(t) + `)`)
}
func upperB(v []byte) []byte {
	o := make([]byte, len(v))
	for i, c := range v {
		if c >= 'a' && c <= 'z' {
			c -= 32
		}
		o[i] = c
	}
	return o
}
func widenB(v []byte) []byte {
	o := []byte{' '}
	for _, c := range v {
		if c == ' ' {
			o = append(o, ' ', '\t')
		} else {
			o = append(o, c)
		}
	}
	return append(o, ' ')
}

func atomsMD(l []sAtom) []byte {
	var o []byte
	for i, a := range l {
		o = append(o, atomMD(a)...)
		if i+1 < len(l) && !isBreak(a) && !isBreak(l[i+1]) {
			o = append(o, ' ')
		}
	}
	return o
}

func atomMD(a sAtom) []byte {
	switch a.K {
	case 'W':
		return a.W
	case 'E':
		return []byte{'\\', byte(a.C)}
	case 'N':
		if a.Sp == 0 {
			if n := entName(a.C); n != "" {
				return []byte("&" + n + ";")
			}
			return []byte(fmt.Sprintf("&#%d;", a.C))
		}
		if a.Sp == 1 {
			return []byte(fmt.Sprintf("&#%d;", a.C))
		}
		if a.Sp == 2 {
			return []byte(fmt.Sprintf("&#x%x;", a.C))
		}
		return []byte(fmt.Sprintf("&#X%X;", a.C))
	case 'M':
		d := delimBytes(a.Sp, 1)
		return append(append(append([]byte{}, d...), atomsMD(a.Body)...), d...)
	case 'S':
		d := delimBytes(a.Sp, 2)
		return append(append(append([]byte{}, d...), atomsMD(a.Body)...), d...)
	case 'C':
		f := strings.Repeat("`", a.Ticks)
		p := ""
		if a.Padded {
			p = " "
		}
		return []byte(f + p + string(a.W) + p + f)
	case 'L':
		text := "[" + string(atomsMD(a.Body)) + "]"
		lab := a.Label
		if a.Variant == 1 {
			lab = upperB(lab)
		} else if a.Variant == 2 {
			lab = widenB(lab)
		} else if a.Variant == 3 {
			lab = bytes.ReplaceAll(lab, []byte(" "), []byte("\t"))
		}
		switch a.Style {
		case 0:
			return []byte(text + "(" + string(a.Dest) + string(titleMD(a.TStyle, a.HasT, a.Title)) + ")")
		case 1:
			return []byte(text + "(<" + string(a.Dest) + ">" + string(titleMD(a.TStyle, a.HasT, a.Title)) + ")")
		case 2:
			return []byte(text + "[" + string(lab) + "]")
		case 3:
			return []byte(text + "[]")
		}
		return []byte(text)
	case 'I':
		return []byte("![" + string(joinB([]byte(" "), a.Alt)) + "](" + string(a.Dest) + ")")
	case 'U':
		return []byte("<" + string(a.W) + ">")
	case 'R':
		return a.W
	case 's':
		return []byte("\n")
	case 'H':
		if a.Sp == 0 {
			return []byte("  \n")
		}
		return []byte("\\\n")
	}
	panic("atom kind")
}

// a line: its structural prefix (container markers and indentation, which may be respelled with
// tabs) and its content
type sLine struct {
	s, c []byte
}

func (l sLine) blank() bool { return len(l.s) == 0 && len(l.c) == 0 }
func (l sLine) first() byte {
	if len(l.s) > 0 {
		return l.s[0]
	}
	if len(l.c) > 0 {
		return l.c[0]
	}
	return 0
}

func pre(p []byte, l sLine) sLine {
	return sLine{append(append([]byte{}, p...), l.s...), l.c}
}

func hrMD(st int) string {
	return []string{"***", "---", "___", "* * *", "-----", "_ _ _ _", "- -  -"}[st]
}
func markerMD(ordered bool, num, delim, marker int) string {
	if ordered {
		return fmt.Sprintf("%d%c", num, ".)"[delim])
	}
	return string("-+*"[marker])
}

func blocksLines(sep bool, l []sBlock) []sLine {
	var o []sLine
	for i, b := range l {
		o = append(o, blockLines(b)...)
		if sep && i+1 < len(l) {
			o = append(o, sLine{})
		}
	}
	return o
}

func blockLines(b sBlock) []sLine {
	sp := bytes.Repeat([]byte{' '}, b.Ind)
	switch b.K {
	case 'P':
		var o []sLine
		for _, l := range bytes.Split(atomsMD(b.Atoms), []byte("\n")) {
			o = append(o, sLine{sp, l})
		}
		return o
	case 'G':
		if b.St == 2 {
			u := strings.Repeat("=", b.Extra)
			if b.Lv != 1 {
				u = strings.Repeat("-", b.Extra)
			}
			return []sLine{{sp, atomsMD(b.Atoms)}, {sp, []byte(u)}}
		}
		h := strings.Repeat("#", b.Lv)
		s := h + " " + string(atomsMD(b.Atoms))
		if b.St == 1 {
			s += " " + strings.Repeat("#", b.Extra)
		}
		return []sLine{{sp, []byte(s)}}
	case 'T':
		return []sLine{{sp, []byte(hrMD(b.St))}}
	case 'K':
		var o []sLine
		if b.St == 0 || b.St == 1 {
			p := "    "
			if b.St == 1 {
				p = "\t"
			}
			for _, l := range b.Lines {
				o = append(o, sLine{[]byte(p), l})
			}
			return o
		}
		c := "`"
		if b.St != 2 {
			c = "~"
		}
		f := strings.Repeat(c, b.Fl)
		o = append(o, sLine{sp, []byte(f + string(b.Info))})
		for _, l := range b.Lines {
			if len(l) == 0 {
				o = append(o, sLine{})
			} else {
				o = append(o, sLine{nil, append(append([]byte{}, sp...), l...)})
			}
		}
		return append(o, sLine{sp, []byte(f)})
	case 'Q':
		var o []sLine
		for _, l := range blocksLines(true, b.Blocks) {
			if l.blank() {
				o = append(o, sLine{[]byte(">"), nil})
			} else if f := l.first(); b.St == 1 && f != ' ' && f != '\t' {
				o = append(o, pre([]byte(">"), l))
			} else {
				o = append(o, pre([]byte("> "), l))
			}
		}
		return o
	case 'O':
		var o []sLine
		num := b.Start
		for i, it := range b.Items {
			m := []byte(string(sp) + markerMD(b.Ordered, num, b.Delim, b.Marker) + strings.Repeat(" ", b.Gap))
			pad := bytes.Repeat([]byte{' '}, len(m))
			ls := blocksLines(!b.Tight, it)
			if len(ls) == 0 {
				o = append(o, sLine{m, nil})
			} else {
				o = append(o, pre(m, ls[0]))
				for _, l := range ls[1:] {
					if l.blank() {
						o = append(o, l)
					} else {
						o = append(o, pre(pad, l))
					}
				}
			}
			if i+1 < len(b.Items) && !b.Tight {
				o = append(o, sLine{})
			}
			num++
		}
		return o
	case 'X':
		var o []sLine
		for _, l := range b.Lines {
			o = append(o, sLine{nil, l})
		}
		return o
	}
	panic("block kind")
}

// respell: every run of blanks in a structural prefix that reaches a tab stop is written with a
// tab up to that stop (the columns stay the same)
func respell(s []byte) []byte {
	var out []byte
	col, run := 0, 0
	for _, c := range s {
		switch c {
		case ' ':
			col++
			if col%4 == 0 {
				out = append(out, '\t')
				run = 0
			} else {
				run++
			}
		case '\t':
			out = append(out, bytes.Repeat([]byte{' '}, run)...)
			out = append(out, '\t')
			col = (col/4 + 1) * 4
			run = 0
		default:
			out = append(out, bytes.Repeat([]byte{' '}, run)...)
			out = append(out, c)
			col++
			run = 0
		}
	}
	return append(out, bytes.Repeat([]byte{' '}, run)...)
}

func mdOf(tabs, finalNewline bool, d []sBlock) []byte {
	var defs []sDef
	for _, b := range d {
		blockDefs(b, &defs)
	}
	ls := blocksLines(true, d)
	if len(defs) > 0 {
		ls = append(ls, sLine{})
		for _, df := range defs {
			ls = append(ls, sLine{nil, []byte("[" + string(df.label) + "]: " + string(df.dest) + string(titleMD(df.ts, df.hasT, df.title)))})
		}
	}
	var out [][]byte
	for _, l := range ls {
		st := l.s
		if tabs {
			st = respell(st)
		}
		out = append(out, append(append([]byte{}, st...), l.c...))
	}
	o := bytes.Join(out, []byte("\n"))
	if finalNewline {
		o = append(o, '\n')
	}
	return o
}

// ---------- serialisation for the model side (prefix tokens) ----------

func serAtoms(sb *strings.Builder, l []sAtom) {
	fmt.Fprintf(sb, "%d ", len(l))
	for _, a := range l {
		serAtom(sb, a)
	}
}
func serAtom(sb *strings.Builder, a sAtom) {
	switch a.K {
	case 'W', 'U', 'R':
		fmt.Fprintf(sb, "%c %s ", a.K, hx(a.W))
	case 'C':
		fmt.Fprintf(sb, "C %d %s %s ", a.Ticks, btoa(a.Padded), hx(a.W))
	case 'E':
		fmt.Fprintf(sb, "E %d ", a.C)
	case 'N':
		fmt.Fprintf(sb, "N %d %d ", a.Sp, a.C)
	case 'M', 'S':
		fmt.Fprintf(sb, "%c %d ", a.K, a.Sp)
		serAtoms(sb, a.Body)
	case 'L':
		t := "~"
		if a.HasT {
			t = hx(a.Title)
		}
		fmt.Fprintf(sb, "L %d %d %d %s %s %s ", a.Style, a.Variant, a.TStyle, hx(a.Dest), t, hx(a.Label))
		serAtoms(sb, a.Body)
	case 'I':
		fmt.Fprintf(sb, "I %s %d ", hx(a.Dest), len(a.Alt))
		for _, w := range a.Alt {
			sb.WriteString(hx(w) + " ")
		}
	case 's':
		sb.WriteString("s ")
	case 'H':
		fmt.Fprintf(sb, "H %d ", a.Sp)
	}
}
func serBlocks(sb *strings.Builder, l []sBlock) {
	fmt.Fprintf(sb, "%d ", len(l))
	for _, b := range l {
		serBlock(sb, b)
	}
}
func serBlock(sb *strings.Builder, b sBlock) {
	switch b.K {
	case 'P':
		fmt.Fprintf(sb, "P %d ", b.Ind)
		serAtoms(sb, b.Atoms)
	case 'G':
		fmt.Fprintf(sb, "G %d %d %d %d ", b.Ind, b.Lv, b.St, b.Extra)
		serAtoms(sb, b.Atoms)
	case 'T':
		fmt.Fprintf(sb, "T %d %d ", b.Ind, b.St)
	case 'K':
		fmt.Fprintf(sb, "K %d %d %d %s %d ", b.St, b.Ind, b.Fl, hx(b.Info), len(b.Lines))
		for _, l := range b.Lines {
			sb.WriteString(hx(l) + " ")
		}
	case 'Q':
		fmt.Fprintf(sb, "Q %d ", b.St)
		serBlocks(sb, b.Blocks)
	case 'O':
		fmt.Fprintf(sb, "O %d %d %s %d %d %d %s %d ", b.Ind, b.Gap, btoa(b.Ordered), b.Start, b.Delim, b.Marker, btoa(b.Tight), len(b.Items))
		for _, it := range b.Items {
			serBlocks(sb, it)
		}
	case 'X':
		fmt.Fprintf(sb, "X %d ", len(b.Lines))
		for _, l := range b.Lines {
			sb.WriteString(hx(l) + " ")
		}
	}
}
func serDoc(d []sBlock) string {
	var sb strings.Builder
	serBlocks(&sb, d)
	return strings.TrimSpace(sb.String())
}
