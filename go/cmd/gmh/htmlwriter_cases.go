package main

import (
	"bufio"
	"bytes"
	"fmt"
	"strings"

	"github.com/yuin/goldmark/ast"
	"github.com/yuin/goldmark/renderer"
	"github.com/yuin/goldmark/renderer/html"
	"github.com/yuin/goldmark/util"
)

var wPlain = html.NewWriter()
var wEsc = html.NewWriter(html.WithEscapedSpace())

func bufOut(f func(w util.BufWriter)) []byte {
	var b bytes.Buffer
	w := bufio.NewWriter(&b)
	f(w)
	w.Flush()
	return b.Bytes()
}

var linkRenderer = renderer.NewRenderer(renderer.WithNodeRenderers(util.Prioritized(html.NewRenderer(), 1000)))
var linkRendererUnsafe = renderer.NewRenderer(renderer.WithNodeRenderers(util.Prioritized(html.NewRenderer(html.WithUnsafe()), 1000)))

// the href value the renderer writes for a Link with the given destination
func linkHref(dest []byte, unsafe bool) ([]byte, bool) {
	l := ast.NewLink()
	l.Destination = append([]byte(nil), dest...)
	var b bytes.Buffer
	r := linkRenderer
	if unsafe {
		r = linkRendererUnsafe
	}
	if err := r.Render(&b, nil, l); err != nil {
		return nil, false
	}
	o := b.Bytes()
	pre := []byte(`<a href="`)
	if !bytes.HasPrefix(o, pre) {
		return nil, false
	}
	o = o[len(pre):]
	i := bytes.IndexByte(o, '"')
	if i < 0 {
		return nil, false
	}
	return o[:i], true
}

// pure-function correspondence cases for the text-level writers of html.go
func htmlWriterCases(c *Ctx, in []byte) {
	h := hx(in)
	v := append([]byte(nil), in...)
	c.Case("WriterWrite", []string{"0", h}, hx(bufOut(func(w util.BufWriter) { wPlain.Write(w, v) })))
	c.Case("WriterWrite", []string{"1", h}, hx(bufOut(func(w util.BufWriter) { wEsc.Write(w, v) })))
	c.Case("RawWrite", []string{h}, hx(bufOut(func(w util.BufWriter) { wPlain.RawWrite(w, v) })))
	c.Case("SecureWrite", []string{h}, hx(bufOut(func(w util.BufWriter) { wPlain.SecureWrite(w, v) })))
	c.Case("IsDangerousURL", []string{h}, btoa(html.IsDangerousURL(v)))
	for _, unsafe := range []bool{false, true} {
		if href, ok := linkHref(v, unsafe); ok {
			c.Case("UrlValue", []string{btoa(unsafe), h, "1"}, hx(href))
			if !unsafe {
				// the specification-side predicate evaluated by the model must agree with the Go oracle
				c.Case("BrowserDangerous", []string{hx(href)}, btoa(dangerousURL(string(href))))
			}
		}
	}
}

var attrNamesPool = []string{"id", "class", "title", "href", "onclick", "data-x", "data-", "style", "x", "a:b", "_y", "lang", "width"}

func renderAttributesCases(c *Ctx, n int) {
	for i := 0; i < n; i++ {
		node := ast.NewParagraph()
		var fnames []string
		var fl [][]byte
		useFilter := c.R.Intn(4) > 0
		if useFilter {
			for _, nm := range attrNamesPool {
				if c.R.Bool() {
					fnames = append(fnames, hx([]byte(nm)))
					fl = append(fl, []byte(nm))
				}
			}
		}
		var as []string
		for k := c.R.Intn(5); k > 0; k-- {
			nm := c.R.PickS(attrNamesPool)
			val := c19Random(c.R, 3)
			switch c.R.Intn(3) {
			case 0:
				node.SetAttributeString(nm, val)
				as = append(as, fmt.Sprintf("%s:b:%s", hx([]byte(nm)), hx(val)))
			case 1:
				node.SetAttributeString(nm, string(val))
				as = append(as, fmt.Sprintf("%s:s:%s", hx([]byte(nm)), hx(val)))
			default:
				node.SetAttributeString(nm, 3.5)
				as = append(as, fmt.Sprintf("%s:o:-", hx([]byte(nm))))
			}
		}
		// SetAttribute replaces an existing name in place: describe the final list
		as = as[:0]
		for _, a := range node.Attributes() {
			switch t := a.Value.(type) {
			case []byte:
				as = append(as, fmt.Sprintf("%s:b:%s", hx(a.Name), hx(t)))
			case string:
				as = append(as, fmt.Sprintf("%s:s:%s", hx(a.Name), hx([]byte(t))))
			default:
				as = append(as, fmt.Sprintf("%s:o:-", hx(a.Name)))
			}
		}
		var filter util.BytesFilter
		fs := "nil"
		if useFilter {
			filter = util.NewBytesFilter(fl...)
			fs = strings.Join(fnames, ";")
			if fs == "" {
				fs = "-"
			}
		}
		out := bufOut(func(w util.BufWriter) { html.RenderAttributes(w, node, filter) })
		c.Case("RenderAttributes", []string{fs, strings.Join(as, ";")}, hx(out))
	}
}
