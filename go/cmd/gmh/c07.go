package main

import (
	"bytes"
	"encoding/json"
	"fmt"
	"os"
	"os/exec"
	"runtime"
	"strings"
	"sync"

	"github.com/yuin/goldmark/text"
)

func init() { runners["C07"] = runC07 }

var c07Docs = []string{
	"# Hello {lang=en title=\"x\"}\n\ntext &ouml; &amp; &copy; *em* [l](/u \"t\")\n",
	"|a|b|\n|:-|-:|\n|c|d|\n\n- [ ] t\n\n~~s~~ http://a.b\n",
	"text[^1] \"q\" -- ...\n\n[^1]: note\n\nt\n: d\n",
	"a[^1] b[^2] c[^1] d[^3]\n\n[^1]: one\n[^2]: two\n\n[^3]: three\n",
	"x[^n] y[^n] z[^n]\n\n[^n]: n[^m]\n\n[^m]: m\n\n# h[^m]\n",
	// soft breaks between wide, narrow, half-width and ambiguous characters (East Asian width
	// classes are consulted by the CSS3-draft line break rule)
	"ㄅ\nE\nㄆ\nF\nㄇ\nG\n㈠\nH\n㉠\nI\nｱ\nJ\n漢\nK\n한\nL\n。\nM\n",
	"E\nㄅ\nF\nㄆ\nÅ\n㈠\n¡\n漢\nα\nｱ\nЖ\n한\n",
	"ㄅㄆ\nㄇㄈ\nEF\nGH\n㈠㈡\n㉠㉡\n",
	"```go\ncode\n```\n\n> quote\n> more\n\n1. a\n2. b\n",
	"[ref]: /u 'T'\n\n[ref] ![i][ref] <http://x.y> <b>raw</b> &#x41; &Dcaron;\n",
	"# h {#i .c data-x=y width=3}\n\n![a](/s){width=10 height=20 title=t lang=en}\n\n## h2 {lang=fr dir=ltr}\n",
	"あいう\nえお\n\nＡ\nｂ\n",
	"[ΑΓΩ]: /g\n[Straße]: /s\n[ДОМ]: /d\n[ǅ]: /x\n\n[αγω] [STRASSE] [дом] [ǆ] [ΑΓΩ][] ![i][straSSe]\n",
	"[Ünïcödé Läbel]: /u\n\n[ünïcödé läbel] and [ÜNÏCÖDÉ LÄBEL][] <http://a.b/é> [ſ][]\n\n[S]: /long-s\n",
}

// one burst: G goroutines use the same fresh instance at once (first uses race with each other)
func c07Burst(c *Ctx, cf Cfg, g, procs int, round int) {
	old := runtime.GOMAXPROCS(procs)
	defer runtime.GOMAXPROCS(old)
	md := cf.Build()
	outs := make([][]byte, g)
	docs := make([][]byte, g)
	var wg sync.WaitGroup
	start := make(chan struct{})
	for i := 0; i < g; i++ {
		docs[i] = []byte(c07Docs[(i+round)%len(c07Docs)])
		wg.Add(1)
		go func(i int) {
			defer wg.Done()
			<-start
			defer func() { recover() }()
			var b bytes.Buffer
			switch i % 3 {
			case 0:
				_ = md.Convert(docs[i], &b)
			case 1:
				doc := md.Parser().Parse(text.NewReader(docs[i]))
				runtime.Gosched()
				_ = md.Renderer().Render(&b, docs[i], doc)
			default:
				runtime.Gosched()
				_ = md.Convert(docs[i], &b)
			}
			outs[i] = b.Bytes()
		}(i)
	}
	close(start)
	wg.Wait()
	seq := cf.Build()
	for i := 0; i < g; i++ {
		want, _, _ := convertSafe(seq, docs[i])
		if !bytes.Equal(outs[i], want) {
			c.Violate("concurrent-output-differs", map[string]interface{}{"config": cf.Name(), "goroutines": g, "gomaxprocs": procs, "source": q(docs[i])},
				fmt.Sprintf("concurrent call returned %.200q, alone it returns %.200q", outs[i], want), "concurrent-output-differs")
		}
	}
	c.Count("bursts", fmt.Sprintf("%s/%d/%d/%d", cf.Name(), g, procs, round), g >= 2)
}

// documents whose parsing goes through rarely used buffers: labels, titles and raw HTML spanning
// lines, each with its own words (a value mixed up between goroutines changes the output); plus
// blocks of the context x content matrix
func c07MoreDocs(r *RNG) []string {
	var out []string
	for k := 0; k < 6; k++ {
		w := fmt.Sprintf("w%d", k)
		var sb strings.Builder
		for j := 0; j < 12; j++ {
			fmt.Fprintf(&sb, "[text %d][%s label\n%d] and [%s short\n%d][] and [%s cut\n%d] ![img %d][%s label\n%d] [t](/u%d \"%s title\nline %d\") <a href=\"%s\"\n title=\"%d\">x</a>\n\n", j, w, j, w, j, w, j, j, w, j, j, w, j, w, j)
		}
		for j := 0; j < 12; j++ {
			fmt.Fprintf(&sb, "[%s label %d]: /dest/%s/%d \"%s\ntitle %d\"\n[%s short %d]: /short/%s/%d\n[%s cut %d]: <%s/cut/%d> (paren\n%d)\n", w, j, w, j, w, j, w, j, w, j, w, j, w, j, j)
		}
		out = append(out, sb.String())
	}
	for k := 0; k < 24; k++ {
		out = append(out, string(matrixPair(r))+string(matrixPair(r)))
	}
	return out
}

func runC07(c *Ctx) {
	c07Docs = append(c07Docs, c07MoreDocs(c.R)...)
	c.Rep.Rule = "a case is (configuration, goroutine count, GOMAXPROCS, round): G goroutines use one fresh instance at once (Convert, Parse+Render) on documents with entities, attributes, tables, footnotes; every output must equal the sequential one and the race detector must stay silent; distinct by hash; non-trivial = at least 2 goroutines"
	if os.Getenv("GMH_C07_CHILD") == "" {
		// everything runs in fresh child processes (the entity map's Once is process-global, and
		// the race detector's reports are collected from the children's output)
		children := 4
		if !c.Quick() {
			children = 16
		}
		self, _ := os.Executable()
		for k := 0; k < children; k++ {
			dir := fmt.Sprintf("%s/child%d", c.OutDir, k)
			cmd := exec.Command(self, "run", "C07", "--tier", c.Tier, "--seed", fmt.Sprint(c.Seed+uint64(k)), "--out", dir)
			cmd.Env = append(os.Environ(), "GMH_C07_CHILD=1", "GORACE=halt_on_error=0")
			out, err := cmd.CombinedOutput()
			if bytes.Contains(out, []byte("DATA RACE")) || bytes.Contains(out, []byte("fatal error")) || (err != nil && !bytes.Contains(out, []byte("DATA RACE"))) {
				rep := string(out)
				if i := strings.Index(rep, "WARNING: DATA RACE"); i >= 0 {
					rep = rep[i:]
				}
				if len(rep) > 3000 {
					rep = rep[:3000]
				}
				c.Violate("data-race", map[string]interface{}{"child": k, "seed": c.Seed + uint64(k), "how": "GMH_C07_CHILD=1 gmh-race run C07 (built with go build -race)"}, rep, "data-race")
			}
			// merge the child's report
			if b, err := os.ReadFile(dir + "/report.json"); err == nil {
				var r Report
				if json.Unmarshal(b, &r) == nil {
					c.Rep.Evaluations += r.Evaluations
					c.Rep.Distinct += r.Distinct
					c.Rep.Nontrivial += r.Nontrivial
					for k2, v := range r.Streams {
						c.Rep.Streams[fmt.Sprintf("%s", k2)] += v
					}
					c.Rep.Violations = append(c.Rep.Violations, r.Violations...)
					if len(c.Rep.Samples) == 0 {
						c.Rep.Samples = r.Samples
					}
				}
			}
			c.Rep.Streams["child-processes"]++
		}
		c.Rep.Extra["race_detector"] = "harness built with go build -race; GORACE=halt_on_error=0; every child's combined output scanned for DATA RACE"
		return
	}
	cfgs := []Cfg{{Ext: "all", AutoID: true, Attr: true}, {Ext: "gfm", Attr: true, XHTML: true}, {Ext: "core"}, {Ext: "cjk", Unsafe: true}, {Ext: "footnote", AutoID: true}, {Ext: "typo", Attr: true},
		{Ext: "footnote", FnPrefix: "p-"}, {Ext: "gfm+footnote", FnPrefix: "article1-", FnPrefixFunc: true, XHTML: true}, {Ext: "all", Opts: true, AutoID: true}, {Ext: "cjkcss3"}, {Ext: "cjkcss3", HardWraps: true, XHTML: true}}
	rounds := 2
	if !c.Quick() {
		rounds = 12
	}
	// the very first burst of a fresh process: every goroutine needs the named-entity map at once
	{
		runtime.GOMAXPROCS(16)
		md := cfgs[int(c.Seed)%len(cfgs)].Build()
		var wg sync.WaitGroup
		start := make(chan struct{})
		outs := make([][]byte, 64)
		src := []byte("&ouml; &amp; &copy; &Dcaron; [a](/u&colon;x \"&nbsp;\")\n")
		for i := 0; i < 64; i++ {
			wg.Add(1)
			go func(i int) {
				defer wg.Done()
				<-start
				defer func() { recover() }()
				var b bytes.Buffer
				_ = md.Convert(src, &b)
				outs[i] = b.Bytes()
			}(i)
		}
		close(start)
		wg.Wait()
		want, _, _ := convertSafe(cfgs[int(c.Seed)%len(cfgs)].Build(), src)
		for i := range outs {
			if !bytes.Equal(outs[i], want) {
				c.Violate("concurrent-output-differs", map[string]interface{}{"burst": "first use of the entity map", "source": q(src)},
					fmt.Sprintf("concurrent call returned %.200q, alone it returns %.200q", outs[i], want), "concurrent-output-differs")
				break
			}
		}
		c.Count("bursts", "entity-first-use", true)
	}
	for r := 0; r < rounds; r++ {
		for _, cf := range cfgs {
			for _, g := range []int{2, 8, 64} {
				for _, p := range []int{1, 2, 16} {
					c07Burst(c, cf, g, p, r)
				}
			}
		}
	}
	c.Sample(map[string]interface{}{"config": cfgs[0].Name(), "goroutines": 64, "gomaxprocs": 16, "documents": c07Docs[:2]})
}
