package main

import (
	"bytes"
	"fmt"
	"strings"
	"time"

	"github.com/yuin/goldmark/text"
)

func init() { runners["C18"] = runC18 }

var c18Alpha = []byte{'a', ' ', '\t', '\n', '\r', 0xe3, 0x81, '[', ']', '`', '\\'}

func segStr(s text.Segment) string { return fmt.Sprintf("%d,%d,%d", s.Start, s.Stop, s.Padding) }

type rdState struct {
	src       []byte
	lines     []text.Segment // nil for the plain reader
	r         text.Reader
	saved     [][2]interface{} // (line, Segment)
	savedView [][]byte
	// what the next operation has to be (see the operation choice)
	askColumn, askRestore, askSave, restoreLast bool
}

func (st *rdState) isBlock() bool { return st.lines != nil }

// reference "rest": everything the cursor will still deliver
func (st *rdState) rest() []byte {
	line, pos := st.r.Position()
	var out []byte
	if st.isBlock() {
		if line >= len(st.lines) || pos.Start < 0 || pos.Start >= st.lines[len(st.lines)-1].Stop {
			return nil
		}
		out = append(out, bytes.Repeat([]byte{' '}, pos.Padding)...)
		if pos.Start < pos.Stop {
			out = append(out, st.src[pos.Start:pos.Stop]...)
		}
		for k := line + 1; k < len(st.lines); k++ {
			out = append(out, st.lines[k].Value(st.src)...)
		}
		return out
	}
	if pos.Start < 0 || pos.Start >= len(st.src) {
		return nil // EOF: nothing is delivered any more (a padding at EOF has no meaning)
	}
	out = append(out, bytes.Repeat([]byte{' '}, pos.Padding)...)
	return append(out, st.src[pos.Start:]...)
}

func (st *rdState) expectedView() []byte {
	line, pos := st.r.Position()
	if st.isBlock() {
		last := 0
		if len(st.lines) > 0 {
			last = st.lines[len(st.lines)-1].Stop
		}
		if !(line < len(st.lines) && pos.Start >= 0 && pos.Start < last) {
			return nil
		}
	} else if !(pos.Start >= 0 && pos.Start < len(st.src)) {
		return nil
	}
	out := bytes.Repeat([]byte{' '}, pos.Padding)
	return append(out, st.src[pos.Start:pos.Stop]...)
}

func colWidth(b []byte) int {
	v := 0
	for _, c := range b {
		if c == '\t' {
			v += 4 - v%4
		} else {
			v++
		}
	}
	return v
}

// one scripted run; returns script and observations
func c18Run(c *Ctx, st *rdState, nOps int, stream string) {
	var script, obs []string
	crossed := false
	fail := func(kind, detail string) {
		in := map[string]interface{}{"source": q(st.src), "script": strings.Join(script, " ")}
		if st.isBlock() {
			var ls []string
			for _, l := range st.lines {
				ls = append(ls, segStr(l))
			}
			in["lines"] = strings.Join(ls, ";")
		}
		c.Violate(kind, in, detail, kind)
	}
	panicked := false
	for o := 0; o < nOps && !panicked; o++ {
		c.watchdog(60*time.Second, "reader-hang", func() interface{} {
			return map[string]interface{}{"source": q(st.src), "script": strings.Join(script, " "), "block": st.isBlock()}
		}, func() {
			defer func() {
				if r := recover(); r != nil {
					panicked = true
					obs = append(obs, "PANIC")
					fail("reader-panic", fmt.Sprintf("panic: %v", r))
				}
			}()
			line0, pos0 := st.r.Position()
			rest0 := st.rest()
			var op, out string
			k := c.R.Intn(20)
			if st.askColumn {
				// the column is asked for right after every move that can leave a cached column
				// behind: restoring a position, changing the padding, advancing inside a padding
				k, st.askColumn = 14, false
			} else if st.askSave {
				k, st.askSave = 11, false
			} else if st.askRestore && len(st.saved) > 0 {
				k, st.askRestore, st.restoreLast = 12, false, true
			}
			switch {
			case k < 3:
				op = "pl"
				b, s := st.r.PeekLine()
				if b == nil {
					out = "nil:" + segStr(s)
				} else {
					out = hx(b) + ":" + segStr(s)
				}
				if want := st.expectedView(); !bytes.Equal(b, want) || (b == nil) != (want == nil) {
					fail("law:PeekLine", fmt.Sprintf("PeekLine=%q, the view at the position is %q", b, want))
				}
			case k < 4:
				op = "pk"
				b := st.r.Peek()
				out = itoa(int(b))
				want := byte(0xff)
				if v := st.expectedView(); len(v) > 0 {
					want = v[0]
				}
				if b != want {
					fail("law:Peek", fmt.Sprintf("Peek=%#x, first byte of the view is %#x", b, want))
				}
			case k < 8:
				n := 0
				if len(rest0) > 0 {
					n = c.R.Intn(len(rest0) + 1)
					if c.R.Intn(3) > 0 && n > 3 {
						n = c.R.Intn(4)
					}
				}
				op = "ad" + itoa(n)
				if pos0.Padding > 0 {
					// a move inside (or out of) a padding: ask the column, then go back to a saved position
					st.askColumn, st.askRestore = true, true
				}
				st.r.Advance(n)
				if rest1 := st.rest(); !bytes.Equal(rest1, rest0[min(n, len(rest0)):]) {
					fail("law:Advance", fmt.Sprintf("Advance(%d): remaining %q, expected %q", n, rest1, rest0[min(n, len(rest0)):]))
				}
			case k < 9:
				op = "al"
				st.r.AdvanceLine()
			case k < 10:
				// AdvanceAndSetPadding(n, p) with n ending just behind a tab of the current line
				v := st.expectedView()
				idx := -1
				for i := pos0.Padding; i < len(v); i++ {
					if v[i] == '\t' {
						idx = i
						break
					}
				}
				if idx < 0 || pos0.Padding != 0 {
					op = "pk"
					out = itoa(int(st.r.Peek()))
					break
				}
				p := c.R.Intn(4)
				op = fmt.Sprintf("ap%d.%d", idx+1, p)
				st.askColumn, st.askSave = c.R.Bool(), true
				st.r.AdvanceAndSetPadding(idx+1, p)
			case k < 11:
				// SetPadding only where a padding has a meaning: directly behind a tab
				if pos0.Start > 0 && pos0.Start <= len(st.src) && st.src[pos0.Start-1] == '\t' && len(st.expectedView()) > 0 {
					p := c.R.Intn(4)
					op = "sp" + itoa(p)
					st.r.SetPadding(p)
				} else {
					op = "pk"
					out = itoa(int(st.r.Peek()))
				}
			case k < 12:
				op = "po" + itoa(len(st.saved))
				st.saved = append(st.saved, [2]interface{}{line0, pos0})
				st.savedView = append(st.savedView, st.expectedView())
			case k < 14:
				if len(st.saved) == 0 {
					op = "pk"
					out = itoa(int(st.r.Peek()))
					break
				}
				i := c.R.Intn(len(st.saved))
				if st.restoreLast {
					i, st.restoreLast = len(st.saved)-1, false
				}
				op = "re" + itoa(i)
				st.askColumn = true
				st.r.SetPosition(st.saved[i][0].(int), st.saved[i][1].(text.Segment))
				b, _ := st.r.PeekLine()
				if !bytes.Equal(b, st.savedView[i]) {
					fail("law:SetPosition", fmt.Sprintf("after SetPosition to saved position %d PeekLine=%q, the view seen then was %q", i, b, st.savedView[i]))
				}
				if b == nil {
					out = "nil"
				} else {
					out = hx(b)
				}
			case k < 15:
				op = "lo"
				v := st.r.LineOffset()
				out = itoa(v)
				// independent column: expand tabs from the head of the current line
				_, pos := st.r.Position()
				if len(st.expectedView()) > 0 {
					head := 0
					if st.isBlock() {
						l, _ := st.r.Position()
						head = st.lines[l].Start
					} else {
						head = pos.Start
						for head > 0 && st.src[head-1] != '\n' {
							head--
						}
					}
					if head <= pos.Start {
						if want := colWidth(st.src[head:pos.Start]) - pos.Padding; v != want {
							fail("law:LineOffset", fmt.Sprintf("LineOffset=%d, tab-expanded column is %d", v, want))
						}
					}
				}
			case k < 16:
				op = "pc"
				out = itoa(int(st.r.PrecendingCharacter()))
			case k < 17:
				if c.R.Bool() {
					op = "ss"
					s, n, ok := st.r.SkipSpaces()
					out = fmt.Sprintf("%s:%d:%s", segStr(s), n, btoa(ok))
				} else {
					op = "sb"
					s, n, ok := st.r.SkipBlankLines()
					out = fmt.Sprintf("%s:%d:%s", segStr(s), n, btoa(ok))
				}
			case k < 18:
				op = "rr"
				rn, sz, err := st.r.ReadRune()
				out = fmt.Sprintf("%d,%d,%s", rn, sz, btoa(err != nil))
			case k < 19:
				bits := c.R.Intn(16)
				opts := text.FindClosureOptions{CodeSpan: bits&1 != 0, Nesting: bits&2 != 0, Newline: bits&4 != 0, Advance: bits&8 != 0}
				op = fmt.Sprintf("fc%d.%d.%d", '[', ']', bits)
				segs, ok := st.r.FindClosure('[', ']', opts)
				if ok {
					var ss []string
					for i := 0; i < segs.Len(); i++ {
						ss = append(ss, segStr(segs.At(i)))
					}
					out = "ok:" + strings.Join(ss, ";")
				} else {
					out = "no"
				}
				if !opts.Advance {
					l1, p1 := st.r.Position()
					if l1 != line0 || p1 != pos0 {
						fail("law:FindClosure", fmt.Sprintf("FindClosure without Advance moved the position from %d/%s to %d/%s", line0, segStr(pos0), l1, segStr(p1)))
					}
				}
			default:
				// Value of a segment
				var sg text.Segment
				if st.isBlock() {
					if len(st.lines) == 0 {
						op = "pk"
						out = itoa(int(st.r.Peek()))
						break
					}
					li := c.R.Intn(len(st.lines))
					l := st.lines[li]
					a := l.Start + c.R.Intn(l.Stop-l.Start+1)
					b := a + c.R.Intn(l.Stop-a+1)
					pad := 0
					if a == l.Start {
						pad = l.Padding
					}
					sg = text.NewSegmentPadding(a, b, pad)
				} else {
					a := c.R.Intn(len(st.src) + 1)
					b := a + c.R.Intn(len(st.src)-a+1)
					sg = text.NewSegmentPadding(a, b, c.R.Intn(3))
				}
				op = "va" + strings.ReplaceAll(segStr(sg), ",", ".")
				v := st.r.Value(sg)
				out = hx(v)
				if want := sg.Value(st.src); !bytes.Equal(v, want) {
					fail("law:Value", fmt.Sprintf("Value(%s)=%q, the segment's own value is %q", segStr(sg), v, want))
				}
			}
			l1, p1 := st.r.Position()
			if l1 != line0 {
				crossed = true
			}
			if p1.Padding != 0 {
				crossed = true
			}
			if p1.Start > len(st.src) || p1.Stop > len(st.src) || p1.Start < -1 {
				fail("law:in-range", fmt.Sprintf("position %s outside the source (len %d)", segStr(p1), len(st.src)))
			}
			script = append(script, op)
			obs = append(obs, fmt.Sprintf("%s@%d,%s", out, l1, segStr(p1)))
		})
	}
	sc := strings.Join(script, " ")
	if st.isBlock() {
		var ls []string
		for _, l := range st.lines {
			ls = append(ls, segStr(l))
		}
		c.Case("BReaderProg", []string{hx(st.src), strings.Join(ls, ";"), sc}, strings.Join(obs, "|"))
		c.Count(stream, "B"+hx(st.src)+strings.Join(ls, ";")+sc, crossed)
	} else {
		c.Case("ReaderProg", []string{hx(st.src), sc}, strings.Join(obs, "|"))
		c.Count(stream, "R"+hx(st.src)+sc, crossed)
	}
	c.Sample(map[string]string{"stream": stream, "source": q(st.src), "script": sc})
}

func c18Lines(r *RNG, src []byte) []text.Segment {
	// in-range line segments in increasing order, each ending at a newline or at the end,
	// starting anywhere inside its source line (like container content), with optional padding
	var lines []text.Segment
	start := 0
	for start < len(src) {
		end := start
		for end < len(src) && src[end] != '\n' {
			end++
		}
		if end < len(src) {
			end++
		}
		if r.Intn(5) > 0 {
			a := start + r.Intn(end-start)
			pad := 0
			if a > 0 && src[a-1] == '\t' && r.Bool() {
				pad = 1 + r.Intn(3)
			}
			lines = append(lines, text.NewSegmentPadding(a, end, pad))
		}
		start = end
	}
	return lines
}

func runC18(c *Ctx) {
	c.Rep.Rule = "a case is (reader kind, source, line segments, call script); distinct by hash; non-trivial = the script crosses a line or involves padding"
	srcLen, nOps := 4, 4
	if !c.Quick() {
		srcLen, nOps = 5, 5
	}
	// stream 1: every source up to srcLen over the alphabet x several random scripts each
	reps := 2
	enumStrings(c18Alpha, srcLen, func(b []byte) {
		for k := 0; k < reps; k++ {
			st := &rdState{src: b, r: text.NewReader(b)}
			c18Run(c, st, nOps+c.R.Intn(6), fmt.Sprintf("all-sources<=%d/reader", srcLen))
		}
		if len(b) > 0 {
			ls := c18Lines(c.R, b)
			if len(ls) > 0 {
				segs := text.NewSegments()
				segs.AppendAll(ls)
				st := &rdState{src: b, lines: ls, r: text.NewBlockReader(b, segs)}
				c18Run(c, st, nOps+c.R.Intn(6), fmt.Sprintf("all-sources<=%d/block-reader", srcLen))
			}
		}
	})
	// stream 2: long random scripts on larger sources
	n := 3000
	if !c.Quick() {
		n = 80000
	}
	for i := 0; i < n; i++ {
		b := randBytes(c.R, c18Alpha, 60)
		if c.R.Bool() {
			st := &rdState{src: b, r: text.NewReader(b)}
			c18Run(c, st, 5+c.R.Intn(40), "random/reader")
		} else {
			ls := c18Lines(c.R, b)
			if len(ls) == 0 {
				continue
			}
			segs := text.NewSegments()
			segs.AppendAll(ls)
			st := &rdState{src: b, lines: ls, r: text.NewBlockReader(b, segs)}
			c18Run(c, st, 5+c.R.Intn(40), "random/block-reader")
		}
	}
}

func min(a, b int) int {
	if a < b {
		return a
	}
	return b
}
