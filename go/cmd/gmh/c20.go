package main

import (
	"bytes"
	"fmt"
	"math"
	"sort"
	"strings"

	"github.com/yuin/goldmark"
	"github.com/yuin/goldmark/ast"
	"github.com/yuin/goldmark/parser"
	"github.com/yuin/goldmark/renderer"
	"github.com/yuin/goldmark/text"
	"github.com/yuin/goldmark/util"
)

func init() { runners["C20"] = runC20 }

// a scripted probe component; the same description is interpreted by the Gallina model
type probe struct {
	id     int
	prio   int
	trig   []byte // block/inline: trigger bytes; nil = trigger-less (block only)
	kinds  []int  // renderer: 0 = ThematicBreak, 1 = custom kind
	accept bool
	mess   bool // inline probes: consume a byte before declining (the driver must restore the position)
	indent bool // block probes: CanAcceptIndentedLine
	noInt  bool // block probes: CanInterruptParagraph is false
	log    *[]string
}

var kindCustom = ast.NewNodeKind("VerifProbe")

type customNode struct{ ast.BaseBlock }

func (n *customNode) Kind() ast.NodeKind            { return kindCustom }
func (n *customNode) Dump(source []byte, level int) {}

// ---- block parser probe ----
type probeBlock struct{ p *probe }

func (b probeBlock) Trigger() []byte { return b.p.trig }
func (b probeBlock) Open(parent ast.Node, reader text.Reader, pc parser.Context) (ast.Node, parser.State) {
	*b.p.log = append(*b.p.log, itoa(b.p.id))
	if !b.p.accept {
		return nil, parser.NoChildren
	}
	_, seg := reader.PeekLine()
	reader.Advance(seg.Len() - 1)
	return ast.NewThematicBreak(), parser.NoChildren
}
func (b probeBlock) Continue(node ast.Node, reader text.Reader, pc parser.Context) parser.State {
	return parser.Close
}
func (b probeBlock) Close(node ast.Node, reader text.Reader, pc parser.Context) {}
func (b probeBlock) CanInterruptParagraph() bool                                { return !b.p.noInt }
func (b probeBlock) CanAcceptIndentedLine() bool                                { return b.p.indent }

// ---- inline parser probe ----
type probeInline struct{ p *probe }

func (b probeInline) Trigger() []byte { return b.p.trig }
func (b probeInline) Parse(parent ast.Node, block text.Reader, pc parser.Context) ast.Node {
	*b.p.log = append(*b.p.log, itoa(b.p.id))
	if !b.p.accept {
		if b.p.mess {
			block.Advance(1)
		}
		return nil
	}
	block.Advance(1)
	return ast.NewString([]byte(fmt.Sprintf("{%d}", b.p.id)))
}

// ---- transformers ----
type probePT struct{ p *probe }

func (b probePT) Transform(node *ast.Paragraph, reader text.Reader, pc parser.Context) {
	*b.p.log = append(*b.p.log, itoa(b.p.id))
}

type probeAT struct{ p *probe }

func (b probeAT) Transform(node *ast.Document, reader text.Reader, pc parser.Context) {
	*b.p.log = append(*b.p.log, itoa(b.p.id))
}

// appends a node of the custom kind (with a paragraph child) to the document
type customAppender struct{}

func (customAppender) Transform(doc *ast.Document, reader text.Reader, pc parser.Context) {
	n := &customNode{}
	p := ast.NewParagraph()
	p.AppendChild(p, ast.NewString([]byte("t")))
	n.AppendChild(n, p)
	doc.AppendChild(doc, n)
}

// ---- node renderer probe ----
type probeNR struct{ p *probe }

func (b probeNR) RegisterFuncs(reg renderer.NodeRendererFuncRegisterer) {
	f := func(w util.BufWriter, source []byte, n ast.Node, entering bool) (ast.WalkStatus, error) {
		d := "-"
		if entering {
			d = "+"
		}
		_, _ = w.WriteString(fmt.Sprintf("[%d%s]", b.p.id, d))
		return ast.WalkContinue, nil
	}
	for _, k := range b.p.kinds {
		if k == 0 {
			reg.Register(ast.KindThematicBreak, f)
		} else {
			reg.Register(kindCustom, f)
		}
	}
}

type extFunc func(m goldmark.Markdown)

func (f extFunc) Extend(m goldmark.Markdown) { f(m) }

func descr(ps []*probe) string {
	var out []string
	for _, p := range ps {
		t := "-"
		if p.trig != nil {
			t = hx(p.trig)
			if len(p.trig) == 0 {
				t = "e"
			}
		}
		ks := make([]string, len(p.kinds))
		for i, k := range p.kinds {
			ks[i] = itoa(k)
		}
		out = append(out, fmt.Sprintf("%d:%d:%s:%s:%s", p.id, p.prio, t, strings.Join(ks, "."), btoa(p.accept)))
	}
	return strings.Join(out, ";")
}

// builds an instance registering the probes in the given order through a mix of channels
func buildWith(r *RNG, role byte, ps []*probe, extra ...goldmark.Option) goldmark.Markdown {
	var opts []goldmark.Option
	var later []func(goldmark.Markdown)
	for _, p := range ps {
		p := p
		var po parser.Option
		var ro renderer.Option
		switch role {
		case 'a':
			po = parser.WithBlockParsers(util.Prioritized(probeBlock{p}, p.prio))
		case 'b':
			po = parser.WithInlineParsers(util.Prioritized(probeInline{p}, p.prio))
		case 'c':
			po = parser.WithParagraphTransformers(util.Prioritized(probePT{p}, p.prio))
		case 'd':
			po = parser.WithASTTransformers(util.Prioritized(probeAT{p}, p.prio))
		case 'e':
			ro = renderer.WithNodeRenderers(util.Prioritized(probeNR{p}, p.prio))
		}
		switch r.Intn(3) {
		case 0:
			if po != nil {
				opts = append(opts, goldmark.WithParserOptions(po))
			} else {
				opts = append(opts, goldmark.WithRendererOptions(ro))
			}
		case 1:
			opts = append(opts, goldmark.WithExtensions(extFunc(func(m goldmark.Markdown) {
				if po != nil {
					m.Parser().AddOptions(po)
				} else {
					m.Renderer().AddOptions(ro)
				}
			})))
		default:
			later = append(later, func(m goldmark.Markdown) {
				if po != nil {
					m.Parser().AddOptions(po)
				} else {
					m.Renderer().AddOptions(ro)
				}
			})
		}
	}
	opts = append(opts, extra...)
	m := goldmark.New(opts...)
	for _, f := range later {
		f(m)
	}
	return m
}

func runC20(c *Ctx) {
	c.Rep.Rule = "a case is (component role, probes with id/priority/trigger/kinds/accept flag in registration order); distinct by hash; non-trivial = at least 2 components compete for the same trigger or kind"
	n := 4000
	if !c.Quick() {
		n = 80000
	}
	prioScenarios(c, n, []byte{'a', 'b', 'c', 'd', 'e'})
	retryScenarios(c, n/4)
	zeroWidthScenarios(c, n/4)
}

// zeroWidthScenarios: inline parsers that accept without consuming anything (the InlineParser
// contract allows a node with no advance: a marker node, say).  Such a parser, asked first by
// priority, wins its turn like any other: its node is appended and the same position is offered
// again to the whole candidate list, where it now declines and the next one by priority gets the
// byte.  Each probe here is scripted per position: 'z' accepts once without advancing and
// declines afterwards, 'c' accepts and consumes the byte, 'd' declines, 'm' moves the reader and
// declines.
type zwInline struct {
	id, prio int
	mode     byte
	fired    map[int]bool
	log      *[]string
}

func (b *zwInline) Trigger() []byte { return []byte{'@'} }
func (b *zwInline) Parse(parent ast.Node, block text.Reader, pc parser.Context) ast.Node {
	*b.log = append(*b.log, itoa(b.id))
	_, seg := block.PeekLine()
	switch b.mode {
	case 'z':
		if b.fired[seg.Start] {
			return nil
		}
		b.fired[seg.Start] = true
		return ast.NewString([]byte(fmt.Sprintf("{%d}", b.id)))
	case 'c':
		block.Advance(1)
		return ast.NewString([]byte(fmt.Sprintf("{%d}", b.id)))
	case 'm':
		block.Advance(1)
		return nil
	}
	return nil
}

func zeroWidthScenarios(c *Ctx, n int) {
	pool := []int{50, 150, 450, 550, 950, 1050, -7, 2000, math.MinInt, math.MaxInt}
	docs := []string{"x@y", "@", "x@@y", "a @ b\n@", "*x@y*", "[x@y](/u)"}
	for it := 0; it < n; it++ {
		k := 2 + c.R.Intn(3)
		perm := append([]int(nil), pool...)
		for i := len(perm) - 1; i > 0; i-- {
			j := c.R.Intn(i + 1)
			perm[i], perm[j] = perm[j], perm[i]
		}
		var log []string
		var ps []*zwInline
		var opts []goldmark.Option
		var later []parser.Option
		desc := ""
		for i := 0; i < k; i++ {
			p := &zwInline{id: i + 1, prio: perm[i], mode: "zzcdm"[c.R.Intn(5)], fired: map[int]bool{}, log: &log}
			ps = append(ps, p)
			desc += fmt.Sprintf("%d:prio=%d:%c ", p.id, p.prio, p.mode)
			po := parser.WithInlineParsers(util.Prioritized(p, p.prio))
			switch c.R.Intn(3) {
			case 0:
				opts = append(opts, goldmark.WithParserOptions(po))
			case 1:
				opts = append(opts, goldmark.WithExtensions(extFunc(func(m goldmark.Markdown) { m.Parser().AddOptions(po) })))
			default:
				later = append(later, po)
			}
		}
		md := goldmark.New(opts...)
		md.Parser().AddOptions(later...)
		doc := docs[it%len(docs)]
		out, errS, panicS := convertSafe(md, []byte(doc))
		obs := strings.Join(log, ",") + "|" + string(out)
		if errS != "" || panicS != "" {
			obs = "FAIL:" + errS + panicS
		}
		// the oracle: at every '@', candidates in ascending priority; a zero-width accept restarts
		s := append([]*zwInline{}, ps...)
		sort.SliceStable(s, func(i, j int) bool { return s[i].prio < s[j].prio })
		var wlog []string
		var wtext strings.Builder
		for pos := 0; pos < len(doc); pos++ {
			if doc[pos] != '@' {
				wtext.WriteByte(doc[pos])
				continue
			}
			fired := map[int]bool{}
			consumed := false
		again:
			for _, p := range s {
				wlog = append(wlog, itoa(p.id))
				if p.mode == 'z' && !fired[p.id] {
					fired[p.id] = true
					wtext.WriteString(fmt.Sprintf("{%d}", p.id))
					goto again
				}
				if p.mode == 'c' {
					wtext.WriteString(fmt.Sprintf("{%d}", p.id))
					consumed = true
					break
				}
			}
			if !consumed {
				wtext.WriteByte('@')
			}
		}
		t := wtext.String()
		var whtml string
		switch it % len(docs) {
		case 3:
			whtml = "<p>" + strings.Replace(t, "\n", "\n", 1) + "</p>\n"
		case 4:
			whtml = "<p><em>" + strings.Trim(t, "*") + "</em></p>\n"
		case 5:
			whtml = "<p><a href=\"/u\">" + strings.TrimSuffix(strings.TrimPrefix(t, "["), "](/u)") + "</a></p>\n"
		default:
			whtml = "<p>" + t + "</p>\n"
		}
		if w := strings.Join(wlog, ",") + "|" + whtml; obs != w {
			c.Violate("priority-oracle", map[string]string{"role": "b", "components": desc, "document": q([]byte(doc))}, fmt.Sprintf("observed %q, expected by priority %q", obs, w), "priority-oracle")
		}
		c.Count("zero-width-scenarios", doc+desc, true)
	}
}

// retryScenarios: block probes on the trigger '-' next to the built-in setext heading (100),
// thematic break (200) and list (300) parsers, on a setext-underline-like line that follows a
// paragraph.  "[foo]: /u" + "---": the setext parser asks for the paragraph, the reference
// definition transformer swallows it, and openBlocks starts over with the whole candidate list,
// now without an open paragraph, so that parsers which may not interrupt a paragraph get their
// turn in priority order.  "text" + "---": the paragraph stays, the setext parser wins unless a
// probe of smaller priority value that may interrupt paragraphs accepts.
func retryScenarios(c *Ctx, n int) {
	pool := []int{10, 50, 90, 99, 101, 150, 199, 201, 250, 400, -5}
	for it := 0; it < n; it++ {
		k := 1 + c.R.Intn(3)
		perm := append([]int(nil), pool...)
		for i := len(perm) - 1; i > 0; i-- {
			j := c.R.Intn(i + 1)
			perm[i], perm[j] = perm[j], perm[i]
		}
		var log []string
		var ps []*probe
		for i := 0; i < k; i++ {
			ps = append(ps, &probe{id: i + 1, prio: perm[i], trig: []byte{'-'}, accept: c.R.Intn(3) == 0, noInt: c.R.Intn(2) == 0, log: &log})
		}
		swallowed := it%2 == 0
		doc := "text\n---\n"
		if swallowed {
			doc = "[foo]: /u\n---\n"
		}
		md := buildWith(c.R, 'a', ps)
		_, errS, panicS := convertSafe(md, []byte(doc))
		obs := strings.Join(log, ",")
		if errS != "" || panicS != "" {
			obs = "FAIL:" + errS + panicS
		}
		s := append([]*probe{}, ps...)
		sort.SliceStable(s, func(i, j int) bool { return s[i].prio < s[j].prio })
		var want []string
		done := false
		// first pass: a paragraph is open; only parsers that may interrupt one are asked, up to
		// the setext parser at 100, which takes the line
		for _, p := range s {
			if p.prio > 100 {
				break
			}
			if p.noInt {
				continue
			}
			want = append(want, itoa(p.id))
			if p.accept {
				done = true
				break
			}
		}
		if !done && swallowed {
			// the paragraph is gone: every candidate again, in priority order, up to the thematic
			// break parser at 200, which takes the line
			for _, p := range s {
				if p.prio > 200 {
					break
				}
				want = append(want, itoa(p.id))
				if p.accept {
					break
				}
			}
		}
		if w := strings.Join(want, ","); obs != w {
			c.Violate("priority-oracle", map[string]string{"role": "a", "components": descr(ps), "document": q([]byte(doc)), "may_not_interrupt": fmt.Sprint(func() (r []int) {
				for _, p := range ps {
					if p.noInt {
						r = append(r, p.id)
					}
				}
				return
			}())}, fmt.Sprintf("observed %q, expected by priority %q", obs, w), "priority-oracle")
		}
		c.Count("retry-scenarios", doc+descr(ps)+obs, k >= 2)
	}
}

// prioScenarios: random sets of probe components per role, run through goldmark; the observed
// invocation order is compared with the priority oracle and sent to the dispatch model.
func prioScenarios(c *Ctx, n int, roles []byte) {
	pool := []int{50, 150, 450, 550, 950, 1050, -7, 2000, math.MinInt, math.MaxInt, math.MinInt + 1, math.MaxInt - 1}
	for it := 0; it < n; it++ {
		role := roles[it%len(roles)]
		k := 1 + c.R.Intn(4)
		perm := append([]int(nil), pool...)
		for i := len(perm) - 1; i > 0; i-- {
			j := c.R.Intn(i + 1)
			perm[i], perm[j] = perm[j], perm[i]
		}
		var log []string
		var ps []*probe
		compete := 0
		for i := 0; i < k; i++ {
			p := &probe{id: i + 1, prio: perm[i], accept: c.R.Intn(3) == 0, log: &log}
			switch role {
			case 'a':
				switch c.R.Intn(4) {
				case 0:
					p.trig = nil
				case 1:
					p.trig = []byte{'@', '@'}
				case 2:
					p.trig = []byte{'%', '@'}
				default:
					p.trig = []byte{'@'}
				}
				p.indent = c.R.Intn(3) != 0
				compete++
			case 'b':
				p.mess = c.R.Bool()
				if c.R.Intn(4) == 0 {
					p.trig = []byte{'%'}
				} else {
					p.trig = []byte{'@'}
					compete++
				}
			case 'e':
				switch c.R.Intn(3) {
				case 0:
					p.kinds = []int{0}
				case 1:
					p.kinds = []int{1}
				default:
					p.kinds = []int{0, 1}
				}
				compete++
			default:
				compete++
			}
			ps = append(ps, p)
		}
		// the built-ins that take part, as the model needs to know them
		var builtins []*probe
		var doc string
		var extra []goldmark.Option
		part := ps // the probes that take part (an indented line is offered only to parsers that accept one)
		switch role {
		case 'a':
			// the line with the trigger byte in several positions: at the margin, indented by 3
			// (not an indented line), by 4, by a tab, inside a list item and a block quote with
			// and without a further indentation of 4
			ctx := it / len(roles) % 8
			indented := false
			switch ctx {
			case 0, 1:
				doc = "@x\n"
			case 2:
				doc = "   @x\n"
			case 3:
				doc, indented = "    @x\n", true
			case 4:
				doc, indented = "\t@x\n", true
			case 5:
				doc, indented = "- i\n\n      @x\n", true
			case 6:
				doc = "> @x\n"
			default:
				doc, indented = ">     @x\n", true
			}
			if ctx >= 5 {
				// inside containers the trigger-less probes would also be consulted for the
				// container's own lines: keep to triggered probes there
				for _, p := range ps {
					if p.trig == nil {
						p.trig = []byte{'@'}
					}
				}
			}
			builtins = []*probe{{id: 500, prio: 500, trig: nil, accept: false}, {id: 1000, prio: 1000, trig: nil, accept: true}}
			if indented {
				part = nil
				for _, p := range ps {
					if p.indent {
						part = append(part, p)
					}
				}
				builtins = []*probe{{id: 500, prio: 500, trig: nil, accept: true}} // the indented code block parser takes the line
			}
		case 'b':
			doc = "x@y\n"
		case 'c':
			doc = "x\n"
			builtins = []*probe{{id: 100, prio: 100}}
		case 'd':
			doc = "x\n"
		case 'e':
			doc = "---\n"
			builtins = []*probe{{id: 1000, prio: 1000, kinds: []int{0, 2}}} // 2 = the kinds only the built-in renders (Document, Paragraph, String)
			extra = append(extra, goldmark.WithParserOptions(parser.WithASTTransformers(util.Prioritized(customAppender{}, 999))))
		}
		md := buildWith(c.R, role, ps, extra...)
		out, errS, panicS := convertSafe(md, []byte(doc))
		obs := strings.Join(log, ",")
		if role == 'e' {
			// events: probe markers, H for the built-in <hr>, T for the child text of the custom node
			o := string(out)
			o = strings.ReplaceAll(o, "<hr>\n", "[H]")
			o = strings.ReplaceAll(o, "<p>t</p>\n", "[T]")
			obs = o
		} else if role == 'b' {
			obs += "|" + string(bytes.TrimSpace(out))
		}
		if errS != "" || panicS != "" {
			obs = "FAIL:" + errS + panicS
			c.Violate("dispatch-fails", map[string]string{"role": string(role), "components": descr(ps)}, errS+panicS, "dispatch-fails")
		}
		all := append(append([]*probe{}, part...), builtins...)
		// independent oracle: what "by priority value alone" predicts
		want := c20Oracle(role, all)
		if obs != want {
			c.Violate("priority-oracle", map[string]string{"role": string(role), "components": descr(ps), "document": q([]byte(doc))},
				fmt.Sprintf("observed %q, expected by priority %q", obs, want), "priority-oracle")
		}
		d := descr(all)
		c.Case("Prio", []string{string(role), d}, obs)
		c.Count("random-scenarios/"+string(role), string(role)+d, compete >= 2)
		if it < 10 {
			c.Sample(map[string]string{"role": string(role), "components": d, "observed": obs})
		}
	}
}

// direct statement of the property on a scenario
func c20Oracle(role byte, all []*probe) string {
	s := append([]*probe{}, all...)
	sort.SliceStable(s, func(i, j int) bool { return s[i].prio < s[j].prio })
	switch role {
	case 'a':
		var trig, free []*probe
		for _, p := range s {
			if p.trig == nil {
				free = append(free, p)
			} else {
				for _, t := range p.trig {
					if t == '@' {
						trig = append(trig, p)
					}
				}
			}
		}
		cands := free
		if len(trig) > 0 {
			cands = append(trig, free...)
		}
		var log []string
		for _, p := range cands {
			if p.id < 100 {
				log = append(log, itoa(p.id))
			}
			if p.accept {
				break
			}
		}
		return strings.Join(log, ",")
	case 'b':
		var log []string
		win := 0
		for _, p := range s {
			if len(p.trig) > 0 && p.trig[0] == '@' {
				log = append(log, itoa(p.id))
				if p.accept {
					win = p.id
					break
				}
			}
		}
		if win != 0 {
			return strings.Join(log, ",") + fmt.Sprintf("|<p>x{%d}y</p>", win)
		}
		return strings.Join(log, ",") + "|<p>x@y</p>"
	case 'c', 'd':
		var log []string
		for _, p := range s {
			if p.id < 100 || role == 'd' {
				if p.id != 100 {
					log = append(log, itoa(p.id))
				}
			}
		}
		return strings.Join(log, ",")
	default:
		find := func(kind int) *probe {
			for _, p := range s {
				for _, k := range p.kinds {
					if k == kind {
						return p
					}
				}
			}
			return nil
		}
		var o strings.Builder
		if p := find(0); p != nil {
			if p.id == 1000 {
				o.WriteString("[H]")
			} else {
				fmt.Fprintf(&o, "[%d+][%d-]", p.id, p.id)
			}
		}
		if p := find(1); p != nil {
			fmt.Fprintf(&o, "[%d+][T][%d-]", p.id, p.id)
		} else {
			o.WriteString("[T]")
		}
		return o.String()
	}
}
