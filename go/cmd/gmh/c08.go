package main

import (
	"bytes"
	"fmt"
	"strings"
	"sync"

	"github.com/yuin/goldmark/ast"
	"github.com/yuin/goldmark/parser"
	"github.com/yuin/goldmark/text"
	"github.com/yuin/goldmark/util"
)

func init() { runners["C08"] = runC08; runners["C09"] = runC09 }

func prefixLines(d []byte, pre string) []byte {
	lines := bytes.SplitAfter(d, []byte("\n"))
	var o []byte
	for _, l := range lines {
		if len(l) > 0 {
			o = append(o, pre...)
			o = append(o, l...)
		}
	}
	return o
}

func isBlankDoc(d []byte) bool { return len(bytes.TrimSpace(d)) == 0 }

// generic parallel law runner: f returns "" or a violation description for (cfg, doc)
func lawSweep(c *Ctx, cfgs []Cfg, items []docItem, kind string, eligible func(d []byte) bool, law func(m mdT, d []byte) (string, bool)) {
	lawSweepAll(c, cfgs, items, kind, eligible, func(m mdT, _ []mdT, d []byte) (string, bool) { return law(m, d) })
}

func lawSweepAll(c *Ctx, cfgs []Cfg, items []docItem, kind string, eligible func(d []byte) bool, law func(m mdT, all []mdT, d []byte) (string, bool)) {
	nw := 16
	built := make([][]mdT, nw)
	for w := 0; w < nw; w++ {
		for _, cf := range cfgs {
			built[w] = append(built[w], mdT{cf, cf.Build()})
		}
	}
	var mu sync.Mutex
	type viol struct {
		i      int
		cfg, d string
	}
	var viols []viol
	nt := make([]bool, len(items))
	used := make([]bool, len(items))
	parallelItems(items, func(w, i int, it docItem) {
		if !eligible(it.doc) {
			return
		}
		used[i] = true
		for _, m := range built[w%nw] {
			func() {
				defer func() { recover() }()
				d, nontrivial := law(m, built[w%nw], it.doc)
				if nontrivial {
					nt[i] = true
				}
				if d != "" {
					mu.Lock()
					viols = append(viols, viol{i, m.cf.Name(), d})
					mu.Unlock()
				}
			}()
		}
	})
	shown := 0
	knownShown := map[string]bool{}
	for _, v := range viols {
		if strings.HasPrefix(v.d, "KNOWN:") {
			// a violation classified as an instance of a recorded finding: reported once per class
			sig := strings.SplitN(strings.TrimPrefix(v.d, "KNOWN:"), " ", 2)[0]
			if !knownShown[sig] {
				knownShown[sig] = true
				c.Violate(kind, map[string]string{"config": v.cfg, "source": q(items[v.i].doc), "stream": items[v.i].stream}, v.d, sig)
			}
			continue
		}
		if shown < 8 {
			shown++
			c.Violate(kind, map[string]string{"config": v.cfg, "source": q(items[v.i].doc), "stream": items[v.i].stream}, v.d, kind)
		}
	}
	for i, it := range items {
		if !used[i] {
			continue
		}
		c.Count(it.stream, it.stream+string(it.doc), nt[i])
		if c.Rep.Evaluations%(len(items)/6+1) == 0 {
			c.Sample(map[string]string{"stream": it.stream, "source": q(it.doc)})
		}
	}
	c.Rep.Extra["configurations"] = len(cfgs)
	c.Rep.Extra["violating_cases"] = len(viols)
}

func runC08(c *Ctx) {
	c.Rep.Rule = "a case is (configuration, tab/CR-free non-blank document D, nesting depth n<=3); Convert(prefix^n D) must equal wrap^n(Convert D); for spec examples the expected side is spec.json's html; distinct by hash; non-trivial = D contains a container or a multi-line leaf block"
	cfgs := []Cfg{{Ext: "core"}, {Ext: "core", Unsafe: true}, {Ext: "core", XHTML: true}, {Ext: "core", Unsafe: true, XHTML: true}, {Ext: "gfm"}, {Ext: "gfm", Unsafe: true}, {Ext: "gfm", Unsafe: true, XHTML: true}}
	o := docOpts{exhaustiveLen: 0, corpus: true, random: 8000, mutants: 8000, blockLines: 3, randLines: 15000}
	if !c.Quick() {
		o = docOpts{corpus: true, random: 300000, randomTok: 16, mutants: 300000, blockLines: 3, randLines: 400000}
	}
	items := collectDocs(c, o, func(add func(string, []byte)) {
		enumStrings([]byte{'a', ' ', '\n', '`', '*', '[', ']', '>', '-', '#', '<', '|', '1', '.', '=', '~'}, 3, func(b []byte) { add("exhaustive16<=3", b) })
		nsd := 4000
		if !c.Quick() {
			nsd = 100000
		}
		specDocStream(c, nsd, add)
		for _, t := range []string{"[foo\nbar]\n\n[foo bar]: /url", "![foo\nbar][]\n\n[foo bar]: /url", "<!-- a\n-->\nokay", "<?php\n?>\nokay", "<!X\n>\nokay", "<![CDATA[\n]]>\nokay", "foo <a href=\"/bar\"\ntitle=\"baz\">link</a>", "- a\n\n- b", "- a\n-\n- b", "1. a\n\n   b", "```\na\n\n\nb\n```", "    code\n\n    more", "[a]: /u\n\n[a]", "a\n===", "|a|\n|-|\n|b|"} {
			add("targeted", []byte(t))
		}
	})
	if c.Quick() {
		parserModelCases(c, items, 8000)
	} else {
		parserModelCases(c, items, 80000)
	}
	// expected outputs from the specification for the spec examples (core, unsafe)
	specHTML := map[string]string{}
	for _, e := range loadSpec() {
		specHTML[e.Markdown] = e.HTML
	}
	nbq := 20000
	if !c.Quick() {
		nbq = 400000
	}
	bqCases(c, nbq)
	lawSweep(c, cfgs, items, "blockquote-law", func(d []byte) bool {
		return !bytes.ContainsAny(d, "\t\r") && !isBlankDoc(d)
	}, func(m mdT, d []byte) (string, bool) {
		inner, e1, p1 := convertSafe(m.md, d)
		if e1 != "" || p1 != "" {
			return "", false
		}
		if m.cf.Ext == "core" && m.cf.Unsafe && m.cf.XHTML {
			if exp, ok := specHTML[string(d)]; ok {
				inner = []byte(exp) // the specification's rendering, not goldmark's
			}
		}
		nontrivial := bytes.Count(d, []byte("\n")) >= 1 && bytes.ContainsAny(d, ">-*`#1")
		doc := d
		want := inner
		for n := 1; n <= 3; n++ {
			doc = prefixLines(doc, "> ")
			want = append(append([]byte("<blockquote>\n"), want...), "</blockquote>\n"...)
			got, e2, p2 := convertSafe(m.md, doc)
			if e2 != "" || p2 != "" {
				return "", nontrivial
			}
			if !bytes.Equal(got, want) {
				return fmt.Sprintf("depth %d: Convert(quoted) = %.300q, expected %.300q", n, got, want), nontrivial
			}
		}
		return "", nontrivial
	})
	deepQuoteLaw(c, cfgs)
}

// deepQuoteLaw: the law at nesting depths around every power of two (per-level bookkeeping kept
// in a machine word, a fixed array or a buffer that is compacted).  A base document is put k
// levels deep - in block quotes, in bullet lists, in both alternately - and the result D is
// quoted once more: Convert("> " D) = wrap(Convert D).  For pure quote nestings the inner side is
// also anchored at the base: Convert(quote^k B) = wrap^k(Convert B).
func deepQuoteLaw(c *Ctx, cfgs []Cfg) {
	bases := []string{"a", "- a\n\n  b", "- a\n- b", "- a\n\n- b", "1. a\n\n   b\n2. c", "```\nx\n\ny\n```", "a\n===", "- a\n  - b\n\n    c", "<div>\nx\n</div>", "|a|b|\n|-|-|\n|c|d|", "a\n\n    code\n\nb", "- [ ] t\n\n  u", "* * *\n\n- a\n\n\n  b"}
	depths := []int{7, 8, 9, 14, 15, 16, 17, 30, 31, 32, 33, 34, 61, 62, 63, 64, 65, 66, 100, 126, 127, 128, 129}
	if !c.Quick() {
		depths = append(depths, 200, 254, 255, 256, 257, 258, 300)
	}
	nest := func(b string, k int, mode int) []byte {
		d := []byte(b)
		for i := 0; i < k; i++ {
			q := mode == 0 || (mode == 2 && i%2 == 0)
			if q {
				d = prefixLines(d, "> ")
			} else {
				// one more bullet list level: the marker on the first line, two blanks on the others
				ls := bytes.Split(d, []byte("\n"))
				for j := range ls {
					if j == 0 {
						ls[j] = append([]byte("- "), ls[j]...)
					} else if len(ls[j]) > 0 {
						ls[j] = append([]byte("  "), ls[j]...)
					}
				}
				d = bytes.Join(ls, []byte("\n"))
			}
		}
		return d
	}
	built := make([]mdT, len(cfgs))
	for i, cf := range cfgs {
		built[i] = mdT{cf, cf.Build()}
	}
	for bi, b := range bases {
		for _, k := range depths {
			for mode := 0; mode < 3; mode++ {
				if mode != 0 && k > 130 {
					continue // list nesting costs two columns a level
				}
				d := nest(b, k, mode)
				m := built[(bi+k+mode)%len(built)]
				inner, e1, p1 := convertSafe(m.md, d)
				if e1 != "" || p1 != "" {
					continue // C01's business
				}
				in := map[string]interface{}{"config": m.cf.Name(), "base": q([]byte(b)), "depth": k, "nesting": []string{"block quotes", "bullet lists", "alternating"}[mode], "source": q(d)}
				if mode == 0 {
					base, e0, p0 := convertSafe(m.md, []byte(b))
					if e0 == "" && p0 == "" {
						want := base
						for i := 0; i < k; i++ {
							want = append(append([]byte("<blockquote>\n"), want...), "</blockquote>\n"...)
						}
						if !bytes.Equal(inner, want) {
							c.Violate("blockquote-law", in, fmt.Sprintf("Convert(quote^%d B) is not wrap^%d(Convert B): %s", k, k, firstDiff(inner, want)), "blockquote-law")
						}
					}
				}
				got, e2, p2 := convertSafe(m.md, prefixLines(d, "> "))
				if e2 != "" || p2 != "" {
					continue
				}
				want := append(append([]byte("<blockquote>\n"), inner...), "</blockquote>\n"...)
				if !bytes.Equal(got, want) {
					c.Violate("blockquote-law", in, fmt.Sprintf("depth %d: Convert(quoted) differs from the wrapped conversion: %s", k, firstDiff(got, want)), "blockquote-law")
				}
				c.Count("deep-nesting", fmt.Sprintf("%d/%d/%d", bi, k, mode), true)
			}
		}
	}
}

// ---- C09 ----

// does the document end inside an open fenced code block, indented code block or HTML block?
// decided by rendering "D + marker line": the marker must come out as its own paragraph.
const c09Marker = "zqzqmarker"

func runC09(c *Ctx) {
	c.Rep.Rule = "a case is (configuration, A, B) or (configuration, D, definition block); distinct by hash; non-trivial = A and B each contain a container or multi-line leaf block / D references a definition"
	cfgs := []Cfg{{Ext: "core"}, {Ext: "gfm"}, {Ext: "core", Unsafe: true}}
	o := docOpts{corpus: true, random: 3000, mutants: 3000, blockLines: 2, randLines: 6000}
	pairsPer := 3
	if !c.Quick() {
		o = docOpts{corpus: true, random: 100000, randomTok: 16, mutants: 100000, blockLines: 3, randLines: 200000}
		pairsPer = 6
	}
	items := collectDocs(c, o, func(add func(string, []byte)) {
		nsd := 3000
		if !c.Quick() {
			nsd = 100000
		}
		specDocStream(c, nsd, add)
		for _, t := range []string{"<pre>x</pre>", "<script>1</script>", "<style>p{}</style>", "<textarea>t</textarea>", "<!-- c -->", "<?x y?>", "<!A b>", "<![CDATA[x]]>", "<div>x</div>", "a\n<pre>x</pre>", "*\n", "- a\n-\n", "-\n  foo\n", "- a\n\n  b", "> a", "1. x\n2. y", "    code", "```\nopen", "<div>\nopen", "a\n===", "- [ ] t", "|a|\n|-|", "~~~\nx\n~~~", "* * *", "+\n", "1.\n", "-\n\n  x\n"} {
			add("targeted", []byte(t))
		}
	})
	if c.Quick() {
		parserModelCases(c, items, 8000)
	} else {
		parserModelCases(c, items, 80000)
	}
	var pool [][]byte
	for _, it := range items {
		if !bytes.ContainsAny(it.doc, "[\r") && !isBlankDoc(it.doc) {
			pool = append(pool, it.doc)
		}
	}
	nrefs := 5000
	if !c.Quick() {
		nrefs = 100000
	}
	refsCases(c, nrefs)
	// law 1: A / heading / B
	closedByConstruction := map[string]bool{}
	var pairs []docItem
	var pairA, pairB [][]byte
	tgt := 17
	for i, a := range pool {
		for k := 0; k < pairsPer; k++ {
			b := pool[c.R.Intn(len(pool))]
			if k == 0 && i < len(pool) {
				b = pool[(i*7+3)%len(pool)]
			}
			if k == 1 {
				b = items[len(items)-1-c.R.Intn(tgt)].doc // a targeted one
				if bytes.ContainsAny(b, "[\r") {
					continue
				}
			}
			pairs = append(pairs, docItem{"heading-separated-pairs", append(append(append([]byte{}, a...), 0xff), b...)})
			pairA = append(pairA, a)
			pairB = append(pairB, b)
		}
	}
	// pairs within one feature family: per-document state that outlives a block (the table
	// extension's cell lists, id tables) only shows when both halves use the same feature
	{
		var hotCtx, hotCont []string
		for _, cx := range matrixContexts {
			if !strings.ContainsAny(cx, "[\r\t") && (strings.Contains(cx, "|") || strings.Contains(cx, "\n: ") || strings.Contains(cx, "#") || strings.Contains(cx, "`") || strings.Contains(cx, "<div>")) {
				hotCtx = append(hotCtx, cx)
			}
		}
		for _, ct := range matrixContents {
			if !strings.ContainsAny(ct, "[\r\t") && strings.ContainsAny(ct, "|`\\<&*~#:-") {
				hotCont = append(hotCont, ct)
			}
		}
		nFam := 6000
		if !c.Quick() {
			nFam = 120000
		}
		fill := func() []byte {
			return []byte(strings.ReplaceAll(c.R.PickS(hotCtx), "%s", c.R.PickS(hotCont)))
		}
		for i := 0; i < nFam; i++ {
			a, b := fill(), fill()
			pairs = append(pairs, docItem{"same-family-pairs", append(append(append([]byte{}, a...), 0xff), b...)})
		}
	}
	// a paragraph with an unclosed opener of every inline construct before a block with the
	// complete construct of every kind: inline state must not outlive a block
	{
		openers := []string{"zq <!-- b", "zq <? b", "zq <![CDATA[ b", "zq <!X b", "zq <a href=\"x", "zq ` b", "zq `` b", "zq *b", "zq __b", "zq \\", "zq &amp", "zq <b", "zq ~~b", "zq www.", "zq \"b", "zq 'b"}
		closed := []string{"x <!-- c --> y", "x <?p?> y", "x <![CDATA[d]]> y", "x <!D e> y", "x <a href=\"u\">k</a> y", "x `c` y", "x ``c`` y", "x *e* y", "x __s__ y", "x \\* y", "x &amp; y", "x <b>r</b> y", "x ~~d~~ y", "x www.a.b y", "x \"q\" y", "it's y"}
		for _, a := range openers {
			for _, b := range closed {
				pairs = append(pairs, docItem{"stray-opener-pairs", append(append(append([]byte{}, a+"\n"...), 0xff), b+"\n"...)})
				pairs = append(pairs, docItem{"stray-opener-pairs", append(append(append([]byte{}, "- "+a+"\n"...), 0xff), "> "+b+"\n"...)})
			}
		}
	}
	// reader state at the end of A against column-sensitive starts of B: A ends with a line on
	// which a container marker is followed by a tab (virtual padding left in the reader) and a leaf
	// that never advances the reader itself (ATX heading, Setext underline, fence, thematic break,
	// blank rest); B begins with 0-4 columns of indentation before every kind of block start
	{
		tails := []string{">\t# x", "> t\n>\t===", ">\t```\n>\t```", "-\t# x", "1.\t## y", ">\t***", "> a\n>\t", "-\tt\n\t===", ">\t> # z", "> >\t# z", "-\t-\t# w", ">\t#", ">  \t# x", "> \t# x", "*\t```\n\t```",
			"> # x", "- # x", "# x", "t\n===", "```\nc\n```"}
		starts := []string{"para", "- item", "> quote", "# h", "```\nf\n```", "1. o", "***", "<div>\nb\n</div>", "|a|\n|-|\n|b|", "t\n---", "    code", "+ p\n\n  q"}
		for _, a := range tails {
			closedByConstruction[a+"\n"] = true
			for _, b := range starts {
				for ind := 0; ind <= 4; ind++ {
					bb := strings.Repeat(" ", ind) + strings.ReplaceAll(b, "\n", "\n"+strings.Repeat(" ", ind))
					pairs = append(pairs, docItem{"padding-tail-pairs", append(append(append([]byte{}, a+"\n"...), 0xff), bb+"\n"...)})
				}
			}
		}
	}
	// long closed prefixes: every filler length around 64..260 (quick) before a tail with loose
	// lists and other per-line state
	for _, fl := range longFillers {
		if strings.ContainsAny(fl, "[") {
			continue
		}
		lo, hi := 100, 140
		if !c.Quick() {
			lo, hi = 1, 1100
		}
		for n := lo; n <= hi; n++ {
			a := []byte(strings.Repeat(fl, n))
			for ti, t := range longTails {
				if strings.ContainsAny(t, "[") || (!c.Quick() && n > 300 && ti != n%len(longTails)) {
					continue
				}
				pairs = append(pairs, docItem{"long-prefix-pairs", append(append(append([]byte{}, a...), 0xff), []byte(t)...)})
			}
		}
	}
	lawSweep(c, cfgs, pairs, "independence-law", func(d []byte) bool { return true }, func(m mdT, d []byte) (string, bool) {
		i := bytes.IndexByte(d, 0xff)
		a, b := d[:i], d[i+1:]
		// eligibility is decided on the source text (a line scan that knows fences and the HTML
		// kinds a blank line does not close), never by asking the implementation
		// (documents with tabs are left out because the scan does not follow tab stops, except the
		// constructed tails, which end with a heading, a thematic break or a closed fence)
		if !closedByConstruction[string(a)] && (endsOpen(string(a)) || bytes.ContainsAny(a, "\t")) {
			return "", false
		}
		if !bytes.HasSuffix(a, []byte("\n")) {
			a = append(append([]byte{}, a...), '\n') // a raw HTML line is rendered with or without its newline as written
		}
		ra, _, _ := convertSafe(m.md, a)
		rb, _, _ := convertSafe(m.md, b)
		doc := append(append(append([]byte{}, a...), []byte("\n# h\n\n")...), b...)
		got, e, p := convertSafe(m.md, doc)
		if e != "" || p != "" {
			return "", false
		}
		want := append(append(append([]byte{}, ra...), []byte("<h1>h</h1>\n")...), rb...)
		nontrivial := bytes.Count(a, []byte("\n")) >= 1 && bytes.Count(b, []byte("\n")) >= 1
		if !bytes.Equal(got, want) {
			return fmt.Sprintf("A=%.120q B=%.120q: whole %.300q, parts %.300q", a, b, got, want), nontrivial
		}
		return "", nontrivial
	})
	// law 2: definitions on top vs at the end
	labels := []string{"foo", "Foo Bar", "ΑΓΩ", "a*b", "x y  z", "delta", "Epsilon", "ẞ"}
	var defDocs []docItem
	nDef := 4000
	if !c.Quick() {
		nDef = 100000
	}
	for i := 0; i < nDef; i++ {
		var defs, body bytes.Buffer
		nl := 1 + c.R.Intn(3)
		for k := 0; k < nl; k++ {
			l := labels[c.R.Intn(len(labels))]
			title := []string{"", " \"t\"", " 't'", " (t)", "\n  \"t2\"", " (a \\(b\\) c)"}[c.R.Intn(6)]
			dest := []string{"/u", "<a b>", "/p?q=1", "http://x.y/"}[c.R.Intn(4)]
			fmt.Fprintf(&defs, "[%s]: %s%s\n", l, dest, title)
			variant := string(caseVariant(c.R, []byte(l)))
			switch c.R.Intn(5) {
			case 0:
				fmt.Fprintf(&body, "see [%s] now\n\n", variant)
			case 1:
				fmt.Fprintf(&body, "- [text][%s]\n", variant)
			case 2:
				fmt.Fprintf(&body, "> ![img][%s]\n\n", variant)
			case 3:
				fmt.Fprintf(&body, "[%s][] and *[%s]*\n\n", variant, variant)
			default:
				fmt.Fprintf(&body, "# [%s]\n\n", variant)
			}
		}
		if c.R.Intn(3) == 0 {
			body.Write(pool[c.R.Intn(len(pool))])
			body.WriteString("\n")
		}
		defDocs = append(defDocs, docItem{"definition-blocks", append(append(append([]byte{}, defs.Bytes()...), 0xff), body.Bytes()...)})
	}
	lawSweep(c, cfgs, defDocs, "definition-position-law", func(d []byte) bool { return true }, func(m mdT, d []byte) (string, bool) {
		i := bytes.IndexByte(d, 0xff)
		defs, body := d[:i], d[i+1:]
		if endsOpen(string(body)) {
			return "", false
		}
		// the moved block consists of link reference definitions only, by construction (the
		// generator uses spellings the specification accepts); they must render to nothing
		if alone, _, _ := convertSafe(m.md, defs); len(alone) != 0 {
			return fmt.Sprintf("a block of valid link reference definitions %.150q renders to %.200q instead of nothing", defs, alone), true
		}
		top := append(append(append([]byte{}, defs...), '\n'), body...)
		end := append(append(append([]byte{}, body...), []byte("\n\n")...), defs...)
		o1, e1, p1 := convertSafe(m.md, top)
		o2, e2, p2 := convertSafe(m.md, end)
		if e1+p1+e2+p2 != "" {
			return "", false
		}
		if !bytes.Equal(o1, o2) {
			return fmt.Sprintf("definitions %.150q body %.150q: on top %.300q, at the end %.300q", defs, body, o1, o2), true
		}
		return "", true
	})
}

// correspondence of the block-quote marker code through the public BlockParser API
func bqCases(c *Ctx, n int) {
	alpha := []byte{' ', ' ', '\t', '>', '>', 'a', '\n', '-'}
	bq := parser.NewBlockquoteParser()
	for i := 0; i < n; i++ {
		src := randBytes(c.R, alpha, 9)
		if len(src) == 0 {
			continue
		}
		nl := c.R.Intn(2)
		r := text.NewReader(src)
		for k := 0; k < nl; k++ {
			r.AdvanceLine()
		}
		res := ""
		func() {
			defer func() {
				if x := recover(); x != nil {
					res = "PANIC"
				}
			}()
			if line, _ := r.PeekLine(); line == nil {
				res = "skip"
				return
			}
			node, _ := bq.Open(ast.NewDocument(), r, parser.NewContext())
			l, p := r.Position()
			res = fmt.Sprintf("%s@%d,%s", btoa(node != nil), l, segStr(p))
		}()
		if res == "skip" {
			continue
		}
		c.Case("BqProcess", []string{hx(src), itoa(nl)}, res)
	}
}

// correspondence of the reference map through the public parser.Context API
func refsCases(c *Ctx, n int) {
	labels := []string{"foo", "Foo", "FOO", " foo ", "foo  bar", "Foo\tBar", "foo\nbar", "ΑΓΩ", "αγω", "ẞ", "ss", "SS", "a*b", "", " ", "µ", "Μ", "x"}
	for i := 0; i < n; i++ {
		pc := parser.NewContext()
		var prog, obs []string
		for k := 1 + c.R.Intn(10); k > 0; k-- {
			l := []byte(c.R.PickS(labels))
			if c.R.Intn(3) > 0 {
				d := []byte(fmt.Sprintf("/d%d", c.R.Intn(50)))
				pc.AddReference(parser.NewReference(l, d, nil))
				prog = append(prog, "a"+hx(l)+":"+hx(d))
			} else {
				r, ok := pc.Reference(util.ToLinkReference(l))
				prog = append(prog, "q"+hx(l))
				if ok {
					obs = append(obs, "h"+hx(r.Destination()))
				} else {
					obs = append(obs, "n")
				}
			}
		}
		c.Case("RefsProg", []string{strings.Join(prog, " ")}, strings.Join(obs, "|"))
	}
}
