package main

import (
	"bytes"
	"fmt"
	"regexp"
	"sort"
	"strings"
	"sync"

	"github.com/yuin/goldmark/ast"
	"github.com/yuin/goldmark/renderer/html"
	"github.com/yuin/goldmark/text"
)

func init() { runners["C10"] = runC10; runners["C11"] = runC11 }

var treeMu sync.Mutex
var treeCases [][2]interface{}

var voidOpen = regexp.MustCompile(`<(hr|br|img|input)\b[^<>]*>`)
var voidXhtml = regexp.MustCompile(`<(hr|br|img|input)\b([^<>]*?) />`)

// the three rewrite relations of C10, each checked on the implementation's outputs
func xhtmlRel(base, x []byte) string {
	// turning every void element's " />" into ">" must give the HTML5 output
	back := voidXhtml.ReplaceAll(x, []byte("<$1$2>"))
	if !bytes.Equal(back, base) {
		return fmt.Sprintf("XHTML output differs beyond ' />' on void elements: %.200q vs %.200q", x, base)
	}
	// and every void element must have been rewritten (safe-mode outputs only reach this
	// function: every tag in them was written by a renderer, attribute values have '>' escaped)
	if m := voidOpen.FindAll(x, -1); len(m) > 0 {
		for _, t := range m {
			if !bytes.HasSuffix(t, []byte(" />")) {
				return fmt.Sprintf("XHTML output has a void element that is not closed with ' />': %.80q in %.200q", t, x)
			}
		}
	}
	return ""
}

func hardWrapRel(base, hw []byte, xhtml bool) string {
	br := "<br>\n"
	if xhtml {
		br = "<br />\n"
	}
	// deleting the <br> before newlines from both sides must make them equal; hard-wrapped has at least as many
	nb := bytes.ReplaceAll(base, []byte(br), []byte("\n"))
	nh := bytes.ReplaceAll(hw, []byte(br), []byte("\n"))
	if !bytes.Equal(nb, nh) {
		return fmt.Sprintf("HardWraps output differs beyond <br> before line ends: %.200q vs %.200q", hw, base)
	}
	if bytes.Count(hw, []byte(br)) < bytes.Count(base, []byte(br)) {
		return "HardWraps output has fewer <br> than the plain one"
	}
	return ""
}

func hasRawOrDangerous(doc ast.Node) bool {
	found := false
	_ = ast.Walk(doc, func(n ast.Node, entering bool) (ast.WalkStatus, error) {
		if !entering {
			return ast.WalkContinue, nil
		}
		switch v := n.(type) {
		case *ast.RawHTML, *ast.HTMLBlock:
			found = true
		case *ast.Link:
			if html.IsDangerousURL(v.Destination) || true {
				// decided on the output below; any link may differ only in href
			}
		}
		return ast.WalkContinue, nil
	})
	return found
}

// safe output with holes (placeholder comments, empty href/src) must embed into the unsafe output
func unsafeRel(safe, unsafe []byte) string {
	if bytes.Equal(safe, unsafe) {
		return ""
	}
	holes := regexp.MustCompile(`<!-- raw HTML omitted -->\n?|href=""|src=""`)
	parts := holes.Split(string(safe), -1)
	var re strings.Builder
	re.WriteString("(?s)^")
	found := holes.FindAllString(string(safe), -1)
	for i, p := range parts {
		re.WriteString(regexp.QuoteMeta(p))
		if i < len(found) {
			switch {
			case strings.HasPrefix(found[i], "href"):
				re.WriteString(`href="[^"]*"`)
			case strings.HasPrefix(found[i], "src"):
				re.WriteString(`src="[^"]*"`)
			default:
				re.WriteString(`.*?`)
			}
		}
	}
	re.WriteString("$")
	r, err := regexp.Compile(re.String())
	if err != nil {
		return ""
	}
	// the safe side never carries a URL a browser would run; the unsafe side has the destination
	// of the source wherever the safe side has a blank
	if toks, _ := scanHTML(safe); true {
		for _, t := range toks {
			if t.kind != 's' {
				continue
			}
			for _, an := range []string{"href", "src"} {
				if v, ok := t.attr(an); ok && dangerousURL(v) {
					return fmt.Sprintf("safe output carries the dangerous URL %q: %.250q (unsafe: %.250q)", v, safe, unsafe)
				}
			}
		}
	}
	if !bytes.Contains(safe, []byte("<!-- raw HTML omitted -->")) && bytes.Count(unsafe, []byte(`href=""`))+bytes.Count(unsafe, []byte(`src=""`)) > bytes.Count(safe, []byte(`href=""`))+bytes.Count(safe, []byte(`src=""`)) {
		return fmt.Sprintf("the unsafe output has more blank destinations than the safe one: safe %.250q unsafe %.250q", safe, unsafe)
	}
	if !r.Match(unsafe) {
		return fmt.Sprintf("Unsafe output differs outside raw-HTML placeholders and blanked URLs: safe %.250q unsafe %.250q", safe, unsafe)
	}
	return ""
}

func runC10(c *Ctx) {
	c.Rep.Rule = "a case is (extension set, document); the 8 combinations of XHTML/HardWraps/Unsafe are rendered and the three rewrite relations checked; distinct by hash; non-trivial = the outputs differ under some option or the tree has a void element, soft break or raw HTML"
	var cfgs []Cfg
	for _, e := range []string{"core", "gfm", "deflist", "footnote", "typo", "gfm+footnote", "gfm+task", "gfm+strike", "gfm+table", "gfm+linkify", "gfm+gfm4", "footnote+footnote"} {
		for k := 0; k < 8; k++ {
			// table alignment pinned to the style method
			cfgs = append(cfgs, Cfg{Ext: e, TableAlign: 2, Unsafe: k&1 != 0, XHTML: k&2 != 0, HardWraps: k&4 != 0})
		}
	}
	// extensions built with their own options: the renderer switches must reach them too
	for _, e := range []string{"footnote", "typo", "gfm"} {
		for k := 0; k < 8; k++ {
			cfgs = append(cfgs, Cfg{Ext: e, Opts: true, TableAlign: 2, Unsafe: k&1 != 0, XHTML: k&2 != 0, HardWraps: k&4 != 0})
		}
	}
	o := docOpts{exhaustiveLen: 2, corpus: true, random: 5000, mutants: 5000, randLines: 5000}
	if !c.Quick() {
		o = docOpts{exhaustiveLen: 3, corpus: true, random: 200000, randomTok: 16, mutants: 200000, randLines: 200000}
	}
	items := collectDocs(c, o, func(add func(string, []byte)) {
		for _, t := range []string{"*a*\nb", "`c`\nd", "[l](/u)\nx", "<http://a.b>\ny", "a\nb\nc", "a  \nb", "a\\\nb", "![i](/s \"t\")\nz", "---", "- [ ] t\n- [x] u", "<b>raw</b>\nx", "<div>\nblock\n</div>", "[x](javascript:alert(1) \"the title\")", "![x](javascript:a \"t\"){width=1}", "<javascript:a>",
			"[x](data:text/html,a 't')", "[r]: vbscript:x \"T\"\n\n[r] ![r]", "|a|b|\n|:-|-:|\n|c|d|", "[^1] t\n\n[^1]: n\nm", "t\n: d\ne", "~~s~~\nt", "# h\nx", "> q\nr", "1. a\n   b"} {
			add("targeted", []byte(t))
		}
		// destinations and titles whose escapes are themselves escaped (one round of resolution
		// must be all there is, with and without Unsafe), and the URL spellings of C04
		for _, t := range []string{"[a](/u?x=&amp;lt;)", "[a](/u?x=&amp;amp;)", "![i](/p\\\\*q)", "[r]: /u&#38;#42;\n\n[r]", "[a](/u \"&amp;quot;\")", "<http://a.b/?x=&amp;lt;>", "[a](/%2541)", "[a](/&#37;41)", "[a](</u v> \"t\")"} {
			add("targeted", []byte(t))
		}
		for _, t := range c04Targeted(c.R, 1500) {
			add("url-spellings", []byte(t))
		}
	})
	if c.Quick() {
		parserModelCases(c, items, 6000)
		gfmModelCases(c, items, 1500)
		otherModelCases(c, items, 400)
	} else {
		parserModelCases(c, items, 60000)
		gfmModelCases(c, items, 20000)
		otherModelCases(c, items, 20000)
	}
	type rend struct{ unsafe, xhtml, hw bool }
	lawSweepAll(c, cfgs, items, "option-orthogonality", func(d []byte) bool { return true }, func(m mdT, all []mdT, d []byte) (string, bool) {
		if m.cf.Unsafe || m.cf.XHTML || m.cf.HardWraps {
			return "", false // the base variant drives the comparison of its 8 siblings
		}
		outs := map[rend][]byte{}
		// the sets that register an extension twice are there for the relation oracle only, and
		// on the documents that use the doubled extension
		dup := strings.Count(m.cf.Ext, "+") == 1 && m.cf.Ext != "gfm+footnote"
		if dup {
			has := func(subs ...string) bool {
				for _, x := range subs {
					if bytes.Contains(d, []byte(x)) {
						return true
					}
				}
				return false
			}
			use := false
			switch m.cf.Ext {
			case "gfm+task":
				use = has("[ ]", "[x]", "[X]")
			case "gfm+strike":
				use = has("~")
			case "gfm+table":
				use = has("|")
			case "gfm+linkify":
				use = has("http", "www", "@", "ftp")
			case "gfm+gfm4":
				use = has("[ ]", "[x]", "~~", "|-", "http")
			case "footnote+footnote":
				use = has("[^")
			}
			if !use || len(d) > 200 {
				return "", false
			}
		}
		doTree := !dup && (len(d)%7 == 0 || len(d) < 12 || bytes.Contains(d, []byte("|")) || bytes.Contains(d, []byte("[^")))
		for _, s := range all {
			if s.cf.Ext != m.cf.Ext || s.cf.Opts != m.cf.Opts {
				continue
			}
			if doTree {
				if args, res, ok := treeCase(s.md, s.cf, d); ok {
					treeMu.Lock()
					treeCases = append(treeCases, [2]interface{}{args, res})
					treeMu.Unlock()
				}
			}
			o, e, p := convertSafe(s.md, d)
			if e != "" || p != "" {
				return "", false
			}
			outs[rend{s.cf.Unsafe, s.cf.XHTML, s.cf.HardWraps}] = o
		}
		nontrivial := false
		soft := countSoftBreaks(m, d)
		for _, u := range []bool{false, true} {
			for _, h := range []bool{false, true} {
				if !bytes.Equal(outs[rend{u, false, h}], outs[rend{u, true, h}]) {
					nontrivial = true
				}
				if !u { // raw HTML may itself contain " />"
					if r := xhtmlRel(outs[rend{u, false, h}], outs[rend{u, true, h}]); r != "" {
						return r, true
					}
				} else {
					a := voidXhtml.ReplaceAll(outs[rend{u, true, h}], []byte("<$1$2>"))
					b := voidXhtml.ReplaceAll(outs[rend{u, false, h}], []byte("<$1$2>"))
					if !bytes.Equal(a, b) {
						return fmt.Sprintf("XHTML (unsafe) differs beyond ' />': %.200q vs %.200q", outs[rend{u, true, h}], outs[rend{u, false, h}]), true
					}
				}
			}
			for _, x := range []bool{false, true} {
				if !bytes.Equal(outs[rend{u, x, false}], outs[rend{u, x, true}]) {
					nontrivial = true
				}
				if r := hardWrapRel(outs[rend{u, x, false}], outs[rend{u, x, true}], x); r != "" {
					return r, true
				}
				// each soft line break of the tree must have received its <br>
				br := []byte("<br>\n")
				if x {
					br = []byte("<br />\n")
				}
				if soft >= 0 && bytes.Count(outs[rend{u, x, true}], br) != bytes.Count(outs[rend{u, x, false}], br)+soft {
					return fmt.Sprintf("HardWraps: the tree has %d soft line breaks but the number of <br> grows from %d to %d: %.200q", soft,
						bytes.Count(outs[rend{u, x, false}], br), bytes.Count(outs[rend{u, x, true}], br), outs[rend{u, x, true}]), true
				}
			}
		}
		for _, x := range []bool{false, true} {
			for _, h := range []bool{false, true} {
				if !bytes.Equal(outs[rend{false, x, h}], outs[rend{true, x, h}]) {
					nontrivial = true
				}
				if r := unsafeRel(outs[rend{false, x, h}], outs[rend{true, x, h}]); r != "" {
					return r, true
				}
			}
		}
		return "", nontrivial
	})
	sort.Slice(treeCases, func(i, j int) bool {
		return strings.Join(treeCases[i][0].([]string), "\t") < strings.Join(treeCases[j][0].([]string), "\t")
	})
	for _, tc := range treeCases {
		c.Case("RenderTree", tc[0].([]string), tc[1].(string))
	}
	c.Rep.Extra["tree_cases"] = len(treeCases)
}

// soft line breaks that the renderer turns into a newline (outside image alt text)
func countSoftBreaks(m mdT, d []byte) (n int) {
	defer func() {
		if r := recover(); r != nil {
			n = -1
		}
	}()
	doc := m.md.Parser().Parse(text.NewReader(d))
	var walk func(nd ast.Node)
	walk = func(nd ast.Node) {
		if _, ok := nd.(*ast.Image); ok {
			return
		}
		if t, ok := nd.(*ast.Text); ok && t.SoftLineBreak() && !t.HardLineBreak() && !t.IsRaw() {
			n++
		}
		for c := nd.FirstChild(); c != nil; c = c.NextSibling() {
			walk(c)
		}
	}
	walk(doc)
	return n
}
