package main

// Correspondence cases for the leaf block parsers and the list-item arithmetic
// (coq/model/ListItem.v, coq/model/LeafBlocks.v), driven through the public parser API.

import (
	"fmt"
	"strings"

	"github.com/yuin/goldmark/ast"
	"github.com/yuin/goldmark/parser"
	"github.com/yuin/goldmark/text"
)

// positions a reader inside src: advance adv bytes, then optionally set a padding
func readerAt(src []byte, adv, pad int) text.Reader {
	r := text.NewReader(src)
	if pad > 0 {
		r.AdvanceAndSetPadding(adv, pad)
	} else if adv > 0 {
		r.Advance(adv)
	}
	return r
}

var gapSpellings = []string{"", " ", "  ", "   ", "    ", "     ", "\t", " \t", "  \t", "\t ", "\t\t", " \t\t", "\t  ", "      ", "   \t", "\t   "}
var markerSpellings = []string{"-", "+", "*", "1.", "1)", "12.", "007)", "123456789.", "1234567890.", "-1.", "a.", "1", "--", "**"}
var blockLinePrefixes = []string{"", "> ", ">", ">\t", "  ", "\t", " \t", ">> ", "- ", "1.\t", "abc", "\t\t "}
var contentSpellings = []string{"", "\n", "a", "a\n", "a b  \n", "  \n", "- x\n", "```\n", "\ta\n", "# h\n"}

func listItemCases(c *Ctx, n int) {
	lp := parser.NewListItemParser()
	one := func(prefix, line string, pad, last int) {
		src := []byte(prefix + line)
		res := ""
		func() {
			defer func() {
				if x := recover(); x != nil {
					res = "PANIC"
				}
			}()
			r := readerAt(src, len(prefix), pad)
			list := ast.NewList('-')
			lastOff := 0
			if last >= 0 {
				list.AppendChild(list, ast.NewListItem(last))
				lastOff = last
			}
			_ = lastOff
			node, st := lp.Open(list, r, parser.NewContext())
			if node == nil {
				res = "nil"
				return
			}
			l, p := r.Position()
			res = fmt.Sprintf("%d:%s@%d,%s", node.(*ast.ListItem).Offset, btoa(st&parser.HasChildren != 0), l, segStr(p))
		}()
		lo := last
		if lo < 0 {
			lo = 0
		}
		c.Case("ListItemOpen", []string{hx(src), "0", itoa(len(prefix)), itoa(pad), itoa(lo)}, res)
	}
	// systematic: every prefix x indentation x marker x gap x a few contents
	for _, pf := range blockLinePrefixes {
		for ind := 0; ind <= 4; ind++ {
			for _, mk := range markerSpellings {
				for _, gap := range gapSpellings {
					ct := contentSpellings[(len(pf)+ind+len(mk)+len(gap))%len(contentSpellings)]
					one(pf, strings.Repeat(" ", ind)+mk+gap+ct, 0, -1)
				}
			}
		}
	}
	for i := 0; i < n; i++ {
		pf := c.R.PickS(blockLinePrefixes)
		line := strings.Repeat(" ", c.R.Intn(5)) + c.R.PickS(markerSpellings) + c.R.PickS(gapSpellings) + c.R.PickS(contentSpellings)
		pad := 0
		if strings.HasSuffix(pf, "\t") && c.R.Intn(2) == 0 {
			pad = 1 + c.R.Intn(3)
		}
		last := -1
		if c.R.Intn(3) == 0 {
			last = c.R.Intn(7)
		}
		one(pf, line, pad, last)
	}
}

var hrSpellings = []string{"***", "---", "___", "* * *", "-----", "_ _ _ _", "- -  -", "**", "--", "*-*", "***a", "* * * *\t", " *\t*\t*", "===", "+++", "-\t-\t-", "_____________", "*** ", "\x00**"}

func leafBlockCases(c *Ctx, n int) {
	tb := parser.NewThematicBreakParser()
	atx := parser.NewATXHeadingParser()
	fc := parser.NewFencedCodeBlockParser()
	// thematic breaks
	oneTB := func(prefix, line string, pad int) {
		src := []byte(prefix + line)
		res := ""
		func() {
			defer func() {
				if x := recover(); x != nil {
					res = "PANIC"
				}
			}()
			r := readerAt(src, len(prefix), pad)
			node, _ := tb.Open(ast.NewDocument(), r, parser.NewContext())
			res = btoa(node != nil)
		}()
		c.Case("ThematicBreak", []string{hx(src), "0", itoa(len(prefix)), itoa(pad)}, res)
	}
	for _, pf := range blockLinePrefixes {
		for ind := 0; ind <= 4; ind++ {
			for _, h := range hrSpellings {
				for _, tail := range []string{"", "\n", "  \n", "\t\n", " x\n"} {
					oneTB(pf, strings.Repeat(" ", ind)+h+tail, 0)
				}
			}
		}
		oneTB(pf, "\t***\n", 0)
		oneTB(pf, " \t***\n", 0)
	}
	// ATX headings and fence openings need the block offset the driver computes: the index of
	// the first non-blank byte of the peeked line when its indentation is below four columns
	blockOffset := func(r text.Reader) (int, bool) {
		line, _ := r.PeekLine()
		w, pos := 0, 0
		off := r.LineOffset()
		for pos < len(line) {
			if line[pos] == ' ' {
				w++
			} else if line[pos] == '\t' {
				w += 4 - (off+w)%4
			} else {
				break
			}
			pos++
		}
		if w > 3 || pos >= len(line) {
			return -1, false
		}
		return pos, true
	}
	relSeg := func(line text.Segment, s text.Segment) string {
		return fmt.Sprintf("%d,%d", s.Start-line.Start+line.Padding, s.Stop-line.Start+line.Padding)
	}
	atxTexts := []string{"a", "a b", "a #", "a \\#", "a#", "# a", "a ##", "a ## b", "", "#", "\\# a", "a  ", "*a* `#`", "a\t#\t"}
	oneATX := func(prefix, line string) {
		src := []byte(prefix + line)
		res := ""
		pos := 0
		func() {
			defer func() {
				if x := recover(); x != nil {
					res = "PANIC"
				}
			}()
			r := readerAt(src, len(prefix), 0)
			bo, ok := blockOffset(r)
			if !ok {
				res = "skip"
				return
			}
			pos = bo
			pc := parser.NewContext()
			pc.SetBlockOffset(bo)
			_, lseg := r.PeekLine()
			node, _ := atx.Open(ast.NewDocument(), r, pc)
			if node == nil {
				res = "nil"
				return
			}
			h := node.(*ast.Heading)
			if h.Lines().Len() == 0 {
				res = fmt.Sprintf("%d:-", h.Level)
			} else {
				res = fmt.Sprintf("%d:%s", h.Level, relSeg(lseg, h.Lines().At(0)))
			}
		}()
		if res != "skip" {
			c.Case("AtxOpen", []string{hx(src), "0", itoa(len(prefix)), "0", itoa(pos)}, res)
		}
	}
	for _, pf := range []string{"", "> ", ">", "- ", "  "} {
		for ind := 0; ind <= 3; ind++ {
			for lv := 1; lv <= 7; lv++ {
				for _, t := range atxTexts {
					for _, sep := range []string{" ", "", "\t", "  "} {
						for _, cl := range []string{"", " #", " ##", " ####### ", "#", " # #", "\t##\t"} {
							for _, nl := range []string{"\n", ""} {
								if (lv+len(t)+len(sep)+len(cl)+ind)%3 != 0 && len(pf) > 0 {
									continue
								}
								oneATX(pf, strings.Repeat(" ", ind)+strings.Repeat("#", lv)+sep+t+cl+nl)
							}
						}
					}
				}
			}
		}
	}
	// fence openings
	infos := []string{"", "go", " go ", "go extra", "a`b", "~x", "\t", " ", "go\t"}
	oneFO := func(prefix, line string) {
		src := []byte(prefix + line)
		res := ""
		pos := 0
		func() {
			defer func() {
				if x := recover(); x != nil {
					res = "PANIC"
				}
			}()
			r := readerAt(src, len(prefix), 0)
			bo, ok := blockOffset(r)
			if !ok {
				res = "skip"
				return
			}
			pos = bo
			pc := parser.NewContext()
			pc.SetBlockOffset(bo)
			_, lseg := r.PeekLine()
			node, _ := fc.Open(ast.NewDocument(), r, pc)
			if node == nil {
				res = "nil"
				return
			}
			f := node.(*ast.FencedCodeBlock)
			if f.Info == nil {
				res = "open:-"
			} else {
				res = "open:" + relSeg(lseg, f.Info.Segment)
			}
		}()
		if res != "skip" {
			c.Case("FenceOpen", []string{hx(src), "0", itoa(len(prefix)), "0", itoa(pos)}, res)
		}
	}
	for _, pf := range []string{"", "> ", ">", "- ", "\t"} {
		for ind := 0; ind <= 3; ind++ {
			for _, ch := range []string{"`", "~", "*"} {
				for fl := 1; fl <= 6; fl++ {
					for _, info := range infos {
						for _, nl := range []string{"\n", ""} {
							oneFO(pf, strings.Repeat(" ", ind)+strings.Repeat(ch, fl)+info+nl)
						}
					}
				}
			}
		}
	}
	// fence continuation: open a fence with the real parser, then feed one more line
	contLines := []string{"```", "````", "``", "~~~", "~~~~~", "   ```", "    ```", "\t```", "``` ", "```\t", "``` x", "a", "  a", "    a", "\ta", " \ta", "", "  ", "\t\t", "```a", "~~~ ~"}
	for _, pf := range []string{"", "> ", ">", "  ", "\t"} {
		for ind := 0; ind <= 3; ind++ {
			for _, open := range []string{"```", "````", "~~~", "~~~~"} {
				for _, cl := range contLines {
					for _, nl := range []string{"\n", ""} {
						for pad := 0; pad <= 2; pad++ {
							if pad > 0 && !strings.HasSuffix(pf, "\t") {
								continue
							}
							first := pf + strings.Repeat(" ", ind) + open + "\n"
							src := []byte(first + pf + cl + nl)
							res := ""
							func() {
								defer func() {
									if x := recover(); x != nil {
										res = "PANIC"
									}
								}()
								r := readerAt(src, len(pf), 0)
								bo, ok := blockOffset(r)
								if !ok {
									res = "skip"
									return
								}
								pc := parser.NewContext()
								pc.SetBlockOffset(bo)
								node, _ := fc.Open(ast.NewDocument(), r, pc)
								if node == nil {
									res = "skip"
									return
								}
								r.AdvanceLine()
								if pad > 0 {
									r.AdvanceAndSetPadding(len(pf), pad)
								} else {
									r.Advance(len(pf))
								}
								if ln, _ := r.PeekLine(); ln == nil {
									res = "skip" // the driver calls Continue only while lines remain
									return
								}
								st := fc.Continue(node, r, pc)
								l, p := r.Position()
								if st == parser.Close {
									res = fmt.Sprintf("close@%d,%s", l, segStr(p))
								} else {
									s := node.Lines().At(node.Lines().Len() - 1)
									res = fmt.Sprintf("line:%d,%d@%d,%s", s.Start, s.Padding, l, segStr(p))
								}
							}()
							if res != "skip" {
								c.Case("FenceContinue", []string{hx(src), "1", itoa(len(pf)), itoa(pad), itoa(int(open[0])), itoa(ind), itoa(len(open))}, res)
							}
						}
					}
				}
			}
		}
	}
	_ = n
}
