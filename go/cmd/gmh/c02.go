package main

// C02: documents whose meaning is fixed by construction (SpecDoc trees) and rewritten spec examples.

import (
	"bytes"
	"fmt"
	stdhtml "html"
	"strconv"
	"regexp"
	"strings"
	"sync"
	"time"
)

func init() { runners["C02"] = runC02 }

// ---------- generator: every tree it returns satisfies the side conditions listed in DESIGN.md ----------

type sGen struct {
	r      *RNG
	nlabel int
}

func (g *sGen) word() []byte {
	n := 1 + g.r.Intn(5)
	b := make([]byte, n)
	for i := range b {
		b[i] = byte('a' + g.r.Intn(26))
	}
	return b
}

const asciiPunct = "!\"#$%&'()*+,-./:;<=>?@[\\]^_`{|}~"

var destAlpha = []byte("abcxyz019/:.?=&#-_~+")
var rawTags = []string{"<b>", "</b>", `<span class="x">`, "</span>", "<i data-a='1'>", "<br/>", "<!-- c -->", "<?x y?>", "<!A b>", "<![CDATA[a]]>", "<a\nhref=\"u\">"}

func (g *sGen) dest(nonEmpty bool) []byte {
	n := g.r.Intn(10)
	if nonEmpty && n == 0 {
		n = 1
	}
	if n == 0 {
		return []byte{}
	}
	b := []byte{byte('a' + g.r.Intn(26))}
	for len(b) < n {
		b = append(b, g.r.Pick(destAlpha))
	}
	if g.r.Intn(4) == 0 {
		b = append([]byte("http://"), b...)
	}
	return b
}

func (g *sGen) title() (bool, []byte) {
	if g.r.Intn(3) != 0 {
		return false, nil
	}
	ws := [][]byte{g.word()}
	for i := g.r.Intn(3); i > 0; i-- {
		if g.r.Intn(5) == 0 {
			ws = append(ws, []byte(g.r.PickS([]string{"&", "<", ">", "#", "*", "[", "_"})))
		} else {
			ws = append(ws, g.word())
		}
	}
	return true, bytes.Join(ws, []byte(" "))
}

func (g *sGen) codepoint() int {
	switch g.r.Intn(6) {
	case 0:
		return []int{35, 38, 42, 60, 62, 34, 91, 92, 93, 95, 96, 169, 233, 0x4e2d, 0x1F600, 0x10FFFF, 0x7F, 0x80, 0x7FF, 0x800, 0xFFFF, 0x10000, 0xD7FF, 0xE000}[g.r.Intn(24)]
	case 1:
		return 33 + g.r.Intn(94)
	case 2:
		return 0xA1 + g.r.Intn(0x2FF-0xA1)
	case 3:
		return 0x4E00 + g.r.Intn(0x100)
	case 4:
		return 0x1F600 + g.r.Intn(0x50)
	}
	return []int{38, 60, 62, 34, 169}[g.r.Intn(5)]
}

// a code span: content without a backtick run as long as the fence; unpadded content must not
// begin and end with a space, nor touch the fence with a backtick; padded content must not be blank
func (g *sGen) codeSpan() sAtom {
	a := sAtom{K: 'C', Ticks: 1, W: g.codeContent()}
	switch g.r.Intn(5) {
	case 0:
		a.Ticks = 2
		if g.r.Bool() {
			i := g.r.Intn(len(a.W) + 1)
			a.W = append(append(append([]byte{}, a.W[:i]...), '`'), a.W[i:]...)
		}
	case 1:
		a.Ticks = 3
		if g.r.Bool() {
			i := g.r.Intn(len(a.W) + 1)
			a.W = append(append(append([]byte{}, a.W[:i]...), "``"[:1+g.r.Intn(2)]...), a.W[i:]...)
		}
	}
	n := len(a.W)
	if a.W[0] == '`' || a.W[n-1] == '`' || g.r.Intn(4) == 0 {
		a.Padded = true
	}
	return a
}

func (g *sGen) codeContent() []byte {
	alpha := []byte("abcxyz<>&\"*_\\[]()!#'~- ")
	n := 1 + g.r.Intn(8)
	b := make([]byte, n)
	for i := range b {
		b[i] = g.r.Pick(alpha)
	}
	if b[0] == ' ' {
		b[0] = 'a'
	}
	if b[n-1] == ' ' {
		b[n-1] = 'z'
	}
	return b
}

type aCtx struct {
	depth   int
	noBreak bool
	noLink  bool
	parent  int  // delimiter char of an enclosing emphasis whose edge this list touches: -1 none
	fw, lw  bool // the first (last) atom must begin (end) with a letter, possibly behind delimiters
}

// atoms: n atoms; breaks are never first, last or adjacent; raw HTML never starts a line
func (g *sGen) atoms(cx aCtx, maxN int) []sAtom {
	n := 1 + g.r.Intn(maxN)
	var out []sAtom
	for i := 0; i < n; i++ {
		lineStart := i == 0 && cx.depth == 0 || (i > 0 && isBreak(out[len(out)-1]))
		if i > 0 && i < n-1 && !cx.noBreak && !isBreak(out[len(out)-1]) && g.r.Intn(5) == 0 {
			if cx.depth == 0 && g.r.Bool() {
				out = append(out, sAtom{K: 'H', Sp: g.r.Intn(2)})
			} else {
				out = append(out, sAtom{K: 's'})
			}
			continue
		}
		edge := i == 0 || i == n-1
		out = append(out, g.atom(cx, lineStart, edge, i == 0, i == n-1))
	}
	for i := 0; i+1 < len(out); i++ {
		// a closing delimiter directly followed by the backslash of a hard break would be
		// punctuation-flanked on both sides; spell that break with spaces
		if (out[i].K == 'M' || out[i].K == 'S') && out[i+1].K == 'H' {
			out[i+1].Sp = 0
		}
	}
	return out
}

func (g *sGen) atom(cx aCtx, lineStart, edge, first, last bool) sAtom {
	needW := (first && cx.fw) || (last && cx.lw)
	for {
		k := g.r.Intn(14)
		if needW && !(k <= 3 || k == 6 || k == 7) {
			continue
		}
		switch k {
		case 0, 1, 2, 3:
			return sAtom{K: 'W', W: g.word()}
		case 4:
			return sAtom{K: 'E', C: int(asciiPunct[g.r.Intn(len(asciiPunct))])}
		case 5:
			return sAtom{K: 'N', Sp: g.r.Intn(3), C: g.codepoint()}
		case 6, 7:
			if cx.depth >= 3 {
				continue
			}
			d := g.r.Intn(2)
			if edge && cx.parent >= 0 {
				d = 1 - cx.parent
			}
			k := byte('M')
			if g.r.Bool() {
				k = 'S'
			}
			sub := cx
			sub.depth++
			sub.parent = d
			// an opener preceded by punctuation (first in a nested body) must be followed by a
			// letter, a closer followed by punctuation must be preceded by one: otherwise the run
			// is both left- and right-flanking and the reading is no longer forced
			sub.fw = first && (cx.depth > 0 || cx.fw)
			sub.lw = last && (cx.depth > 0 || cx.lw)
			return sAtom{K: k, Sp: d, Body: g.atoms(sub, 3)}
		case 8:
			return g.codeSpan()
		case 9, 10:
			if cx.noLink || cx.depth >= 3 {
				continue
			}
			a := sAtom{K: 'L', Style: g.r.Intn(5), TStyle: g.r.Intn(3)}
			a.HasT, a.Title = g.title()
			a.Dest = g.dest(a.Style >= 2)
			if a.Style == 0 && len(a.Dest) == 0 {
				a.HasT, a.Title = false, nil // "( "t")" reads the quoted text as the destination
			}
			sub := cx
			sub.depth++
			sub.noLink = true
			sub.noBreak = a.Style >= 2 || cx.noBreak
			sub.parent = -1
			sub.fw, sub.lw = false, false
			if a.Style >= 3 {
				g.nlabel++
				ws := [][]byte{[]byte("ref" + alphaNum(g.nlabel))}
				for i := g.r.Intn(3); i > 0; i-- {
					ws = append(ws, g.word())
				}
				for i, w := range ws {
					// a label may span lines: the line ending normalises to one blank
					if i > 0 && !cx.noBreak && cx.depth == 0 && g.r.Intn(4) == 0 {
						a.Body = append(a.Body, sAtom{K: 's'})
					}
					a.Body = append(a.Body, sAtom{K: 'W', W: w})
				}
				a.Label = bytes.Join(ws, []byte(" "))
			} else {
				a.Body = g.atoms(sub, 3)
				if a.Style == 2 {
					g.nlabel++
					ws := [][]byte{[]byte("ref" + alphaNum(g.nlabel))}
					for i := g.r.Intn(3); i > 0; i-- {
						ws = append(ws, g.word())
					}
					a.Label = bytes.Join(ws, []byte(" "))
					a.Variant = g.r.Intn(4)
				} else {
					a.Label = []byte{}
				}
			}
			return a
		case 11:
			a := sAtom{K: 'I', Dest: g.dest(true)}
			for i := 1 + g.r.Intn(3); i > 0; i-- {
				a.Alt = append(a.Alt, g.word())
			}
			return a
		case 12:
			if cx.noLink {
				continue
			}
			sch := g.r.PickS([]string{"http", "https", "ftp", "mailto", "a+b.c-d", "ab"})
			return sAtom{K: 'U', W: append([]byte(sch+":"), g.dest(false)...)}
		case 13:
			if lineStart {
				continue
			}
			t := g.r.PickS(rawTags)
			if cx.noBreak && strings.Contains(t, "\n") {
				continue
			}
			return sAtom{K: 'R', W: []byte(t)}
		}
	}
}

func alphaNum(n int) string {
	s := ""
	for {
		s = string(rune('a'+n%26)) + s
		n /= 26
		if n == 0 {
			return s
		}
	}
}

var htmlBlocks = [][]string{
	{"<div>", "foo", "</div>"}, {"<table>", "  <tr><td>x</td></tr>", "</table>"}, {"<!-- c -->"}, {"<!-- a", "", "b -->"},
	{`<div class="a">*not em*</div>`}, {"<p>", "*x*", "</p>"}, {"<pre>", "a", "", " b", "</pre>"}, {"<script>", "1 < 2", "</script>"},
	{"<?php", "echo", "", "?>"}, {"<!DOCTYPE html>"}, {"<![CDATA[", "x", "", "]]>"}, {"<span>"}, {`<a href="x">`, "t", "</a>"}, {"</div>", "*x*"},
	{"<style>p{}</style>"}, {"<textarea>", "", "</textarea>"}, {"<hr/>"}, {"<DIV CLASS=\"x\">", "    indented", "</DIV>"},
}

type bCtx struct {
	depth    int
	top      bool // directly in the document (column 0)
	tightNo  bool // blank lines forbidden (inside a tight list)
	itemMark byte // marker char of the enclosing item when generating its first block, else 0
}

func listKey(b sBlock) string {
	if b.Ordered {
		return fmt.Sprintf("o%d", b.Delim)
	}
	return fmt.Sprintf("u%d", b.Marker)
}

func (g *sGen) codeLine(fenceChar byte, fl int) []byte {
	switch g.r.Intn(8) {
	case 0:
		return []byte(g.r.PickS([]string{"- a", "> q", "# h", "***", "1. x", "[a]: /u", "<div>", "    deep", "  two", "\\*", "&amp;", "a  "}))
	case 1:
		other := byte('`')
		if fenceChar == '`' {
			other = '~'
		}
		if fenceChar == 0 {
			return []byte("```")
		}
		if g.r.Bool() && fl > 1 {
			return bytes.Repeat([]byte{fenceChar}, fl-1)
		}
		return bytes.Repeat([]byte{other}, 3+g.r.Intn(3))
	}
	alpha := []byte("abcxyz<>&\"*_ ")
	n := 1 + g.r.Intn(8)
	b := make([]byte, n)
	for i := range b {
		b[i] = g.r.Pick(alpha)
	}
	b[g.r.Intn(n)] = byte('a' + g.r.Intn(26)) // never blank
	return b
}

// a sequence of blocks obeying the adjacency conditions
func (g *sGen) blocks(cx bCtx, maxN int, first bool) []sBlock {
	n := 1 + g.r.Intn(maxN)
	var out []sBlock
	for i := 0; i < n; i++ {
		var prev *sBlock
		if len(out) > 0 {
			prev = &out[len(out)-1]
		}
		c := cx
		if !(first && i == 0) {
			c.itemMark = 0
		}
		out = append(out, g.block(c, prev, first && i == 0))
	}
	return out
}

func (g *sGen) block(cx bCtx, prev *sBlock, itemFirst bool) sBlock {
	afterList := prev != nil && prev.K == 'O'
	ind := func() int {
		if itemFirst || afterList {
			return 0
		}
		return g.r.Intn(4)
	}
	_ = ind
	for {
		switch g.r.Intn(13) {
		case 0, 1, 2:
			return sBlock{K: 'P', Ind: ind(), Atoms: g.atoms(aCtx{parent: -1}, 6)}
		case 3:
			lv := 1 + g.r.Intn(6)
			st := g.r.Intn(3)
			if st == 2 {
				lv = 1 + g.r.Intn(2)
			}
			ex := 0
			if st == 1 {
				ex = []int{lv, lv, 1, 2, 7, 3}[g.r.Intn(6)]
			} else if st == 2 {
				ex = []int{3, 3, 2, 5, 9}[g.r.Intn(5)]
				if lv == 1 && g.r.Intn(4) == 0 {
					ex = 1
				}
			}
			return sBlock{K: 'G', Ind: ind(), Lv: lv, St: st, Extra: ex, Atoms: g.atoms(aCtx{noBreak: true, parent: -1}, 4)}
		case 4:
			st := g.r.Intn(7)
			hc := hrMD(st)[0]
			if cx.itemMark != 0 && hc == cx.itemMark {
				continue
			}
			return sBlock{K: 'T', Ind: ind(), St: st}
		case 5:
			// indented code
			if afterList || (prev != nil && prev.K == 'K' && prev.St < 2) {
				continue
			}
			st := 0
			if cx.top && g.r.Intn(3) == 0 {
				st = 1
			}
			b := sBlock{K: 'K', St: st, Info: []byte{}}
			for i := 1 + g.r.Intn(3); i > 0; i-- {
				b.Lines = append(b.Lines, g.codeLine(0, 0))
			}
			if len(b.Lines) == 3 && g.r.Intn(3) == 0 {
				b.Lines[1] = []byte{}
			}
			return b
		case 6, 7:
			st := 2 + g.r.Intn(2)
			fc := byte('`')
			if st == 3 {
				fc = '~'
			}
			b := sBlock{K: 'K', St: st, Ind: ind(), Fl: 3 + g.r.Intn(4), Info: []byte{}}
			if g.r.Bool() {
				b.Info = g.word()
			}
			for i := g.r.Intn(4); i > 0; i-- {
				if g.r.Intn(5) == 0 {
					b.Lines = append(b.Lines, []byte{})
				} else {
					b.Lines = append(b.Lines, g.codeLine(fc, b.Fl))
				}
			}
			return b
		case 8:
			if cx.depth >= 3 {
				continue
			}
			sub := bCtx{depth: cx.depth + 1}
			return sBlock{K: 'Q', St: g.r.Intn(2), Blocks: g.blocks(sub, 3, false)}
		case 9, 10, 11:
			if cx.depth >= 3 {
				continue
			}
			b := g.list(cx, false)
			b.Ind = ind()
			if afterList && listKey(*prev) == listKey(b) {
				continue
			}
			return b
		case 12:
			h := htmlBlocks[g.r.Intn(len(htmlBlocks))]
			b := sBlock{K: 'X'}
			for _, l := range h {
				b.Lines = append(b.Lines, []byte(l))
			}
			return b
		}
	}
}

func (g *sGen) list(cx bCtx, forceTight bool) sBlock {
	b := sBlock{K: 'O', Ordered: g.r.Bool(), Start: 1, Delim: g.r.Intn(2), Marker: g.r.Intn(3)}
	b.Tight = forceTight || g.r.Bool()
	b.Gap = []int{1, 1, 1, 2, 3, 4}[g.r.Intn(6)]
	if b.Ordered && !forceTight {
		b.Start = []int{0, 1, 2, 7, 9, 10, 42, 99, 100, 998, 123456789, 999999990}[g.r.Intn(12)]
	}
	mark := byte("-+*"[b.Marker])
	if b.Ordered {
		mark = 1
	}
	n := 1 + g.r.Intn(3)
	if !b.Tight && n == 1 && g.r.Bool() {
		n = 2
	}
	sub := bCtx{depth: cx.depth + 1, itemMark: mark}
	for i := 0; i < n; i++ {
		var it []sBlock
		if b.Tight {
			switch g.r.Intn(6) {
			case 0:
				if cx.depth < 2 {
					it = []sBlock{{K: 'P', Atoms: g.atoms(aCtx{parent: -1}, 4)}, g.list(sub, true)}
					break
				}
				fallthrough
			case 1:
				st := 2 + g.r.Intn(2)
				fc := byte('`')
				if st == 3 {
					fc = '~'
				}
				fb := sBlock{K: 'K', St: st, Fl: 3 + g.r.Intn(3), Info: []byte{}}
				for j := g.r.Intn(3); j > 0; j-- {
					fb.Lines = append(fb.Lines, g.codeLine(fc, fb.Fl))
				}
				if len(fb.Lines) == 2 && g.r.Intn(3) == 0 {
					fb.Lines = [][]byte{fb.Lines[0], {}, fb.Lines[1]}
				}
				it = []sBlock{fb}
			default:
				it = []sBlock{{K: 'P', Atoms: g.atoms(aCtx{parent: -1}, 4)}}
			}
		} else {
			it = g.blocks(sub, 3, true)
		}
		if len(it) > 0 && it[0].K == 'K' && it[0].St < 2 {
			b.Gap = 1 // five or more blanks after the marker: only one belongs to it
		}
		if ls := blocksLines(false, it); len(ls) > 0 && hrLike(markerMD(b.Ordered, b.Start+i, b.Delim, b.Marker)+" "+string(ls[0].s)+string(ls[0].c)) {
			i-- // the marker line as a whole would be a thematic break
			continue
		}
		b.Items = append(b.Items, it)
	}
	if !b.Tight && len(b.Items) == 1 && len(b.Items[0]) == 1 {
		// a single block in a single item has no blank line to make the list loose
		b.Items[0] = append(b.Items[0], sBlock{K: 'P', Atoms: g.atoms(aCtx{parent: -1}, 3)})
	}
	return b
}

func hrLike(l string) bool {
	t := strings.ReplaceAll(strings.ReplaceAll(l, " ", ""), "\t", "")
	if len(t) < 3 || !strings.ContainsRune("*-_", rune(t[0])) {
		return false
	}
	return strings.Trim(t, t[:1]) == ""
}

func (g *sGen) doc(maxBlocks int) []sBlock {
	g.nlabel = 0
	return g.blocks(bCtx{top: true}, maxBlocks, false)
}

// ---------- the specification's comparison: whitespace around block-level tags is ignored ----------

var blockTagRe = regexp.MustCompile(`[ \t\n]*(</?(?:article|header|aside|hgroup|blockquote|hr|iframe|body|li|map|button|object|canvas|ol|caption|output|col|p|colgroup|pre|dd|progress|div|section|dl|table|td|dt|tbody|embed|textarea|fieldset|tfoot|figcaption|th|figure|thead|footer|tr|form|ul|h1|h2|h3|h4|h5|h6|video|script|style)(?:[ \t\n][^<>]*)?/?>)[ \t\n]*`)
var preRe = regexp.MustCompile(`(?s)<pre>.*?</pre>`)

func specNormalize(h []byte) string {
	// keep <pre> contents, drop whitespace around block tags elsewhere
	var keep [][]byte
	s := preRe.ReplaceAllFunc(h, func(m []byte) []byte {
		keep = append(keep, m)
		return []byte(fmt.Sprintf("<pre>\x00%d\x00</pre>", len(keep)-1))
	})
	s = blockTagRe.ReplaceAll(s, []byte("$1"))
	out := string(s)
	for i, k := range keep {
		out = strings.Replace(out, fmt.Sprintf("<pre>\x00%d\x00</pre>", i), string(k), 1)
	}
	return strings.TrimSpace(out)
}

// ---------- spec-example rewrites ----------

// endsOpen: the example's last block is one that a blank line does not close (an unclosed
// fenced code block or an HTML block of kinds 1-5 without its end condition); decided on the
// source text by a line scan that knows only fences and HTML start/end conditions.
var htmlStart15 = []struct{ start, end *regexp.Regexp }{
	{regexp.MustCompile(`(?i)^ {0,3}<(pre|script|style|textarea)([ \t>]|$)`), regexp.MustCompile(`(?i)</(pre|script|style|textarea)>`)},
	{regexp.MustCompile(`^ {0,3}<!--`), regexp.MustCompile(`-->`)},
	{regexp.MustCompile(`^ {0,3}<\?`), regexp.MustCompile(`\?>`)},
	{regexp.MustCompile(`^ {0,3}<![A-Za-z]`), regexp.MustCompile(`>`)},
	{regexp.MustCompile(`^ {0,3}<!\[CDATA\[`), regexp.MustCompile(`\]\]>`)},
}

func runC02(c *Ctx) {
	c.Rep.Rule = "a case is (SpecDoc tree, tab spelling, final newline): Convert(md_of tree) under html.WithUnsafe+WithXHTML must equal html_of tree, exactly or after the specification's own normalisation; or (spec example, rewrite): Convert(rewrite(markdown)) must equal the rewritten expected html; distinct by hash of the Markdown; non-trivial = the tree has a container or a link"
	cf := Cfg{Ext: "core", Unsafe: true, XHTML: true}
	nw := 16
	mds := make([]mdT, nw)
	for i := range mds {
		mds[i] = mdT{cf, cf.Build()}
	}
	nDocs := 60000
	caseEvery := 6
	if !c.Quick() {
		nDocs = 400000
		caseEvery = 20
	}
	type job struct {
		tree []sBlock
		i    int
	}
	g := &sGen{r: c.R}
	trees := make([][]sBlock, nDocs)
	for i := range trees {
		trees[i] = g.doc(1 + i%4)
	}
	type res struct {
		ser   string
		md    [4][]byte
		html  []byte
		viol  []string
		vmd   [][]byte
		exact bool
	}
	results := make([]res, nDocs)
	cur := make([]string, nw)
	c.watchdog(600*time.Second+time.Duration(nDocs/100)*time.Second, "specdoc-hang", func() interface{} { return map[string]interface{}{"in-progress": append([]string{}, cur...)} }, func() {
		var wg sync.WaitGroup
		for w := 0; w < nw; w++ {
			wg.Add(1)
			go func(w int) {
				defer wg.Done()
				for i := w; i < nDocs; i += nw {
					t := trees[i]
					r := res{ser: serDoc(t), html: htmlOf(t), exact: true}
					wantN := specNormalize(r.html)
					for v := 0; v < 4; v++ {
						md := mdOf(v&1 != 0, v&2 != 0, t)
						r.md[v] = md
						cur[w] = string(md)
						got, e, p := convertSafe(mds[w].md, md)
						if e != "" || p != "" {
							r.viol = append(r.viol, "Convert failed: "+e+p)
							r.vmd = append(r.vmd, md)
							continue
						}
						if bytes.Equal(got, r.html) {
							continue
						}
						r.exact = false
						if specNormalize(got) != wantN {
							r.viol = append(r.viol, "HTML differs from the prescribed rendering: "+firstDiff(got, r.html))
							r.vmd = append(r.vmd, md)
						}
					}
					results[i] = r
				}
			}(w)
		}
		wg.Wait()
	})

	shown := 0
	for i, r := range results {
		nontrivial := strings.ContainsAny(r.ser, "QOL")
		for v := 0; v < 4; v++ {
			c.Count("specdoc", string(r.md[v]), nontrivial)
		}
		if i%caseEvery == 0 {
			v := (i / caseEvery) % 4
			c.Case("SpecDoc", []string{btoa(v&1 != 0), btoa(v&2 != 0), r.ser}, hx(r.md[v])+"|"+hx(r.html))
		}
		if !r.exact {
			c.Hist("specdoc:equal-after-spec-normalisation")
		}
		for k := range r.ser {
			switch r.ser[k] {
			case 'P', 'G', 'T', 'K', 'Q', 'O', 'X', 'M', 'S', 'L', 'I', 'U', 'R', 'H', 'N', 'E', 'C':
				if k == 0 || r.ser[k-1] == ' ' {
					if k+1 < len(r.ser) && r.ser[k+1] == ' ' {
						c.Hist("construct:" + string(r.ser[k]))
					}
				}
			}
		}
		if i < 3 {
			c.Sample(map[string]string{"markdown": string(r.md[2]), "html": string(r.html)})
		}
		for k, d := range r.viol {
			if shown < 12 {
				shown++
				c.Violate("specdoc", map[string]string{"markdown": string(r.vmd[k]), "tree": r.ser}, d, "specdoc")
			}
		}
	}
	// the modelled block-level mechanisms (list items, thematic breaks, ATX headings, fences)
	nli := 4000
	if !c.Quick() {
		nli = 200000
	}
	// the parser model (BlockParse.v, InlineParse.v) and the composed Convert model on the spec
	// examples, on a sample of the generated documents and on the common streams; the regular
	// expressions regenerated from the code against Go's engine
	var pitems []docItem
	for _, e := range loadSpec() {
		pitems = append(pitems, docItem{"spec", []byte(e.Markdown)})
	}
	for i, r := range results {
		if i%caseEvery == 0 {
			pitems = append(pitems, docItem{"specdoc", r.md[(i/caseEvery)%4]})
		}
	}
	pitems = append(pitems, collectDocs(c, docOpts{corpus: true, random: nli, randLines: nli, mutants: nli / 2}, nil)...)
	parserModelCases(c, pitems, 10*nli)
	for _, e := range loadSpec() {
		convertCase(c, Cfg{Unsafe: true, XHTML: true}, []byte(e.Markdown))
	}
	regexCases(c, nli)
	listItemCases(c, nli)
	leafBlockCases(c, 0)
	delimCases(c, nli)
	codeSpanCases(c, nli)
	codeBlockCases(c, nli)
	var curS string
	c.watchdog(900*time.Second, "spec-rewrite-hang", func() interface{} { return map[string]string{"markdown": curS} }, func() { specRewrites(c, mds[0], &curS) })
	c.watchdog(600*time.Second, "escape-adjacency-hang", func() interface{} { return map[string]string{"markdown": curS} }, func() { escapeAdjacency(c, mds[0], &curS) })
}

// ---------- backslash escapes and character references glued to one another ----------
// Every string of up to three tokens (references that are valid, unterminated, unknown or empty;
// escapes of punctuation and of letters; the bare bytes they are made of) is written as paragraph
// text, as a link title and as a fenced code info string.  What the text means is fixed by
// sections 2.4 and 2.5 of the specification and computed here by specUnescape, independently of
// goldmark: a backslash before ASCII punctuation stands for that character, `&name;` /
// `&#digits;` / `&#xhex;` for their code point (U+FFFD for 0 and for out-of-range values),
// everything else for itself.
var escTokens = []string{"&", "&amp;", "&amp", "&#35;", "&#x23;", "&#X23;", "&#;", "&#0;", "&#x110000;", "&#12345678;", "\\!", "\\\\", "\\&", "\\a", "\\#", "\\;", "a", ";", "#", "!", "x", "&copy;", "&bogus;", "&ouml;", "3"}

func specUnescape(s string) string {
	var b strings.Builder
	for i := 0; i < len(s); {
		ch := s[i]
		if ch == '\\' && i+1 < len(s) && strings.IndexByte("!\"#$%&'()*+,-./:;<=>?@[\\]^_`{|}~", s[i+1]) >= 0 {
			b.WriteByte(s[i+1])
			i += 2
			continue
		}
		if ch == '&' {
			if j := strings.IndexByte(s[i:], ';'); j > 1 {
				body := s[i+1 : i+j]
				if r, ok := specReference(body); ok {
					b.WriteString(r)
					i += j + 1
					continue
				}
			}
		}
		b.WriteByte(ch)
		i++
	}
	return b.String()
}

func specReference(body string) (string, bool) {
	isAll := func(t, set string) bool {
		for k := 0; k < len(t); k++ {
			if strings.IndexByte(set, t[k]) < 0 {
				return false
			}
		}
		return t != ""
	}
	var v int64 = -1
	switch {
	case body[0] == '#' && len(body) > 1 && (body[1] == 'x' || body[1] == 'X'):
		if h := body[2:]; isAll(h, "0123456789abcdefABCDEF") && len(h) <= 6 {
			v, _ = strconv.ParseInt(h, 16, 64)
		}
	case body[0] == '#':
		if d := body[1:]; isAll(d, "0123456789") && len(d) <= 7 {
			v, _ = strconv.ParseInt(d, 10, 64)
		}
	default:
		if !isAll(body, "abcdefghijklmnopqrstuvwxyzABCDEFGHIJKLMNOPQRSTUVWXYZ0123456789") {
			return "", false
		}
		// the HTML5 entity table of the Go standard library, names with their semicolon only
		if u := stdhtml.UnescapeString("&" + body + ";"); u != "&"+body+";" && !strings.HasSuffix(u, ";") {
			return u, true
		}
		return "", false
	}
	if v < 0 {
		return "", false
	}
	if v == 0 || v > 0x10ffff || (v >= 0xd800 && v <= 0xdfff) {
		return "\uFFFD", true
	}
	return string(rune(v)), true
}

func escapeAdjacency(c *Ctx, m mdT, cur *string) {
	var strs []string
	n := len(escTokens)
	for i := 0; i < n; i++ {
		strs = append(strs, escTokens[i])
		for j := 0; j < n; j++ {
			strs = append(strs, escTokens[i]+escTokens[j])
			for k := 0; k < n; k++ {
				if c.Quick() && (i*n*n+j*n+k+int(c.Seed))%3 != 0 {
					continue
				}
				strs = append(strs, escTokens[i]+escTokens[j]+escTokens[k])
			}
		}
	}
	for _, s := range strs {
		t := stdhtml.EscapeString(specUnescape(s))
		t = strings.ReplaceAll(strings.ReplaceAll(t, "&#34;", "&quot;"), "&#39;", "'")
		docs := [][3]string{
			{"text", "zq " + s + " b\n", "<p>zq " + t + " b</p>\n"},
			{"title", "[zq](/u \"zq " + s + " b\")\n", "<p><a href=\"/u\" title=\"zq " + t + " b\">zq</a></p>\n"},
			{"info", "```" + s + "\nzq\n```\n", "<pre><code class=\"language-" + t + "\">zq\n</code></pre>\n"},
		}
		for _, d := range docs {
			c.Count("escape-adjacency-"+d[0], d[1], true)
			*cur = d[1]
			got, es, ps := convertSafe(m.md, []byte(d[1]))
			if es != "" || ps != "" {
				c.Violate("escape-adjacency", map[string]interface{}{"where": d[0], "markdown": d[1]}, "Convert failed: "+es+ps, "escape-adjacency")
				continue
			}
			if string(got) != d[2] {
				c.Violate("escape-adjacency", map[string]interface{}{"where": d[0], "markdown": d[1]},
					fmt.Sprintf("escapes and references in %s: got %.200q want %.200q", d[0], got, d[2]), "escape-adjacency:"+d[0])
			}
		}
	}
}

// stripContainers removes every leading run of blanks, block-quote markers and list markers;
// it returns what is left and the prefix that was removed.
var containerRe = regexp.MustCompile(`^(?: +|\t|>|[-+*](?: +|\t)|[0-9]{1,9}[.)](?: +|\t))`)

// prefix is what a continuation line of the same containers starts with: block-quote markers as
// they are, list markers replaced by as many blanks ("" with ok=false when a tab is involved)
func stripContainers(l string) (core, prefix string) {
	core, prefix, _ = stripContainersOwn(l)
	return
}

func stripContainersOwn(l string) (core, prefix string, own int) {
	core = l
	pending := "" // blanks after the last marker: the block's own indentation, not a container
	for {
		m := containerRe.FindString(core)
		if m == "" {
			return core, prefix, len(pending)
		}
		if m[0] == ' ' {
			pending += m
			core = core[len(m):]
			continue
		}
		prefix += pending
		pending = ""
		if m[0] == '>' {
			prefix += m
		} else if strings.Contains(m, "\t") {
			prefix += "\x00" // never matches: a block opened here is never seen closing
		} else {
			prefix += strings.Repeat(" ", len(m))
		}
		core = core[len(m):]
	}
}

var fenceStartRe = regexp.MustCompile("^(`{3,}|~{3,})")

// endsOpen: may the document end inside a block that a blank line does not close (a fenced code
// block without its closing fence, an HTML block of kinds 1-5 without its end condition)?
// Decided on the source text alone.  It errs on the side of "open": a block counts as closed
// only when a closing line is certain to be read as such (same container prefix as the opening
// line, or as many blanks; no line in between that leaves a block quote).
func endsOpen(md string) bool {
	lines := strings.Split(strings.TrimRight(md, "\n"), "\n")
	type open struct {
		fence  string
		prefix string
		own    int // the opening line's own indentation after its container prefix
		end    *regexp.Regexp
	}
	// an HTML block of kind 6 or 7 swallows the lines up to the next blank one, fences included:
	// with both a tag-like line and a fence-like line present the reading is not attempted
	tagLike, fenceLike := false, false
	for _, raw := range lines {
		core, _ := stripContainers(raw)
		if len(core) >= 2 && core[0] == '<' && (core[1] == '/' || core[1] >= 'A' && core[1] <= 'Z' || core[1] >= 'a' && core[1] <= 'z') {
			tagLike = true
		}
		if fenceStartRe.MatchString(core) {
			fenceLike = true
		}
	}
	if tagLike && fenceLike {
		return true
	}
	var cur *open
	for _, raw := range lines {
		if cur != nil && cur.fence != "" {
			if strings.Contains(cur.prefix, ">") && !strings.HasPrefix(raw, cur.prefix[:strings.LastIndex(cur.prefix, ">")+1]) {
				return true // the quote may have ended and taken the block with it: uncertain
			}
			if !strings.HasPrefix(raw, cur.prefix) {
				if strings.TrimSpace(raw) != "" {
					return true // a less indented line may have ended the container: uncertain
				}
				continue
			}
			rest := raw[len(cur.prefix):]
			t := strings.TrimLeft(rest, " ")
			k := len(rest) - len(t)
			if strings.TrimSpace(rest) == "" {
				continue
			}
			if k < cur.own {
				return true // less indented than the opening line: it may sit in a container that ends here
			}
			run := len(t) - len(strings.TrimLeft(t, cur.fence[:1]))
			if k <= 3 && run >= len(cur.fence) && strings.TrimSpace(t[run:]) == "" {
				cur = nil
			}
			continue
		}
		if cur != nil {
			if strings.TrimSpace(raw) != "" {
				if !strings.HasPrefix(raw, cur.prefix) {
					return true // the container may have ended here and something else begun: uncertain
				}
				rest := raw[len(cur.prefix):]
				if len(rest)-len(strings.TrimLeft(rest, " ")) < cur.own {
					return true
				}
			}
			if cur.end.MatchString(raw) {
				cur = nil
			}
			continue
		}
		core, prefix, own := stripContainersOwn(raw)
		if m := fenceStartRe.FindString(core); m != "" && !(m[0] == '`' && strings.Contains(core[len(m):], "`")) {
			cur = &open{fence: m, prefix: prefix, own: own}
			continue
		}
		for _, h := range htmlStart15 {
			if h.start.MatchString(core) {
				if !h.end.MatchString(core) {
					cur = &open{end: h.end, prefix: prefix, own: own}
				}
				break
			}
		}
	}
	return cur != nil
}

func specRewrites(c *Ctx, m mdT, cur *string) {
	type rw struct {
		name string
		f    func(md, html string) (string, string, bool)
	}
	rws := []rw{
		{"identity", func(md, h string) (string, string, bool) { return md, h, true }},
		{"no-final-newline", func(md, h string) (string, string, bool) {
			if strings.HasSuffix(md, "\n") && !strings.HasSuffix(md, "\n\n") && md != "\n" {
				return md[:len(md)-1], h, true
			}
			return "", "", false
		}},
		{"extra-final-newline", func(md, h string) (string, string, bool) {
			if !strings.HasSuffix(md, "\n") || endsOpen(md) {
				return "", "", false
			}
			return md + "\n", h, true
		}},
		{"hr-before", func(md, h string) (string, string, bool) { return "***\n" + md, "<hr />\n" + h, true }},
		{"para-before", func(md, h string) (string, string, bool) { return "zqpre\n\n" + md, "<p>zqpre</p>\n" + h, true }},
		{"hr-after", func(md, h string) (string, string, bool) {
			if endsOpen(md) {
				return "", "", false
			}
			if !strings.HasSuffix(md, "\n") {
				md += "\n"
			}
			return md + "\n***\n", h + "<hr />\n", true
		}},
		{"fence-after", func(md, h string) (string, string, bool) {
			if endsOpen(md) {
				return "", "", false
			}
			if !strings.HasSuffix(md, "\n") {
				md += "\n"
			}
			return md + "\n~~~~\nzq\n~~~~\n", h + "<pre><code>zq\n</code></pre>\n", true
		}},
	}
	// unrelated closed paragraphs with an unmatched opener of every inline construct, before and
	// after the example: inline state must not outlive a block
	for i, pq := range [][2]string{{"zq ` b", "zq ` b"}, {"zq `` b", "zq `` b"}, {"zq ``` b", "zq ``` b"}, {"zq * b _ c", "zq * b _ c"}, {"zq **b", "zq **b"}, {"zq __b", "zq __b"},
		{"zq [b", "zq [b"}, {"zq ![b", "zq ![b"}, {"zq b]", "zq b]"}, {"zq <b", "zq &lt;b"}, {"zq &amp b", "zq &amp;amp b"}, {"zq \\", "zq \\"}, {"zq <!-- b", "zq &lt;!-- b"}, {"zq [b](", "zq [b]("}} {
		pm, ph := pq[0], "<p>"+pq[1]+"</p>\n"
		rws = append(rws, rw{fmt.Sprintf("stray-para-before-%d", i), func(md, h string) (string, string, bool) { return pm + "\n\n" + md, ph + h, true }})
		rws = append(rws, rw{fmt.Sprintf("stray-para-after-%d", i), func(md, h string) (string, string, bool) {
			if endsOpen(md) {
				return "", "", false
			}
			if !strings.HasSuffix(md, "\n") {
				md += "\n"
			}
			return md + "\n" + pm + "\n", h + ph, true
		}})
	}
	for _, e := range loadSpec() {
		for _, r := range rws {
			md, want, ok := r.f(e.Markdown, e.HTML)
			if !ok {
				c.Hist("rewrite-not-licensed:" + r.name)
				continue
			}
			c.Count("spec-"+r.name, r.name+"\x00"+md, r.name != "identity")
			*cur = md
			got, es, ps := convertSafe(m.md, []byte(md))
			if es != "" || ps != "" {
				c.Violate("spec-rewrite", map[string]interface{}{"example": e.Example, "rewrite": r.name, "markdown": md}, "Convert failed: "+es+ps, "spec-rewrite")
				continue
			}
			if string(got) == want {
				continue
			}
			if specNormalize(got) == specNormalize([]byte(want)) {
				c.Hist("spec-rewrite:equal-after-spec-normalisation")
				continue
			}
			c.Violate("spec-rewrite", map[string]interface{}{"example": e.Example, "rewrite": r.name, "markdown": md},
				fmt.Sprintf("spec example %d (%s) after rewrite %s: got %.300q want %.300q", e.Example, e.Section, r.name, got, want), fmt.Sprintf("spec-rewrite:%d:%s", e.Example, r.name))
		}
	}
}

func firstDiff(got, want []byte) string {
	i := 0
	for i < len(got) && i < len(want) && got[i] == want[i] {
		i++
	}
	a := i - 60
	if a < 0 {
		a = 0
	}
	e := func(b []byte) string {
		z := i + 100
		if z > len(b) {
			z = len(b)
		}
		return fmt.Sprintf("%q", b[a:z])
	}
	return fmt.Sprintf("at byte %d got ...%s want ...%s", i, e(got), e(want))
}

// specDocStream feeds documents printed from random SpecDoc trees (blanks only, final newline)
// to another property's document stream.
func specDocStream(c *Ctx, n int, add func(string, []byte)) {
	g := &sGen{r: c.R}
	for i := 0; i < n; i++ {
		add("specdoc", mdOf(false, true, g.doc(1+i%3)))
	}
}

// nestedInlines: one paragraph of randomly nested links, images, emphasis, strong emphasis,
// strikethrough and code spans (not constrained to have a forced reading)
func nestedInlines(r *RNG, depth int) string {
	if depth <= 0 || r.Intn(4) == 0 {
		return r.PickS([]string{"a", "b c", "x", "`c`", "\\*", "<b>", "<http://u.v>", "![i](/s)", "[r]", "&amp;"})
	}
	in := nestedInlines(r, depth-1)
	if r.Intn(3) == 0 {
		in += " " + nestedInlines(r, depth-1)
	}
	switch r.Intn(9) {
	case 0:
		return "[" + in + "](/u" + itoa(depth) + ")"
	case 1:
		return "![" + in + "](/i" + itoa(depth) + ")"
	case 2:
		return "*" + in + "*"
	case 3:
		return "**" + in + "**"
	case 4:
		return "_" + in + "_"
	case 5:
		return "~~" + in + "~~"
	case 6:
		return "[" + in + "][r]"
	case 7:
		return "![" + in + "][r]"
	}
	return "[" + in + "]"
}
