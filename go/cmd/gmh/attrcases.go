package main

// Correspondence cases for the attribute parser (coq/model/Attr.v) through the public
// parser.ParseAttributes.

import (
	"fmt"
	"sort"
	"strings"

	"github.com/yuin/goldmark/parser"
	"github.com/yuin/goldmark/text"
)

func attrValStr(v interface{}) string {
	switch t := v.(type) {
	case []byte:
		return "b" + hx(t)
	case float64:
		return "n"
	case bool:
		if t {
			return "t"
		}
		return "f"
	case nil:
		return "z"
	case []interface{}:
		var ss []string
		for _, x := range t {
			ss = append(ss, attrValStr(x))
		}
		return "[" + strings.Join(ss, ",") + "]"
	case parser.Attributes:
		return "{" + attrsStr(t) + "}"
	}
	return fmt.Sprintf("?%T", v)
}

func attrsStr(as parser.Attributes) string {
	var ss []string
	for _, a := range as {
		ss = append(ss, hx(a.Name)+"="+attrValStr(a.Value))
	}
	return strings.Join(ss, ";")
}

var attrFrags = []string{"{", "}", "#id", ".c", ".d", "k=v", "k=\"v\"", "k=\"a\\\"b\\n\\t\\x\\\\\"", "k='v'", "k=[1,2]", "k=[1,", "k=[]", "k=[,]", "k=[1,,2]", "k=[[a],{#i}]", "k={.c}", "k=", "k", "=", "[", ",", ", ", "\"", " ", "  ", "\t", "\n",
	"data-x=1", "width=3.5", "n=-1", "n=+2", "n=1e5", "n=1e", "n=1e+", "n=1.", "n=1.e2", "n=.5", "n=1e308", "n=1e309", "n=1.8e308", "n=1.7976931348623157e308", "n=1.7976931348623159e308", "n=17976931348623158" + strings.Repeat("0", 292), "n=1e-400", "n=0e999", "n=1e0000000000000000001", "n=1e99999999999",
	"class=x", "class=1", "class=\"a b\"", "class=true", "id=x", "b=true", "b=false", "z=null", "t=truex", ":a=1", "_a=1", "a.b-c:d=1", "1a=1", "-a=1", "é=1", "k=é", "k=a.b", "#", ".", "#a.b", ".a#b", "#a_b-c:d.e", "#a!b", ".\xc3\xa9", "\x00", "k=\"\\", "k=\"a"}

func attrCases(c *Ctx, n int) {
	one := func(src []byte, adv int) {
		if adv > len(src) {
			adv = len(src)
		}
		res := ""
		func() {
			defer func() {
				if x := recover(); x != nil {
					res = "PANIC"
				}
			}()
			r := text.NewReader(src)
			if adv > 0 {
				r.Advance(adv)
			}
			as, ok := parser.ParseAttributes(r)
			l, p := r.Position()
			if ok {
				res = "ok:" + attrsStr(as)
			} else {
				res = "no"
			}
			res += fmt.Sprintf("@%d,%s", l, segStr(p))
		}()
		c.Case("ParseAttrs", []string{hx(src), itoa(adv)}, res)
	}
	var fr []string
	fr = append(fr, attrFrags...)
	sort.Strings(fr)
	for _, a := range fr {
		one([]byte("{"+a+"}"), 0)
		one([]byte("# h {"+a+"} \nnext"), 4)
		one([]byte("{"+a), 0)
		one([]byte("{#i "+a+" .c}"), 0)
		one([]byte("{"+a+","+a+"}"), 0)
	}
	// every byte at the start of, inside and after a name, an id, a class, a bare value
	for b := 0; b < 256; b++ {
		ch := string([]byte{byte(b)})
		for _, t := range []string{"{a" + ch + "c=1}", "{" + ch + "a=1}", "{data-x" + ch + "onclick=v}", "{#i" + ch + "j}", "{.c" + ch + "d}", "{k=v" + ch + "w}", "{k=\"v" + ch + "w\"}", "{k=[1" + ch + "2]}", "{k" + ch + "}", "{k=1" + ch + "}"} {
			one([]byte(t), 0)
		}
	}
	// arrays and attribute blocks nested to every depth up to 40, closed and cut off
	for d := 1; d <= 40; d++ {
		one([]byte("{k="+strings.Repeat("[", d)), 0)
		one([]byte("{k="+strings.Repeat("[", d)+"1"+strings.Repeat("]", d)+"}"), 0)
		one([]byte("{k="+strings.Repeat("[", d)+"1"+strings.Repeat("]", d-1)+"}"), 0)
		one([]byte("{k="+strings.Repeat("[{a=", d)), 0)
		one([]byte("{k="+strings.Repeat("{a=", d)+"1"+strings.Repeat("}", d)+"}"), 0)
		one([]byte("# h {k="+strings.Repeat("[", d)+"\n"), 4)
	}
	for i := 0; i < n; i++ {
		var sb strings.Builder
		pre := c.R.PickS([]string{"", "", " ", "x ", "# h "})
		sb.WriteString(pre)
		if c.R.Intn(8) != 0 {
			sb.WriteString("{")
		}
		for k := c.R.Intn(6); k > 0; k-- {
			sb.WriteString(c.R.PickS(attrFrags))
			sb.WriteString(c.R.PickS([]string{"", " ", " ", ",", ", "}))
		}
		if c.R.Intn(4) != 0 {
			sb.WriteString("}")
		}
		sb.WriteString(c.R.PickS([]string{"", "\n", " x\n", "\nnext\n"}))
		one([]byte(sb.String()), len(pre))
	}
}
