package main

// Static summary of stores to shared state (C06 / C07): every assignment, op-assignment,
// ++/--, element store or append-back whose destination is a field of a method receiver, or a
// package-level variable, in the non-test source files of /repo; with the enclosing function,
// whether the store sits inside a function literal passed to (sync.Once).Do, and the receiver type.
// go/parser + go/ast only (syntactic; conservative classification is done on the Coq side).

import (
	"bytes"
	"fmt"
	"go/ast"
	"go/parser"
	"go/token"
	"os"
	"path/filepath"
	"sort"
	"strings"
)

type storeSite struct {
	pkg, recv, fn, target string
	inDo                  bool
	pkgLevel              bool
}

func scanStores() []storeSite {
	var sites []storeSite
	dirs := []string{"", "ast", "text", "util", "parser", "renderer", "renderer/html", "extension", "extension/ast"}
	for _, d := range dirs {
		dir := filepath.Join("/repo", d)
		fset := token.NewFileSet()
		pkgs, err := parser.ParseDir(fset, dir, func(fi os.FileInfo) bool {
			return !strings.HasSuffix(fi.Name(), "_test.go") && fi.Name() != "verif_export.go"
		}, 0)
		if err != nil {
			continue
		}
		for _, pkg := range pkgs {
			// package-level variable names
			globals := map[string]bool{}
			for _, f := range pkg.Files {
				for _, decl := range f.Decls {
					if gd, ok := decl.(*ast.GenDecl); ok && gd.Tok == token.VAR {
						for _, sp := range gd.Specs {
							for _, n := range sp.(*ast.ValueSpec).Names {
								globals[n.Name] = true
							}
						}
					}
				}
			}
			for _, f := range pkg.Files {
				for _, decl := range f.Decls {
					fd, ok := decl.(*ast.FuncDecl)
					if !ok || fd.Body == nil {
						continue
					}
					recvName, recvType := "", ""
					if fd.Recv != nil && len(fd.Recv.List) == 1 {
						if len(fd.Recv.List[0].Names) == 1 {
							recvName = fd.Recv.List[0].Names[0].Name
						}
						recvType = typeName(fd.Recv.List[0].Type)
					}
					// locals shadowing globals are ignored (syntactic approximation)
					var walk func(n ast.Node, inDo bool)
					record := func(lhs ast.Expr, inDo bool) {
						root, path := rootOf(lhs)
						if root == "" {
							return
						}
						if recvName != "" && root == recvName && path != "" {
							sites = append(sites, storeSite{pkg: d, recv: recvType, fn: fd.Name.Name, target: path, inDo: inDo})
						} else if globals[root] {
							sites = append(sites, storeSite{pkg: d, recv: recvType, fn: fd.Name.Name, target: root + path, inDo: inDo, pkgLevel: true})
						}
					}
					walk = func(n ast.Node, inDo bool) {
						ast.Inspect(n, func(x ast.Node) bool {
							switch v := x.(type) {
							case *ast.AssignStmt:
								if v.Tok != token.DEFINE {
									for _, l := range v.Lhs {
										record(l, inDo)
									}
								}
							case *ast.IncDecStmt:
								record(v.X, inDo)
							case *ast.CallExpr:
								if sel, ok := v.Fun.(*ast.SelectorExpr); ok && sel.Sel.Name == "Do" && len(v.Args) == 1 {
									if fl, ok := v.Args[0].(*ast.FuncLit); ok {
										walk(fl.Body, true)
										return false
									}
								}
							}
							return true
						})
					}
					walk(fd.Body, false)
				}
			}
		}
	}
	sort.Slice(sites, func(i, j int) bool {
		a, b := sites[i], sites[j]
		return a.pkg+a.recv+a.fn+a.target < b.pkg+b.recv+b.fn+b.target
	})
	return sites
}

func typeName(e ast.Expr) string {
	switch v := e.(type) {
	case *ast.StarExpr:
		return typeName(v.X)
	case *ast.Ident:
		return v.Name
	case *ast.IndexExpr:
		return typeName(v.X)
	}
	return "?"
}

// root identifier of an lvalue and the selector path below it (".field", ".a.b", with [] for indexing)
func rootOf(e ast.Expr) (string, string) {
	switch v := e.(type) {
	case *ast.Ident:
		return v.Name, ""
	case *ast.SelectorExpr:
		r, p := rootOf(v.X)
		return r, p + "." + v.Sel.Name
	case *ast.IndexExpr:
		r, p := rootOf(v.X)
		return r, p + "[]"
	case *ast.StarExpr:
		return rootOf(v.X)
	case *ast.ParenExpr:
		return rootOf(v.X)
	}
	return "", ""
}

func coqStr(s string) string { return coqBytes([]byte(s)) }

func dumpAccess(dir string) {
	sites := scanStores()
	var b bytes.Buffer
	b.WriteString(genHeader)
	b.WriteString("(* (package, receiver type, function, destination, inside a (sync.Once).Do closure, package-level variable) *)\n")
	b.WriteString("Definition store_sites : list (list N * list N * list N * list N * bool * bool) := [\n")
	seen := map[string]bool{}
	first := true
	for _, s := range sites {
		key := fmt.Sprint(s)
		if seen[key] {
			continue
		}
		seen[key] = true
		if !first {
			b.WriteString(";\n")
		}
		first = false
		fmt.Fprintf(&b, "(%s,%s,%s,%s,%v,%v) (* %s %s.%s %s *)", coqStr(s.pkg), coqStr(s.recv), coqStr(s.fn), coqStr(s.target), s.inDo, s.pkgLevel, s.pkg, s.recv, s.fn, s.target)
	}
	b.WriteString("].\n")
	writeIfChanged(filepath.Join(dir, "Access.v"), b.Bytes())
}
