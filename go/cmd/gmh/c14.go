package main

import (
	"bufio"
	"bytes"
	"errors"
	"fmt"
	"io"
	"strings"

	"github.com/yuin/goldmark/text"
)

func init() { runners["C14"] = runC14 }

var errFault = errors.New("injected writer fault")

// accepts bytes until `limit` bytes in total, then a short write plus error, then always fails
type faultWriter struct {
	acc    []byte
	limit  int // -1: never fails
	failed bool
	calls  int
}

func (w *faultWriter) Write(p []byte) (int, error) {
	w.calls++
	if w.limit < 0 {
		w.acc = append(w.acc, p...)
		return len(p), nil
	}
	if w.failed {
		return 0, errFault
	}
	if len(w.acc)+len(p) <= w.limit {
		w.acc = append(w.acc, p...)
		return len(p), nil
	}
	n := w.limit - len(w.acc)
	if n < 0 {
		n = 0
	}
	w.acc = append(w.acc, p[:n]...)
	w.failed = true
	return n, errFault
}

// destinations that offer more than io.Writer: a renderer that looks for a richer interface on
// the destination (to avoid double buffering, say) must report their failures all the same
type richFault struct{ faultWriter } // Write, WriteByte, WriteRune, WriteString: like a capped bytes.Buffer

func (w *richFault) WriteByte(b byte) error {
	_, err := w.Write([]byte{b})
	return err
}
func (w *richFault) WriteRune(r rune) (int, error) { return w.Write([]byte(string(r))) }
func (w *richFault) WriteString(s string) (int, error) { return w.Write([]byte(s)) }

type stringFault struct{ faultWriter } // io.Writer + io.StringWriter

func (w *stringFault) WriteString(s string) (int, error) { return w.Write([]byte(s)) }

type readFromFault struct{ faultWriter } // io.Writer + io.ReaderFrom

func (w *readFromFault) ReadFrom(r io.Reader) (int64, error) {
	var n int64
	buf := make([]byte, 512)
	for {
		k, err := r.Read(buf)
		if k > 0 {
			m, werr := w.Write(buf[:k])
			n += int64(m)
			if werr != nil {
				return n, werr
			}
		}
		if err == io.EOF {
			return n, nil
		}
		if err != nil {
			return n, err
		}
	}
}

// a complete util.BufWriter of the caller's own, unbuffered, with the sticky error of bufio.Writer:
// after the first failure every call fails and Flush reports it
type ownBufFault struct {
	richFault
	sticky error
}

func (w *ownBufFault) note(n int, err error) (int, error) {
	if err != nil && w.sticky == nil {
		w.sticky = err
	}
	return n, err
}
func (w *ownBufFault) Write(p []byte) (int, error) {
	if w.sticky != nil {
		return 0, w.sticky
	}
	return w.note(w.faultWriter.Write(p))
}
func (w *ownBufFault) WriteByte(b byte) error {
	_, err := w.Write([]byte{b})
	return err
}
func (w *ownBufFault) WriteRune(r rune) (int, error)     { return w.Write([]byte(string(r))) }
func (w *ownBufFault) WriteString(s string) (int, error) { return w.Write([]byte(s)) }
func (w *ownBufFault) Available() int                    { return 0 }
func (w *ownBufFault) Buffered() int                     { return 0 }
func (w *ownBufFault) Flush() error                      { return w.sticky }

func runC14(c *Ctx) {
	c.Rep.Rule = "a case is (buffer size, fault offset, write-call sequence) for the bufio model, or (configuration, document, writer kind, fault offset) for Convert; distinct by hash; non-trivial = the fault offset lies strictly inside the output"
	// ---- part 1: the bufio.Writer model against the real bufio.Writer ----
	nSeq := 3000
	if !c.Quick() {
		nSeq = 60000
	}
	sizes := []int{16, 17, 64, 4096}
	for i := 0; i < nSeq; i++ {
		size := sizes[c.R.Intn(len(sizes))]
		nOps := 1 + c.R.Intn(12)
		var ops []string
		total := 0
		type op struct {
			kind byte
			data []byte
		}
		var seq []op
		for o := 0; o < nOps; o++ {
			switch c.R.Intn(5) {
			case 0:
				seq = append(seq, op{'B', []byte{byte('a' + c.R.Intn(26))}})
			case 1:
				seq = append(seq, op{'R', []byte([]string{"é", "あ", "😀", "ß"}[c.R.Intn(4)])})
			default:
				l := c.R.Intn(3 * size / 2)
				if c.R.Intn(3) == 0 {
					l = c.R.Intn(8)
				}
				d := make([]byte, l)
				for j := range d {
					d[j] = byte('A' + (total+j)%26)
				}
				k := byte('W')
				if c.R.Bool() {
					k = 'S'
				}
				seq = append(seq, op{k, d})
			}
			total += len(seq[len(seq)-1].data)
		}
		limit := -1
		if c.R.Intn(5) > 0 {
			limit = c.R.Intn(total + 3)
		}
		fw := &faultWriter{limit: limit}
		bw := bufio.NewWriterSize(fw, size)
		var obs []string
		var full []byte
		for _, o := range seq {
			switch o.kind {
			case 'B':
				bw.WriteByte(o.data[0])
			case 'R':
				r := []rune(string(o.data))[0]
				bw.WriteRune(r)
			case 'S':
				bw.WriteString(string(o.data))
			default:
				bw.Write(o.data)
			}
			full = append(full, o.data...)
			ops = append(ops, string(o.kind)+hx(o.data))
			obs = append(obs, fmt.Sprintf("%d,%d", len(fw.acc), bw.Buffered()))
		}
		err := bw.Flush()
		obs = append(obs, fmt.Sprintf("%d,%d,%s", len(fw.acc), bw.Buffered(), btoa(err != nil)))
		if !bytes.HasPrefix(full, fw.acc) {
			c.Violate("bufio-prefix", map[string]interface{}{"size": size, "limit": limit, "ops": strings.Join(ops, " ")}, "accepted bytes are not a prefix", "bufio-prefix")
		}
		c.Case("Bufio", []string{itoa(size), itoa(limit), strings.Join(ops, " ")}, strings.Join(obs, "|")+"|"+hx(fw.acc))
		c.Count("bufio-sequences", fmt.Sprintf("%d/%d/%s", size, limit, strings.Join(ops, " ")), limit > 0 && limit < total)
		if i < 3 {
			c.Sample(map[string]interface{}{"size": size, "limit": limit, "ops": strings.Join(ops, " ")})
		}
	}
	// ---- part 2: Convert / Render against failing destinations ----
	cfgs := []Cfg{{Ext: "core"}, {Ext: "gfm", XHTML: true}, {Ext: "all", Unsafe: true, AutoID: true}}
	long := strings.Repeat("word ", 2500) // one text run far beyond the 4096-byte buffer
	docs := []string{"", "a", "# h\n\npara *em* `c`\n", "- a\n- b\n\n> q\n", long, "# t\n\n" + long + "\n\n- x\n", strings.Repeat("para\n\n", 900), strings.Repeat("*a* ", 1100),
		"|a|b|\n|-|-|\n|c|d|\n", "```\n" + strings.Repeat("code line\n", 500) + "```\n", "[^1]\n\n[^1]: note\n", "<div>\n" + strings.Repeat("x", 5000) + "\n</div>\n"}
	// more than one buffer of output, then every kind of node: a renderer function that looks at
	// the writer's error itself does so only after an earlier flush has failed
	for _, tail := range []string{"```go\ncode\n```\n", "    indented\n", "# heading\n", "> quote\n", "- item\n- item\n", "1. a\n2. b\n", "***\n", "<div>\nraw\n</div>\n", "*e* **s** `c` [l](/u \"t\") ![i](/s) <http://a.b> <b>r</b> a  \nb\n",
		"|a|b|\n|:-|-:|\n|c|d|\n", "- [ ] t\n- [x] u\n", "~~d~~ www.a.b\n", "x[^1]\n\n[^1]: n\n", "term\n: def\n", "\"q\" -- ...\n", "h\n===\n", "t {#i .c}\n---\n"} {
		docs = append(docs, strings.Repeat("filler paragraph text\n\n", 260)+tail, tail+strings.Repeat("filler paragraph text\n\n", 260)+tail)
	}
	corp := corpusDocs()
	nCorp := 40
	if !c.Quick() {
		nCorp = 600
	}
	for i := 0; i < nCorp; i++ {
		docs = append(docs, string(corp[c.R.Intn(len(corp))]))
	}
	for _, cf := range cfgs {
		md := cf.Build()
		for di, d := range docs {
			src := []byte(d)
			fullOut, errS, panicS := convertSafe(md, src)
			if errS != "" || panicS != "" {
				continue // C01's business
			}
			n := len(fullOut)
			// offsets: all of them for small outputs, stratified for large ones
			var ks []int
			if n <= 300 {
				for k := 0; k <= n+1; k++ {
					ks = append(ks, k)
				}
			} else {
				ks = []int{0, 1, 2, 7, 100, 1000, n - 1, n, n + 1, 4095, 4096, 4097, 8191, 8192, 8193, n / 2}
				for j := 0; j < 25; j++ {
					ks = append(ks, c.R.Intn(n+2))
				}
				for m := 4096; m < n; m += 4096 {
					ks = append(ks, m-1, m, m+1)
				}
			}
			for _, k := range ks {
				if k < 0 {
					continue
				}
				for kind := 0; kind < 7; kind++ {
					fw := &faultWriter{limit: k}
					var dst io.Writer
					switch kind {
					case 3:
						x := &richFault{faultWriter{limit: k}}
						fw, dst = &x.faultWriter, x
					case 4:
						x := &stringFault{faultWriter{limit: k}}
						fw, dst = &x.faultWriter, x
					case 5:
						x := &readFromFault{faultWriter{limit: k}}
						fw, dst = &x.faultWriter, x
					case 6:
						x := &ownBufFault{richFault: richFault{faultWriter{limit: k}}}
						fw, dst = &x.faultWriter, x
					}
					var err error
					var pan string
					func() {
						defer func() {
							if r := recover(); r != nil {
								pan = fmt.Sprint(r)
							}
						}()
						switch kind {
						case 0: // plain io.Writer through Convert
							err = md.Convert(src, fw)
						case 1: // caller-supplied bufio.Writer (a BufWriter) through Convert
							err = md.Convert(src, bufio.NewWriterSize(fw, []int{16, 64, 4096}[k%3]))
						case 2: // Parse, then Render
							doc := md.Parser().Parse(text.NewReader(src))
							err = md.Renderer().Render(fw, src, doc)
						default: // destinations with richer interfaces, alternately through Convert and Render
							if k%2 == 0 {
								err = md.Convert(src, dst)
							} else {
								doc := md.Parser().Parse(text.NewReader(src))
								err = md.Renderer().Render(dst, src, doc)
							}
						}
					}()
					in := map[string]interface{}{"config": cf.Name(), "source": q(src[:min(len(src), 200)]), "source_len": len(src), "fault_offset": k, "writer": []string{"io.Writer", "caller bufio.Writer", "Parse+Render", "Write+WriteByte+WriteRune+WriteString", "io.StringWriter", "io.ReaderFrom", "caller's own BufWriter (sticky error)"}[kind]}
					switch {
					case pan != "":
						c.Violate("writer-fault-panic", in, pan, "writer-fault-panic")
					case !bytes.HasPrefix(fullOut, fw.acc):
						c.Violate("writer-fault-prefix", in, fmt.Sprintf("accepted %d bytes that are not a prefix of the full output", len(fw.acc)), "writer-fault-prefix")
					case k < n && err == nil:
						c.Violate("writer-fault-unreported", in, fmt.Sprintf("the writer failed at offset %d of %d but Convert returned nil", k, n), "writer-fault-unreported")
					case k < n && !errors.Is(err, errFault):
						c.Violate("writer-fault-wrong-error", in, fmt.Sprintf("returned error %v does not wrap the writer's error", err), "writer-fault-wrong-error")
					case k >= n && err != nil:
						c.Violate("writer-fault-spurious", in, fmt.Sprintf("error %v although the writer never failed", err), "writer-fault-spurious")
					case k >= n && !bytes.Equal(fw.acc, fullOut):
						c.Violate("writer-fault-incomplete", in, "no error but the output is incomplete", "writer-fault-incomplete")
					}
					c.Count("convert-faults", fmt.Sprintf("%s/%d/%d/%d", cf.Name(), di, k, kind), k > 0 && k < n)
				}
			}
		}
	}
}
