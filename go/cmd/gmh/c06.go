package main

import (
	"bytes"
	"encoding/hex"
	"fmt"
	"github.com/yuin/goldmark/ast"
	"os"
	"os/exec"
	"strings"

	"github.com/yuin/goldmark/text"
)

func init() { runners["C06"] = runC06 }

var c06Stateful = []string{
	"[foo]: /url \"t\"\n\n[foo]\n", "[foo]\n", "# Title\n\n# Title\n", "# Title\n", "text[^1]\n\n[^1]: note\n", "again[^1]\n", "[^1]: orphan\n",
	"he said \"never mind\n", "6 feet 2\" tall\n", "'tis 'quoted' and \"double\"\n", "a -- b --- c...\n",
	"|a|b|\n|:-|-:|\n|c|d|\n", "|x|\n|:-:|\n", "```go\ncode\n```\n", "``` rust extra\nx\n```\n", "- [ ] a\n- [x] b\n", "t\n: d\n", "~~s~~ http://a.b\n",
	// one family of HTML tag names in every position where the block kind (6 or 7) or the case of
	// the name matters, so that a name met in one position is met again in another
	"<Foo> x\n", "para\n<Foo>\nmore\n", "</Foo a=\"b\">\nx\n", "<Foo>\n*x*\n\ny\n", "para\n</Foo>\nmore\n", "<foo>\nx\n", "para\n<foo>\nmore\n",
	"<DIV> x\n", "para\n<DIV>\nmore\n", "<Div\n", "para\n<Div>\nmore\n", "<MyPanel k=v>\n", "para\n<MyPanel>\nmore\n", "para\n<sCript>\nmore\n", "<sCript> x\n",
	"<Foo>\n", "- <Foo> x\n- para\n  <Foo>\n", "> <Foo> x\n\npara\n<Foo>\n",
	"[x](javascript:alert(1))\n", "![i](vbscript:x \"t\")\n", "<javascript:a>\n", "[r]: data:text/html,x\n\n[r]\n", "[y](file:///etc/passwd) [z](/ok)\n",
	"[a](/u \"line1\nline2\")\n", "[r]: /u 'x\ny'\n\n[r]\n", "![i](/s \"p\nq\")\n", "[foo\nbar]: /u\n\n[foo bar]\n", "[b](/v \"other\ntitle\")\n", "it's 'open\n", "closed' here\n", "say \"open\n", "end\" now\n",
	"\ufeff# Title\n", "\ufefftext\n", "# h {#custom}\n\n# h\n", "![i][foo]\n\n[foo]: /img\n", "<div>\nraw\n</div>\n", "*a **b** c*\n", "> q\n> r\n", "1. x\n2. y\n",
}

func c06BaselineDocs() [][]byte {
	var out [][]byte
	for _, a := range c06Stateful {
		out = append(out, []byte(a))
	}
	for _, a := range c06Stateful {
		for _, b := range c06Stateful {
			out = append(out, []byte(a+b))
		}
	}
	return out
}

func runC06(c *Ctx) {
	c.Rep.Rule = "a case is (configuration, history of earlier documents, document): the long-used instance's output must equal a fresh instance's, Convert must equal Parse+Render, and re-rendering a tree must give the same bytes and leave the tree unchanged; distinct by hash; non-trivial = the history has >= 2 calls and a document with references, ids, footnotes, quotes or tables"
	cfgs := []Cfg{{Ext: "core"}, {Ext: "gfm"}, {Ext: "all", AutoID: true, Attr: true}, {Ext: "all", Unsafe: true, XHTML: true}, {Ext: "typo"}, {Ext: "footnote", AutoID: true}, {Ext: "table", TableAlign: 2}, {Ext: "table", TableAlign: 1}, {Ext: "gfm", XHTML: true}, {Ext: "cjk"}, {Ext: "footnote", FnPrefix: "article1-"}, {Ext: "gfm+footnote", FnPrefix: "p-", FnPrefixFunc: true}, {Ext: "all", Opts: true}, {Ext: "typo", Opts: true}}
	nHist := 250
	histLen := 12
	if !c.Quick() {
		nHist, histLen = 6000, 30
	}
	corp := corpusDocs()
	// the first output seen in this process for (configuration, document): no later conversion
	// of the same document, on a used or a fresh instance, may differ from it (state kept in
	// package-level variables is shared by fresh instances too)
	firstOut := map[string][]byte{}
	// baseline from fresh processes: one child process per configuration converts every stateful
	// document (and every ordered pair of two) once, each on a fresh instance, before this
	// process has used any other configuration
	if idx := os.Getenv("GMH_C06_CHILD"); idx != "" {
		var k int
		fmt.Sscan(idx, &k)
		cf := cfgs[k]
		var sb strings.Builder
		for _, d := range c06BaselineDocs() {
			o, e, p := convertSafe(cf.Build(), d)
			if e != "" || p != "" {
				continue
			}
			sb.WriteString(hex.EncodeToString(d) + " " + hex.EncodeToString(o) + "\n")
		}
		os.WriteFile(c.OutDir+"/baseline.txt", []byte(sb.String()), 0o644)
		return
	}
	self, _ := os.Executable()
	for k, cf := range cfgs {
		dir := fmt.Sprintf("%s/child%d", c.OutDir, k)
		cmd := exec.Command(self, "run", "C06", "--tier", c.Tier, "--seed", fmt.Sprint(c.Seed), "--out", dir)
		cmd.Env = append(os.Environ(), fmt.Sprintf("GMH_C06_CHILD=%d", k))
		if out, err := cmd.CombinedOutput(); err != nil {
			panic(fmt.Sprintf("C06 baseline child %d: %v %s", k, err, out))
		}
		b, _ := os.ReadFile(dir + "/baseline.txt")
		for _, ln := range strings.Split(string(b), "\n") {
			f := strings.Fields(ln + " ")
			if len(f) == 0 {
				continue
			}
			d, _ := hex.DecodeString(f[0])
			var o []byte
			if len(f) > 1 {
				o, _ = hex.DecodeString(f[1])
			}
			firstOut[cf.Name()+"\x00"+string(d)] = o
		}
		c.Rep.Streams["fresh-process-baselines"]++
	}
	pick := func() []byte {
		switch c.R.Intn(6) {
		case 4:
			return []byte(matrixBlock(c.R))
		case 5:
			return matrixPair(c.R)
		case 0:
			return []byte(c.R.PickS(c06Stateful))
		case 1:
			return corp[c.R.Intn(len(corp))]
		case 2:
			return randLineDoc(c.R, 6)
		default:
			return append([]byte(c.R.PickS(c06Stateful)), []byte(c.R.PickS(c06Stateful))...)
		}
	}
	// scripted histories, every ordered pair (A, B) of the stateful documents on one instance:
	// parse A and keep its tree, convert B, render A's tree again.  B's output must be that of a
	// fresh instance; A's tree must render as it did at first.
	for ci, cf := range cfgs {
		if c.Quick() && ci >= 8 {
			break
		}
		for ai, a := range c06Stateful {
			for bi, b := range c06Stateful {
				if c.Quick() && (ai+bi+ci)%3 != 0 {
					continue
				}
				func() {
					defer func() { recover() }()
					used := cf.Build()
					da, db := []byte(a), []byte(b)
					in := map[string]interface{}{"config": cf.Name(), "history": []string{q(da), q(db)}}
					ta := used.Parser().Parse(text.NewReader(da))
					var o1 bytes.Buffer
					if used.Renderer().Render(&o1, da, ta) != nil {
						return
					}
					var ob bytes.Buffer
					if used.Convert(db, &ob) != nil {
						return
					}
					if fresh, e, p := convertSafe(cf.Build(), db); e == "" && p == "" && !bytes.Equal(fresh, ob.Bytes()) {
						c.Violate("history-dependence", in, fmt.Sprintf("after %.80q the instance gives %.250q for %.80q, a fresh one %.250q", da, ob.Bytes(), db, fresh), "history-dependence")
					}
					var o2 bytes.Buffer
					if used.Renderer().Render(&o2, da, ta) == nil && !bytes.Equal(o1.Bytes(), o2.Bytes()) {
						c.Violate("stale-tree-rerender-differs", in, fmt.Sprintf("the tree of %.80q renders %.250q after %.80q was converted; it rendered %.250q at first", da, o2.Bytes(), db, o1.Bytes()), "stale-tree-rerender-differs")
					}
					// interleaved: B converted by the writer while A's output is half written
					if seqA, e, p := convertSafe(cf.Build(), da); e == "" && p == "" && len(seqA) > 0 {
						var outB bytes.Buffer
						w := &reentrantWriter{atLen: len(seqA) / 2, f: func() { _ = used.Convert(db, &outB) }}
						if used.Convert(da, w) == nil {
							seqB, _, _ := convertSafe(cf.Build(), db)
							if !bytes.Equal(w.buf.Bytes(), seqA) || !bytes.Equal(outB.Bytes(), seqB) {
								c.Violate("interleaved-renderings-differ", in, fmt.Sprintf("converting %.80q inside the writer of %.80q gives %.200q and %.200q; one after the other %.200q and %.200q", db, da, w.buf.Bytes(), outB.Bytes(), seqA, seqB), "interleaved-renderings-differ")
							}
						}
					}
					c.Count("scripted-pairs", cf.Name()+a+"\x00"+b, true)
				}()
			}
		}
	}
	// histories of the different configurations are interleaved: state shared between instances
	// of different configurations (package-level variables, shared parser or renderer objects)
	// shows as a difference from the first output of the process
	for h := 0; h < nHist; h++ {
		for _, cf := range cfgs {
			used := cf.Build()
			var history []string
			// a tree parsed earlier stays valid: it is rendered again after later calls
			var keptTree ast.Node
			var keptSrc, keptOut []byte
			for k := 0; k < 1+c.R.Intn(histLen); k++ {
				d := pick()
				history = append(history, q(d))
				in := map[string]interface{}{"config": cf.Name(), "history": history}
				mode := c.R.Intn(3)
				var got []byte
				var doc interface{}
				_ = doc
				ok := true
				func() {
					defer func() {
						if r := recover(); r != nil {
							ok = false
						}
					}()
					switch mode {
					case 0:
						var b bytes.Buffer
						if used.Convert(d, &b) != nil {
							ok = false
						}
						got = b.Bytes()
					default:
						tree := used.Parser().Parse(text.NewReader(d))
						if keptTree != nil {
							var b bytes.Buffer
							if used.Renderer().Render(&b, keptSrc, keptTree) == nil && !bytes.Equal(b.Bytes(), keptOut) {
								c.Violate("stale-tree-rerender-differs", in, fmt.Sprintf("a tree of %.120q parsed earlier renders %.200q after later calls on the instance; it rendered %.200q at first", keptSrc, b.Bytes(), keptOut), "stale-tree-rerender-differs")
							}
						}
						before, _ := dumpTree(tree, d)
						var outs [][]byte
						for r := 0; r < 1+c.R.Intn(4); r++ {
							var b bytes.Buffer
							if used.Renderer().Render(&b, d, tree) != nil {
								ok = false
							}
							outs = append(outs, b.Bytes())
						}
						got = outs[0]
						keptTree, keptSrc, keptOut = tree, d, outs[0]
						for r := 1; r < len(outs); r++ {
							if !bytes.Equal(outs[r], outs[0]) {
								c.Violate("rerender-differs", in, fmt.Sprintf("rendering %d of the same tree gives %.200q, the first gave %.200q", r+1, outs[r], outs[0]), "rerender-differs")
							}
						}
						after, _ := dumpTree(tree, d)
						if before != after {
							c.Violate("render-alters-tree", in, fmt.Sprintf("tree dump before rendering %.300s, after %.300s", before, after), "render-alters-tree")
						}
					}
				}()
				if !ok {
					continue
				}
				if cf.Ext != "all" && cf.Ext != "cjk" && cf.FnPrefix == "" && k == 0 && h%5 == 0 {
					// tie of the renderer model (rendering is a function of options, source and tree)
					if args, res, okc := treeCase(used, cf, d); okc {
						c.Case("RenderTree", args, res)
					}
				}
				fresh, e, p := convertSafe(cf.Build(), d)
				if e != "" || p != "" {
					continue
				}
				fk := cf.Name() + "\x00" + string(d)
				if f0, seen := firstOut[fk]; !seen {
					if len(firstOut) < 200000 {
						firstOut[fk] = fresh
					}
				} else if !bytes.Equal(f0, fresh) {
					c.Violate("process-state-dependence", in, fmt.Sprintf("a fresh instance gives %.250q for %.120q; the first conversion of the same document in this process gave %.250q", fresh, d, f0), "process-state-dependence")
				}
				if !bytes.Equal(got, fresh) {
					kind := "history-dependence"
					if len(history) == 1 {
						kind = "convert-vs-parse-render"
					}
					c.Violate(kind, in, fmt.Sprintf("long-used instance (mode %d) gives %.250q, a fresh Convert gives %.250q", mode, got, fresh), kind)
				}
				c.Count("histories", cf.Name()+fmt.Sprint(history), len(history) >= 2)
			}
			if h < 1 {
				c.Sample(map[string]interface{}{"config": cf.Name(), "history": history})
			}
		}
	}
}
