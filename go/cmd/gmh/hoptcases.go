package main

// Correspondence cases for the model of the default parser with the heading options
// (coq/model/HeadingOpts.v, HeadingOptsI.v): goldmark with parser.WithAttribute() and / or
// parser.WithAutoHeadingID() is run on a document; the tree dump (with the attributes of the
// nodes) and the bytes of Convert are what ocaml/dispatch3.ml re-computes from the extracted
// model.
//
// Case kinds:
//   ParseTreeH  opts src        => tree dump of goldmark.New(WithParserOptions(opts)).Parser().Parse
//   ConvertH    opts rcfg src   => bytes of Convert of the same with the renderer options rcfg
// opts: a = parser.WithAttribute(), i = parser.WithAutoHeadingID(), "-" = neither

import (
	"strings"

	"github.com/yuin/goldmark"
	"github.com/yuin/goldmark/parser"
	"github.com/yuin/goldmark/renderer"
	"github.com/yuin/goldmark/renderer/html"
)

var hoptMDs = map[string]goldmark.Markdown{}

var hoptSets = []string{"ai", "a", "i", "-"}

func hoptMarkdown(opts string, cf Cfg) goldmark.Markdown {
	key := opts + "/" + rcfgStr(cf)
	if md, ok := hoptMDs[key]; ok {
		return md
	}
	var po []parser.Option
	if strings.Contains(opts, "a") {
		po = append(po, parser.WithAttribute())
	}
	if strings.Contains(opts, "i") {
		po = append(po, parser.WithAutoHeadingID())
	}
	var ro []renderer.Option
	if cf.Unsafe {
		ro = append(ro, html.WithUnsafe())
	}
	if cf.XHTML {
		ro = append(ro, html.WithXHTML())
	}
	if cf.HardWraps {
		ro = append(ro, html.WithHardWraps())
	}
	md := goldmark.New(goldmark.WithParserOptions(po...), goldmark.WithRendererOptions(ro...))
	hoptMDs[key] = md
	return md
}

func parseTreeHCase(c *Ctx, opts string, src []byte) {
	if len(src) > 600 {
		return
	}
	c.Case("ParseTreeH", []string{opts, hx(src)}, gfmParseResult(hoptMarkdown(opts, Cfg{}), src))
}

func convertHCase(c *Ctx, opts string, cf Cfg, src []byte) {
	if len(src) > 600 {
		return
	}
	c.Case("ConvertH", []string{opts, rcfgStr(cf), hx(src)}, gfmConvertResult(hoptMarkdown(opts, cf), src))
}

// headingOptModelCases: the documents of a run (each once, up to max, at most 600 bytes): the
// tree with both options, the tree with one of the other three option sets, and Convert with
// one of the four option sets and one of the renderer configurations
func headingOptModelCases(c *Ctx, items []docItem, max int) {
	seen := map[string]bool{}
	n := 0
	items = roundRobin(items)
	for i, it := range items {
		if n >= max {
			break
		}
		if len(it.doc) > 600 || seen[string(it.doc)] {
			continue
		}
		seen[string(it.doc)] = true
		n++
		parseTreeHCase(c, "ai", it.doc)
		parseTreeHCase(c, hoptSets[1+i%3], it.doc)
		convertHCase(c, hoptSets[i%len(hoptSets)], convertCfgs[(i/len(hoptSets))%len(convertCfgs)], it.doc)
	}
	c.Rep.Extra["heading_opt_model_documents"] = n
}

// ---------- headings with attribute blocks in every position ----------

var hoptTexts = []string{"a", "a", "b c", "Title", "heading", "a-1", "1", "x\\{y", "\\{#e}", "a \\{", "a \\", "x\\", "*em*", "`c {#x}`", "[l](/u)", "<b>", "&amp;",
	"", " ", "é", "あ", "a#b", "a #", "a ##", "#", "\\#", "a \\# b", "a\tb", "\xff", "x\xffy", "{", "}", "a } b", "a { b", "\\\\{#z}", "\\\\", "a\\ # b"}

var hoptBlocks = []string{"{#a}", "{#a}", "{#b}", "{#heading}", "{#heading-1}", "{#a-1}", "{#a-2}", "{#1}", "{.c}", "{.c .d}", "{#a .c k=v}", "{.c #b}",
	"{id=1}", "{id=-1.5e3}", "{id=true}", "{id=false}", "{id=null}", "{id=[a]}", "{id=[]}", "{id={#n}}", "{id=\"q\"}", "{id=\"\"}", "{id=x}", "{id=heading}", "{ID=x}", "{id=1 #z}", "{#z id=1}",
	"{k=v}", "{}", "{ }", "{  #a  }", "{,}", "{#a,.c}", "{#a", "#a}", "{", "}", "{#a}}", "{{#a}}", "{k={#x}}", "{k=[{#x}]}", "{k=\"{#x}\"}", "\\{#a}", "{#a\\}", "{\\#a}",
	"{#a} ", "{#a}\t", "{#a}  \t ", "{title=\"T\" data-x=1 onclick=z}", "{class=x .y}", "{class=\"p q\" class=r}", "{class=1}", "{#a #b}", "{#é}", "{#}", "{.}", "{#a.b}", "{#a:b_c-d}", "{#a!}",
	"{lang=en dir=\"ltr\" hidden=true tabindex=3}", "{style=\"color:red\"}", "{data-a=\"<&>\\\"\"}", "{accesskey=k}", "{k=\"unterminated}", "{k=[1,}", "{k=}", "{=v}", "{k}", "{k v}", "{\xff}", "{#x\xff}", "{k=\"\xff\"}"}

// blocks that run over a line end (the reader of Open is the source reader)
var hoptMultiLine = []string{"{#a\n}", "{\n#a}", "{#a\n} x", "{#a\n\n}", "{k=\"v\n\"}", "{#a\n}\n", "{#a\n  }", "{#a\n> }", "{#a\n- }", "{.c\n.d}", "{#a\n#b}", "{#a \n}", "{#a\n", "{\n", "{\n\n}", "{#a\n}}", "{k=[1,\n2]}"}

func hoptText(r *RNG) string { return r.PickS(hoptTexts) }

func hoptBlock(r *RNG, atx bool) string {
	if atx && r.Intn(9) == 0 {
		return r.PickS(hoptMultiLine)
	}
	if r.Intn(6) == 0 {
		// an attribute block put together from fragments
		n := r.Intn(5)
		b := "{"
		for k := 0; k < n; k++ {
			b += r.PickS(attrFrags)
			b += r.PickS([]string{"", " ", " ", ",", ", "})
		}
		if r.Intn(5) != 0 {
			b += "}"
		}
		return strings.ReplaceAll(b, "\n", " ")
	}
	return r.PickS(hoptBlocks)
}

// one heading (with its line end)
func hoptHeading(r *RNG) string {
	t := hoptText(r)
	sp := r.PickS([]string{" ", " ", " ", "", "  ", "\t"})
	hashes := strings.Repeat("#", 1+r.Intn(6))
	if r.Intn(40) == 0 {
		hashes = "#######"
	}
	closer := strings.Repeat("#", 1+r.Intn(3))
	switch r.Intn(16) {
	case 0: // ATX, block at the end
		return hashes + " " + t + sp + hoptBlock(r, true) + "\n"
	case 1: // ATX with a closing sequence, block behind it
		return hashes + " " + t + " " + closer + sp + hoptBlock(r, true) + "\n"
	case 2: // block before the closing sequence
		return hashes + " " + t + sp + hoptBlock(r, true) + " " + closer + "\n"
	case 3: // several blocks
		return hashes + " " + t + sp + hoptBlock(r, true) + sp + hoptBlock(r, true) + "\n"
	case 4: // block, then text
		return hashes + " " + hoptBlock(r, true) + sp + t + "\n"
	case 5: // blocks on both sides of the closing sequence
		return hashes + " " + t + sp + hoptBlock(r, true) + " " + closer + sp + hoptBlock(r, true) + "\n"
	case 6: // nothing but a block
		return hashes + sp + hoptBlock(r, true) + "\n"
	case 7: // closing sequence only, then a block
		return hashes + " " + closer + sp + hoptBlock(r, true) + "\n"
	case 8: // escaped closing sequence, several closing sequences
		return hashes + " " + t + r.PickS([]string{" \\# ", " \\## ", " # # ", " #\\# ", " ## b ## ", "\\ # "}) + hoptBlock(r, true) + "\n"
	case 9: // Setext, block at the end of the last line
		if strings.TrimSpace(t) == "" {
			t = "s"
		}
		return t + sp + hoptBlock(r, false) + "\n" + r.PickS([]string{"===", "---", "=", "-", "  ===  ", "==="}) + "\n"
	case 10: // Setext over two lines, block on the last / on the first / on both
		if strings.TrimSpace(t) == "" {
			t = "s"
		}
		switch r.Intn(3) {
		case 0:
			return "first\n" + t + sp + hoptBlock(r, false) + "\n---\n"
		case 1:
			return t + sp + hoptBlock(r, false) + "\nlast\n===\n"
		default:
			return t + sp + hoptBlock(r, false) + "\nlast " + hoptBlock(r, false) + "\n===\n"
		}
	case 11: // Setext whose last line is nothing but a block, or a block followed by text
		return r.PickS([]string{"", "first\n", "[r]: /u\n"}) + hoptBlock(r, false) + r.PickS([]string{"", " x", "  "}) + "\n===\n"
	case 12: // plain headings whose automatic ids collide with the explicit ones
		return hashes + " " + r.PickS([]string{"a", "A", "b", "heading", "", "a 1", "a-1", "heading 1", "z", "1"}) + "\n"
	case 13: // a plain Setext heading of that kind
		return r.PickS([]string{"a", "A", "b", "heading", "a 1", "a-1", "heading-1", "z", "!!!"}) + "\n" + r.PickS([]string{"===", "---"}) + "\n"
	case 14: // no line end after the hashes, or a heading without anything
		return hashes + r.PickS([]string{"", " ", "  ", "\t", " #", " # ", " #\t{#a}"}) + "\n"
	default: // a value of the C15 generator with a block
		v := strings.ReplaceAll(strings.ReplaceAll(r.PickS(c15Values), "\n", " "), "\r", " ")
		return hashes + " " + v + sp + hoptBlock(r, true) + "\n"
	}
}

func hoptIndent(s, first, rest string) string {
	lines := strings.Split(strings.TrimSuffix(s, "\n"), "\n")
	for i := range lines {
		if i == 0 {
			lines[i] = first + lines[i]
		} else {
			lines[i] = rest + lines[i]
		}
	}
	return strings.Join(lines, "\n") + "\n"
}

func hoptDoc(r *RNG) []byte {
	var sb strings.Builder
	for k := 1 + r.Intn(4); k > 0; k-- {
		h := hoptHeading(r)
		switch r.Intn(12) {
		case 0:
			h = hoptIndent(h, "> ", "> ")
		case 1:
			h = hoptIndent(h, "- ", "  ")
		case 2:
			h = hoptIndent(h, "1. ", "   ")
		case 3:
			h = hoptIndent(h, "> - ", ">   ")
		case 4:
			h = hoptIndent(h, "- > ", "  > ")
		case 5:
			h = hoptIndent(h, r.PickS([]string{" ", "  ", "   "}), "")
		case 6:
			h = hoptIndent(h, "-\t", "\t")
		case 7:
			h = hoptIndent(h, "> ", "") // lazy continuation
		}
		sb.WriteString(h)
		switch r.Intn(6) {
		case 0:
			sb.WriteString("\n")
		case 1:
			sb.WriteString("text\n\n")
		case 2:
			sb.WriteString("text\n")
		}
	}
	d := sb.String()
	switch r.Intn(10) {
	case 0:
		d = strings.TrimSuffix(d, "\n")
	case 1:
		d = d[:r.Intn(len(d)+1)]
	case 2:
		d = strings.ReplaceAll(d, "\n", "\r\n")
	}
	return []byte(d)
}

func hoptMkHeading(r *RNG, v string) string {
	v = strings.ReplaceAll(strings.ReplaceAll(v, "\n", " "), "\r", " ")
	switch r.Intn(5) {
	case 0:
		if strings.TrimSpace(v) != "" {
			return v + "\n===\n\n"
		}
		return "# " + v + "\n\n"
	case 1:
		return "> ## " + v + "\n\n"
	case 2:
		return "- ### " + v + "\n\n"
	case 3:
		return "###### " + v + " ######\n\n"
	default:
		return "# " + v + "\n\n"
	}
}

// hoptDocs feeds f with the common document streams, the heading documents of C15 and the
// documents of the generator above
func hoptDocs(c *Ctx, n int, f func(stream string, doc []byte)) {
	for _, e := range loadSpec() {
		f("spec", []byte(e.Markdown))
	}
	docStreams(c, docOpts{blockLines: 2, randLines: n, corpus: true, random: n, mutants: n / 4}, f)
	for i := 0; i < n; i++ {
		var doc strings.Builder
		for h := 1 + c.R.Intn(6); h > 0; h-- {
			doc.WriteString(hoptMkHeading(c.R, c.R.PickS(c15Values)))
			if c.R.Intn(3) == 0 {
				doc.WriteString("text\n\n")
			}
		}
		f("c15-headings", []byte(doc.String()))
	}
	for i := 0; i < 2*n; i++ {
		f("heading-attribute-positions", hoptDoc(c.R))
	}
	// every single heading form with every block (systematic)
	for _, b := range append(append([]string{}, hoptBlocks...), hoptMultiLine...) {
		for _, form := range []string{"# t %s\n", "# t # %s\n", "# t %s #\n", "# %s t\n", "# %s\n", "# # %s\n", "t %s\n===\n", "%s\n---\n", "# t %s\n# t\n# a\n", "> # t # %s\nx\n", "- # t # %s\n  x\n", "# t #%s\n", "#  t  ##  %s  \n"} {
			f("heading-attribute-forms", []byte(strings.Replace(form, "%s", b, 1)))
		}
	}
}

// experiment runner: heading-option model cases only
func init() {
	runners["HX"] = func(c *Ctx) {
		n := 3000
		if !c.Quick() {
			n = 40000
		}
		var items []docItem
		hoptDocs(c, n, func(stream string, doc []byte) {
			if len(doc) <= 600 {
				items = append(items, docItem{stream, doc})
				c.Rep.Streams[stream]++
			}
		})
		headingOptModelCases(c, items, len(items))
	}
}
