package main

// Shared document pipeline: configuration lattice, corpus, generators.

import (
	"bytes"
	"encoding/json"
	"fmt"
	"os"
	"path/filepath"
	"strings"
	"time"
	"unicode"
	"unicode/utf8"

	"github.com/yuin/goldmark"
	"github.com/yuin/goldmark/ast"
	"github.com/yuin/goldmark/extension"
	"github.com/yuin/goldmark/parser"
	"github.com/yuin/goldmark/renderer/html"
)

type Cfg struct {
	Ext        string // core gfm strike table task linkify deflist footnote typo cjk cjkcss3 cjkesc all
	AutoID     bool
	Attr       bool
	Unsafe     bool
	XHTML      bool
	HardWraps  bool
	TableAlign int // 0 default 1 attribute 2 style 3 none
	// footnote id prefix: "" none; otherwise the text of the prefix; FnPrefixFunc passes it through
	// WithFootnoteIDPrefixFunction (a slice with spare capacity, never written by the harness)
	FnPrefix     string
	FnPrefixFunc bool
	// Opts: the extensions are built with their own options set (footnote link / back-link titles
	// with the ^^ and %% placeholders and a back-link text, further Linkify protocols including
	// dangerous ones, Typographer substitutions with some disabled and some replaced)
	Opts bool
}

func (c Cfg) Name() string {
	s := c.Ext
	for _, f := range []struct {
		on bool
		n  string
	}{{c.AutoID, "autoid"}, {c.Attr, "attr"}, {c.Unsafe, "unsafe"}, {c.XHTML, "xhtml"}, {c.HardWraps, "hardwraps"}} {
		if f.on {
			s += "+" + f.n
		}
	}
	if c.TableAlign != 0 {
		s += fmt.Sprintf("+align%d", c.TableAlign)
	}
	if c.Opts {
		s += "+extopts"
	}
	if c.FnPrefix != "" {
		s += "+fnprefix=" + c.FnPrefix
		if c.FnPrefixFunc {
			s += "(func)"
		}
	}
	return s
}

// the Footnote extension of a configuration
func (c Cfg) footnoteExt() goldmark.Extender {
	if c.FnPrefix == "" && !c.Opts {
		return extension.Footnote
	}
	var fo []extension.FootnoteOption
	if c.Opts {
		fo = append(fo, extension.WithFootnoteLinkTitle("note ^^ (use %%) & \"more\""), extension.WithFootnoteBacklinkTitle("back from ^^, reference %% <"),
			extension.WithFootnoteBacklinkHTML("&#8617;"))
	}
	if c.FnPrefix != "" {
		if c.FnPrefixFunc {
			pre := make([]byte, len(c.FnPrefix), 64)
			copy(pre, c.FnPrefix)
			fo = append(fo, extension.WithFootnoteIDPrefixFunction(func(ast.Node) []byte { return pre }))
		} else {
			fo = append(fo, extension.WithFootnoteIDPrefix(c.FnPrefix))
		}
	}
	return extension.NewFootnote(fo...)
}

func (c Cfg) linkifyExt() goldmark.Extender {
	if !c.Opts {
		return extension.Linkify
	}
	return extension.NewLinkify(extension.WithLinkifyAllowedProtocols([]string{"http:", "https:", "ftp:", "mailto:", "javascript:", "vbscript:", "data:", "file:", "x-y:"}))
}

func (c Cfg) typoExt() goldmark.Extender {
	if !c.Opts {
		return extension.Typographer
	}
	return extension.NewTypographer(extension.WithTypographicSubstitutions(map[extension.TypographicPunctuation]string{
		extension.LeftSingleQuote: "&sbquo;", extension.RightSingleQuote: "&lsquo;", extension.EnDash: "&#8211;", extension.Ellipsis: "&#x2026;"}))
}

// removes the configured footnote id prefix from id and href values, so that the id oracles see
// the unprefixed names
func (c Cfg) stripFnPrefix(out []byte) []byte {
	if c.FnPrefix == "" {
		return out
	}
	out = bytes.ReplaceAll(out, []byte(`id="`+c.FnPrefix), []byte(`id="`))
	return bytes.ReplaceAll(out, []byte(`href="#`+c.FnPrefix), []byte(`href="#`))
}

func tableExt(align int) goldmark.Extender {
	switch align {
	case 1:
		return extension.NewTable(extension.WithTableCellAlignMethod(extension.TableCellAlignAttribute))
	case 2:
		return extension.NewTable(extension.WithTableCellAlignMethod(extension.TableCellAlignStyle))
	case 3:
		return extension.NewTable(extension.WithTableCellAlignMethod(extension.TableCellAlignNone))
	}
	return extension.Table
}

func (c Cfg) Extenders() []goldmark.Extender {
	gfm := []goldmark.Extender{c.linkifyExt(), tableExt(c.TableAlign), extension.Strikethrough, extension.TaskList}
	switch c.Ext {
	case "core":
		return nil
	case "gfm":
		if c.TableAlign == 0 && !c.Opts {
			return []goldmark.Extender{extension.GFM}
		}
		return gfm
	case "gfm4":
		return gfm
	case "strike":
		return []goldmark.Extender{extension.Strikethrough}
	case "table":
		return []goldmark.Extender{tableExt(c.TableAlign)}
	case "task":
		return []goldmark.Extender{extension.TaskList}
	case "linkify":
		return []goldmark.Extender{c.linkifyExt()}
	case "deflist":
		return []goldmark.Extender{extension.DefinitionList}
	case "footnote":
		return []goldmark.Extender{c.footnoteExt()}
	case "tablex":
		// the table extension with renderer options of its own: they are the table renderer's only
		return []goldmark.Extender{extension.NewTable(extension.WithTableHTMLOptions(html.WithXHTML(), html.WithHardWraps(), html.WithUnsafe()))}
	case "footnotex":
		return []goldmark.Extender{extension.NewFootnote(extension.WithFootnoteHTMLOptions(html.WithXHTML(), html.WithHardWraps(), html.WithUnsafe()))}
	case "typo":
		return []goldmark.Extender{c.typoExt()}
	case "cjk":
		return []goldmark.Extender{extension.NewCJK(extension.WithEastAsianLineBreaks(extension.EastAsianLineBreaksSimple))}
	case "cjkcss3":
		return []goldmark.Extender{extension.NewCJK(extension.WithEastAsianLineBreaks(extension.EastAsianLineBreaksCSS3Draft))}
	case "cjkesc":
		return []goldmark.Extender{extension.NewCJK(extension.WithEscapedSpace())}
	case "all":
		return append(gfm, extension.DefinitionList, c.footnoteExt(), c.typoExt(), extension.CJK)
	case "gfm+footnote":
		return append(gfm, c.footnoteExt())
	}
	if c.Ext == "footnote+footnote" {
		return []goldmark.Extender{c.footnoteExt(), c.footnoteExt()}
	}
	// "pair:<a>:<b>": the extensions of configuration a, then those of configuration b
	if strings.HasPrefix(c.Ext, "pair:") {
		ab := strings.SplitN(strings.TrimPrefix(c.Ext, "pair:"), ":", 2)
		a, b := c, c
		a.Ext, b.Ext = ab[0], ab[1]
		return append(a.Extenders(), b.Extenders()...)
	}
	// "gfm+<ext>": GFM plus one further extension (possibly one of its own members a second time)
	if strings.HasPrefix(c.Ext, "gfm+") {
		one := c
		one.Ext = strings.TrimPrefix(c.Ext, "gfm+")
		return append(gfm, one.Extenders()...)
	}
	panic("unknown ext " + c.Ext)
}

func (c Cfg) Build() goldmark.Markdown {
	var po []parser.Option
	if c.AutoID {
		po = append(po, parser.WithAutoHeadingID())
	}
	if c.Attr {
		po = append(po, parser.WithAttribute())
	}
	var ro []rendererOption
	_ = ro
	opts := []goldmark.Option{goldmark.WithExtensions(c.Extenders()...), goldmark.WithParserOptions(po...)}
	if c.Unsafe {
		opts = append(opts, goldmark.WithRendererOptions(html.WithUnsafe()))
	}
	if c.XHTML {
		opts = append(opts, goldmark.WithRendererOptions(html.WithXHTML()))
	}
	if c.HardWraps {
		opts = append(opts, goldmark.WithRendererOptions(html.WithHardWraps()))
	}
	return goldmark.New(opts...)
}

type rendererOption interface{}

// Before a runner starts, instances of other configurations - every parser, renderer and
// extension option switched on, and a few single ones - convert a document that uses every
// construct.  Configuration is per instance: nothing these instances do may show in the
// instances the runner builds afterwards.  (C06 compares with fresh child processes instead.)
func otherConfigurationsFirst(c *Ctx) {
	sink := []byte("# H {#hid .c data-n=1}\n\nt {lang=en}\n===\n\n> q *e* **s** `c` [l](/u \"t\") ![i](/s) <http://a.b> <b>r</b> &amp; \\* ~~d~~ www.x.y a@b.c\n\n- [ ] t\n- [x] u\n\n1. o\n\n|a|b|\n|:-|-:|\n|c|d|\n\n```go {.f}\nx\n```\n\n    ind\n\n***\n\nf[^1] g[^2]\n\n[^1]: n\n[^2]: m\n\nterm\n: def\n\n\"q\" -- ... 'r'\n\n漢字\n漢字 x\\ y\n\n[r]: /ref 'T'\n\n[r] [R][]\n")
	for _, cf := range []Cfg{
		{Ext: "all", AutoID: true, Attr: true, Unsafe: true, XHTML: true, HardWraps: true, Opts: true, FnPrefix: "w-", TableAlign: 1},
		{Ext: "core", Attr: true}, {Ext: "core", AutoID: true}, {Ext: "cjkcss3", XHTML: true}, {Ext: "cjkesc", HardWraps: true}, {Ext: "typo", Opts: true},
		{Ext: "gfm", TableAlign: 3, Unsafe: true}, {Ext: "footnote", FnPrefix: "v-", FnPrefixFunc: true}, {Ext: "deflist", Attr: true, AutoID: true},
	} {
		md := cf.Build()
		done := make(chan struct{})
		go func() {
			defer close(done)
			convertSafe(md, sink)
			convertSafe(md, sink)
		}()
		select {
		case <-done:
		case <-time.After(90 * time.Second):
			// a conversion that does not return: C01's finding; the other runners go on without
			// the rest of the warm-up (the stuck goroutine is abandoned)
			if c.Prop == "C01" {
				c.Violate("total:timeout", map[string]string{"config": cf.Name(), "source": q(sink), "stream": "other-configurations-first"}, "no result after 90s", "total:timeout")
			}
			return
		}
	}
}

var allExts = []string{"core", "gfm", "deflist", "footnote", "typo", "cjk", "cjkcss3", "cjkesc", "all"}

// the full lattice of C01: 9 x 4 x 8 = 288
func fullLattice() []Cfg {
	var out []Cfg
	for _, e := range allExts {
		for po := 0; po < 4; po++ {
			for ro := 0; ro < 8; ro++ {
				out = append(out, Cfg{Ext: e, AutoID: po&1 != 0, Attr: po&2 != 0, Unsafe: ro&1 != 0, XHTML: ro&2 != 0, HardWraps: ro&4 != 0})
			}
		}
	}
	return out
}

// a smaller representative set
func smallLattice() []Cfg {
	return []Cfg{
		{Ext: "core"}, {Ext: "core", Unsafe: true}, {Ext: "core", XHTML: true, HardWraps: true},
		{Ext: "gfm"}, {Ext: "gfm", Unsafe: true, XHTML: true}, {Ext: "gfm", AutoID: true, Attr: true},
		{Ext: "all"}, {Ext: "all", AutoID: true, Attr: true, XHTML: true}, {Ext: "all", Unsafe: true, HardWraps: true},
		{Ext: "footnote", AutoID: true}, {Ext: "deflist", Attr: true}, {Ext: "typo"}, {Ext: "cjk"}, {Ext: "cjkcss3", HardWraps: true}, {Ext: "cjkesc", XHTML: true},
	}
}

// convert under recover; returns output, error string, panic string
func convertSafe(md goldmark.Markdown, src []byte) (out []byte, errS string, panicS string) {
	defer func() {
		if r := recover(); r != nil {
			panicS = fmt.Sprint(r)
		}
	}()
	var b bytes.Buffer
	if err := md.Convert(src, &b); err != nil {
		errS = err.Error()
	}
	return b.Bytes(), errS, ""
}

// ---------- corpus ----------

type SpecExample struct {
	Markdown string `json:"markdown"`
	HTML     string `json:"html"`
	Example  int    `json:"example"`
	Section  string `json:"section"`
}

var specCache []SpecExample

func loadSpec() []SpecExample {
	if specCache != nil {
		return specCache
	}
	b, err := os.ReadFile("/repo/_test/spec.json")
	if err != nil {
		panic(err)
	}
	if err := json.Unmarshal(b, &specCache); err != nil {
		panic(err)
	}
	return specCache
}

// the markdown sources of the repository's own test-case files
func loadTestFiles() [][]byte {
	var out [][]byte
	files, _ := filepath.Glob("/repo/_test/*.txt")
	f2, _ := filepath.Glob("/repo/extension/_test/*.txt")
	for _, f := range append(files, f2...) {
		b, err := os.ReadFile(f)
		if err != nil {
			continue
		}
		for _, cs := range strings.Split(string(b), "//= = = = = = = = = = = = = = = = = = = = = = = =//") {
			parts := strings.Split(cs, "//- - - - - - - - -//")
			if len(parts) >= 3 {
				src := strings.TrimPrefix(parts[1], "\n")
				out = append(out, []byte(src))
			}
		}
	}
	return out
}

func corpusDocs() [][]byte {
	var out [][]byte
	for _, e := range loadSpec() {
		out = append(out, []byte(e.Markdown))
	}
	out = append(out, loadTestFiles()...)
	return out
}

// minimised past failures: /verif/corpus/<prop>/*
func propCorpus(prop string) [][]byte {
	var out [][]byte
	files, _ := filepath.Glob("/verif/corpus/" + prop + "/*")
	for _, f := range files {
		if b, err := os.ReadFile(f); err == nil {
			out = append(out, b)
		}
	}
	return out
}

// ---------- generators ----------

var mdAlpha = []byte{'a', '1', ' ', '\t', '\n', '\r', '\\', '`', '*', '_', '[', ']', '(', ')', '<', '>', '!', '#', '-', '+', '.', ':', '|', '~', '&', ';', '"', '\'', '{', '}', '=', '^', 0, 0x80, 0xc3, 0xe3, 0x81, 0x82}

var mdTokens = []string{
	"a", "b", "foo", "bar", "1", "2.", "1)", " ", "  ", "   ", "    ", "\t", "\n", "\n\n", "\r\n", "\\", "\\\n", "  \n", "`", "``", "```", "~~~", "*", "**", "_", "__", "***",
	"[", "]", "(", ")", "[foo]", "[foo]: /url \"t\"\n", "[^1]", "[^1]: note\n", "![", "](/u)", "](<a b>)", "<", ">", "<a>", "</a>", "<!--", "-->", "<?", "?>", "<![CDATA[", "]]>", "<div>", "</div>", "<script>", "<http://a.b>", "<a@b.c>",
	"# ", "## ", "###### ", "#", "=", "===", "-", "--", "---", "+ ", "- ", "* ", "1. ", "2) ", "> ", ">", "|", "|-|", "|:-:|", ":", ": ", "~", "~~", "[ ] ", "[x] ", "&amp;", "&#65;", "&#x41;", "&bogus;", "&", ";",
	"\"", "'", "...", "--", "http://x.y", "www.a.b", "a@b.c", "{#id}", "{.c}", "{a=b}", "{", "}",
	"![^1]", "![^u]", "[^u]", "[^1]: n\n\n", " {k=", " {k=[1,", " {k=\"v", " {#", " {.", "=", ",", "[1,2]", "\\\t", "\\\thttp://x.y/z", "\\\twww.a.b", "\\\ta@b.c",
	"&#x100000041;", "&#4294967361;", "&#x0000000041;", "&#xFFFFFFFFF;", "[ΑΓΩ]: /g\n\n", "[αγω]", "[Straße][]", "[STRASSE]: /s\n\n", "\x00", "\x80", "\xc3", "あ", "い", "é", "\\ ", "!", "^", "javascript:", "data:", "%41",
}

func randDoc(r *RNG, maxTok int) []byte {
	n := 1 + r.Intn(maxTok)
	var b []byte
	for i := 0; i < n; i++ {
		b = append(b, r.PickS(mdTokens)...)
	}
	return b
}

// mutate a document: splice, line duplication, container prefixing, byte insertion, truncation
func mutate(r *RNG, d []byte, other []byte) []byte {
	d = append([]byte(nil), d...)
	switch r.Intn(6) {
	case 0:
		if len(d) > 0 && len(other) > 0 {
			i, j := r.Intn(len(d)), r.Intn(len(other))
			d = append(append([]byte{}, d[:i]...), other[j:]...)
		}
	case 1:
		lines := bytes.SplitAfter(d, []byte("\n"))
		if len(lines) > 0 {
			i := r.Intn(len(lines))
			lines = append(lines[:i+1], lines[i:]...)
			d = bytes.Join(lines, nil)
		}
	case 2:
		pre := []string{"> ", "- ", "    ", "1. ", "\t", "  "}[r.Intn(6)]
		lines := bytes.SplitAfter(d, []byte("\n"))
		var o []byte
		for _, l := range lines {
			if len(l) > 0 {
				o = append(o, pre...)
				o = append(o, l...)
			}
		}
		d = o
	case 3:
		for k := 1 + r.Intn(3); k > 0; k-- {
			i := r.Intn(len(d) + 1)
			t := r.PickS(mdTokens)
			d = append(append(append([]byte{}, d[:i]...), t...), d[i:]...)
		}
	case 4:
		if len(d) > 1 {
			d = d[:r.Intn(len(d))]
		}
	default:
		if len(d) > 0 {
			i := r.Intn(len(d))
			d[i] = r.Pick(mdAlpha)
		}
	}
	return d
}

// docStreams feeds f with (stream name, document) for the standard streams.
var longFillers = []string{"p\n\n", "- a\n", "> q\n", "# h\n\n", "```\nc\n```\n\n", "a\nb\n\n", "- a\n\n  b\n\n", "1. x\n   - y\n", "|a|\n|-|\n|b|\n\n", "x[^1]\n\n"}
var longTails = []string{"- a\n\n- b\n", "1. a\n\n   b\n2. c\n", "> a\n>\n> b\n", "- a\n  - b\n\n  - c\n- d\n", "[x]: /u\n\n[x] `c` *e*\n", "|a|b|\n|-|-|\n|c|d|\n", "a[^1]\n\n[^1]: n\n", "t\n: d\n\n: e\n", "# h\n\n# h\n", "- [ ] t\n\n- [x] u\n"}

// longDocs calls f(A, B) with A = a filler repeated N times (closed at its end) and B a tail
func longDocs(quick bool, f func(a, b []byte)) {
	ns := []int{63, 64, 65, 127, 128, 129, 255, 256, 257}
	if !quick {
		ns = nil
		for _, c := range []int{32, 64, 128, 256, 512, 1024, 2048, 4096} {
			for d := -3; d <= 3; d++ {
				ns = append(ns, c+d)
			}
		}
	}
	k := 0
	for _, fl := range longFillers {
		for _, n := range ns {
			a := []byte(strings.Repeat(fl, n))
			if !bytes.HasSuffix(a, []byte("\n\n")) {
				a = append(a, '\n')
			}
			for j := 0; j < 2; j++ {
				f(a, []byte(longTails[k%len(longTails)]))
				k++
			}
		}
	}
}

func typoContexts(f func(string)) {
	trig := []string{"\"", "'", "--", "---", "...", "<<", ">>", "'s", "'t", "'re", "'ve", "'ll", "'d", "'m", "1/2", "(c)", "\"\"", "''", "\"'", "'\""}
	before := []string{"", "a", "a.", "a!", "。", "…", " ", "é", "あ", "\"a", "(", "*", "1", "\\"}
	after := []string{"", "a", ".", "。", "、", "…", "—", " ", " a", "é", "あ", "\n", ")", "*", "2", "\u00a0", "\xe3", "\xe2\x80"}
	k := 0
	for _, t := range trig {
		for _, b := range before {
			for _, a := range after {
				core := b + t + a
				k++
				switch k % 6 {
				case 0:
					f(core)
				case 1:
					f("\"x " + core)
				case 2:
					f("# " + core)
				case 3:
					f("- " + core + "\n- 'y " + core)
				case 4:
					f("|" + core + "|\n|-|\n|\"z " + core + "|")
				default:
					f("\"q\" " + core + "\nnext " + core)
				}
			}
		}
	}
}

// codePointDocs: every Unicode code point once - in blocks of 512 as heading text, paragraph text
// and link label - and, one document each, the code points whose upper-case, lower-case,
// title-case or simple-fold partner has a UTF-8 encoding of another length (a case mapping done
// in place, or into a buffer sized by the input, goes wrong exactly there), in the places where
// goldmark folds or maps case: heading ids, reference and footnote labels, entity names, URLs.
func codePointDocs(f func([]byte)) {
	for base := 0x80; base < 0x110000; base += 512 {
		if base >= 0xd800 && base < 0xe000 || (base >= 0x30000 && base < 0xe0000 && base%0x4000 != 0) || (base >= 0xf0000 && base%0x2000 != 0) {
			continue // surrogates; unassigned planes and private use sampled thinly
		}
		var b []byte
		for r := rune(base); r < rune(base+512); r++ {
			if r >= 0xd800 && r < 0xe000 {
				continue
			}
			b = utf8.AppendRune(b, r)
		}
		f([]byte("# " + string(b) + "\n\n" + string(b) + "\n\n[" + string(b[:len(b)/4]) + "]: /u\n"))
	}
	for r := rune(0x80); r < 0x110000; r++ {
		if r >= 0xd800 && r < 0xe000 {
			continue
		}
		n := utf8.RuneLen(r)
		if utf8.RuneLen(unicode.ToLower(r)) == n && utf8.RuneLen(unicode.ToUpper(r)) == n && utf8.RuneLen(unicode.ToTitle(r)) == n && utf8.RuneLen(unicode.SimpleFold(r)) == n {
			continue
		}
		x := string(r)
		f([]byte("# a" + x + "b " + x + "\n\n" + x + x + "\n===\n\n## " + x + " #\n"))
		f([]byte("[" + x + "]: /" + x + " \"" + x + "\"\n\n[" + x + "] [" + string(unicode.ToLower(r)) + "] [" + string(unicode.ToUpper(r)) + "][] [t][" + x + x + "]\n\n[^" + x + "]: n\n\n[^" + x + "] <http://a.b/" + x + "> www.a.b/" + x + " &" + x + "; \"" + x + "\" |" + x + "|\n|-|\n"))
	}
}

type docOpts struct {
	blockLines      int // exhaustive line-structured documents up to this many lines
	randLines       int // number of random line-structured documents
	exhaustiveLen   int
	exhaustiveAlpha []byte
	corpus          bool
	random          int
	randomTok       int
	mutants         int
}

func docStreams(c *Ctx, o docOpts, f func(stream string, doc []byte)) {
	for _, d := range propCorpus(c.Prop) {
		f("past-failures", d)
	}
	if o.exhaustiveLen > 0 {
		alpha := o.exhaustiveAlpha
		if alpha == nil {
			alpha = mdAlpha
		}
		enumStrings(alpha, o.exhaustiveLen, func(b []byte) { f(fmt.Sprintf("exhaustive<=%d", o.exhaustiveLen), b) })
	}
	if o.blockLines > 0 {
		blockLineDocs(o.blockLines, func(b []byte) { f(fmt.Sprintf("block-lines<=%d", o.blockLines), b) })
	}
	for i := 0; i < o.randLines; i++ {
		f("random-lines", randLineDoc(c.R, 8))
	}
	var corp [][]byte
	if o.corpus || o.mutants > 0 {
		corp = corpusDocs()
	}
	if o.corpus {
		for _, d := range corp {
			f("corpus", d)
		}
		codePointDocs(func(d []byte) { f("code-points", d) })
	}
	tok := o.randomTok
	if tok == 0 {
		tok = 12
	}
	for i := 0; i < o.random; i++ {
		f("random-tokens", randDoc(c.R, tok))
	}
	// every inline/block snippet in every block context (systematic), then random pairs of those
	if o.random > 0 || o.corpus {
		containerLeafDocs(func(d []byte) { f("leaf-in-container-indentations", d) })
		matrixDocs(func(d []byte) { f("context-x-content", d) })
		for i := 0; i < o.random/4; i++ {
			f("context-x-content-pairs", matrixPair(c.R))
		}
	}
	// long documents: a filler block repeated N times for N around powers of two (buffers that
	// are compacted, grown or flushed at a fixed size), then a tail whose rendering depends on
	// per-line state
	if o.random > 0 {
		longDocs(c.Quick(), func(a, b []byte) { f("long-documents", append(append([]byte{}, a...), b...)) })
	}
	// an opener of every kind repeated around 32 and 64 times (limits on nesting depth), followed
	// by a short soup of delimiters, links and closers
	if o.random > 0 {
		soup := []string{"_a ", "[b](/u) ", "*c ", "**d** ", "]", "](/v)", "![i](/s) ", "`x` ", "[r] ", "__e", "~~f~~ ", "<g>", ")", "* ", "\n"}
		for _, op := range []string{"[", "![", "*", "_", "`", "<", "(", "[a](", "> ", "- ", "**", "[^"} {
			for _, n := range []int{31, 32, 33, 34, 63, 64, 65} {
				for k := 0; k < 6; k++ {
					d := strings.Repeat(op, n)
					for t := 2 + c.R.Intn(7); t > 0; t-- {
						d += c.R.PickS(soup)
					}
					f("deep-openers", []byte(d))
				}
				// systematically: behind the openers, a delimiter and a complete link, twice, with a
				// further opener in between and an unmatched delimiter at the end (bookkeeping of
				// brackets and delimiters that goes out of step at the limit shows only when both
				// kinds are pending on more than one level)
				if op == "[" || op == "![" || op == "*" || op == "_" || op == "[a](" {
					for _, x := range []string{"_a [b](/u) ", "*a [b][r] ", "**a ![i](/s) "} {
						for _, y := range []string{"[", "![", ""} {
							for _, z := range []string{" *c", " _c", ""} {
								f("deep-openers", []byte(strings.Repeat(op, n)+x+y+x+z))
							}
						}
					}
				}
			}
		}
	}
	// quotes, dashes, dots and other typographic triggers in every neighbourhood: before and after
	// a letter, ASCII and multi-byte punctuation, a blank, a multi-byte letter, nothing; in the
	// middle and at the very end of a block, in a paragraph, heading, list item and table cell
	if o.random > 0 {
		typoContexts(func(d string) { f("typographic-contexts", []byte(d)) })
	}
	// documents assembled from the extension constructs
	for i := 0; i < o.random/2; i++ {
		f("extension-constructs", extDoc(c.R))
	}
	// headings and fences with attribute blocks cut off at every point
	if o.random > 0 {
		frag := []string{"#id", ".c", "k=v", "k=\"v\"", "k='v'", "k=[1,2]", "k=[1,", "k=", "k", "=", "[", ",", "\"", "}", "{", " ", "data-x=1", "width=3", "1", "-", "k=1.5e", "k=\\\"", "é"}
		frag = append(frag, attrFrags...)
		// names that pass the element filters, with values of every type
		for k := 0; k < 4; k++ {
			frag = append(frag, "tabindex=2", "hidden=true", "data-n=1.5", "data-b=false", "data-z=-3e2", "lang=en", "title=x", "dir=ltr", ".intro", "#top", "data-s=\"q r\"", "data-l=[1,a]")
		}
		for i := 0; i < o.random/4; i++ {
			d := c.R.PickS([]string{"# t {", "## t {", "t {", "```go {", "# t {#a} {", "> # q {", "- # l {"})
			for k := c.R.Intn(6); k > 0; k-- {
				d += c.R.PickS(frag)
				if c.R.Intn(3) == 0 {
					d += " "
				}
			}
			switch c.R.Intn(5) {
			case 0:
				d += "}"
			case 1:
				d += "}\n"
			case 2:
				d += "\n=====\n"
			case 3:
				d += "\n"
			}
			f("attribute-soup", []byte(d))
		}
		// every byte inside, before and after an attribute name, on names that pass the filters
		// (data-*) and names that do not; and inside quoted and bare values
		for b := 0; b < 256; b++ {
			ch := string([]byte{byte(b)})
			for _, t := range []string{"# t {data-x" + ch + "onclick=v}", "# t {" + ch + "data-x=v}", "# t {data-x=v" + ch + "}", "# t {#i" + ch + "j}", "# t {.c" + ch + "d}", "t {title=\"a" + ch + "b\"}\n===", "# t {lang" + ch + "=en}", "# t {data-" + ch + "}"} {
				f("attribute-bytes", []byte(t))
			}
		}
	}
	// documents printed from random SpecDoc trees (every construct of the C02 fragment, nested
	// containers, both indentation spellings) and deeply nested inline constructs
	if o.random > 0 {
		g := &sGen{r: c.R}
		for i := 0; i < o.random/4; i++ {
			f("specdoc", mdOf(i%4 == 3, i%2 == 0, g.doc(1+i%3)))
		}
		for i := 0; i < o.random/4; i++ {
			d := nestedInlines(c.R, 2+c.R.Intn(4))
			if i%2 == 0 {
				d += "\n\n[r]: /ref"
			}
			f("nested-inlines", []byte(d))
		}
	}
	for i := 0; i < o.mutants; i++ {
		d := corp[c.R.Intn(len(corp))]
		for k := 1 + c.R.Intn(3); k > 0; k-- {
			d = mutate(c.R, d, corp[c.R.Intn(len(corp))])
		}
		f("mutants", d)
	}
}

// ---------- line-structured documents ----------
// Every document made of up to n lines, each a container prefix followed by a block-level body.
var linePrefixes = []string{"", "> ", "- ", "  "}
var lineBodies = []string{"```", "a", "", "# h", "---", "<!--", "-->", "    c", "~~~", "* * *", "[a]: /u", "|a|b|", "|-|-|", "1. x", "<div>", "=="}

func blockLineDocs(n int, f func([]byte)) {
	var forms []string
	for _, p := range linePrefixes {
		for _, b := range lineBodies {
			forms = append(forms, p+b+"\n")
		}
	}
	var rec func(prefix string, d int)
	rec = func(prefix string, d int) {
		if d > 0 {
			f([]byte(prefix))
		}
		if d == n {
			return
		}
		for _, fm := range forms {
			rec(prefix+fm, d+1)
		}
	}
	rec("", 0)
}

// random longer line-structured documents over a richer vocabulary
var linePrefixesRich = []string{"", "", "> ", "- ", "  ", "1. ", "    ", "\t", ">", "* ", "   ", "> > ", "- - "}
var lineBodiesRich = []string{"```", "~~~", "````", "``` go", "a", "b c", "", "", "# h", "## h #", "---", "===", "***", "<!--", "-->", "<?php", "?>", "<div>", "</div>", "<pre>", "</pre>", "<a href=\"x\">",
	"    c", "\tc", "[a]: /u", "[a]: /u 't'", "[a]", "[a][]", "![a](b)", "|a|b|", "|-|-|", "|:-|-:|", "a|b", "1. x", "2) y", "- z", "+ w", ": d", "term", "[^1]: n", "[^1]", "- [ ] t", "- [x] t",
	"a  ", "a\\", "*e*", "**s**", "`c`", "~~d~~", "<b>", "http://x.y", "\"q\"", "a -- b...", "&amp;", "\\*", "あい", "\x80", "#", ">", "-", "+", "1.", "`", "[", "]("}

func randLineDoc(r *RNG, maxLines int) []byte {
	n := 1 + r.Intn(maxLines)
	var b []byte
	for i := 0; i < n; i++ {
		b = append(b, r.PickS(linePrefixesRich)...)
		if r.Intn(4) == 0 {
			b = append(b, r.PickS(linePrefixesRich)...)
		}
		b = append(b, r.PickS(lineBodiesRich)...)
		if i < n-1 || r.Intn(3) > 0 {
			b = append(b, '\n')
		}
	}
	return b
}

// ---------- documents built from the extension constructs ----------
// extDoc assembles tables, footnotes, definition lists, task lists, strikethrough, typographic
// punctuation, linkifiable text, attribute blocks and CJK text, alone, nested in containers and
// mixed with core constructs.  No expected output is known: the documents feed the oracles.
func extInline(r *RNG, depth int) string {
	leaf := []string{"a", "b c", "x_y", "1", "é", "あ", "ｱ", "\\|", "\\*", "&amp;", "&#65;", "`c|d`", "``", "<b>", "</b>", "<!-- c -->",
		"http://x.y/z?a=b&c=d", "https://e.f", "www.g.h/i", "ftp://j.k", "m@n.o", "mailto:p@q.r", "<http://s.t>", "<u@v.w>",
		"\"q\"", "'s'", "--", "---", "...", "<<", ">>", "it's", "'90s", "1/2", "(c)",
		"[^1]", "[^a]", "[^undefined]", "![^1]", "[^1][^a]", "[ ]", "[x]", "[X]", "~", "~~", ":", "|", "=", "{", "}", "{#i}", "{.c}", "\\\t", "\\ ", "  \n", "\\\n", "\n"}
	if depth <= 0 || r.Intn(3) == 0 {
		return r.PickS(leaf)
	}
	in := extInline(r, depth-1)
	if r.Intn(2) == 0 {
		in += " " + extInline(r, depth-1)
	}
	switch r.Intn(10) {
	case 0:
		return "~~" + in + "~~"
	case 1:
		return "~" + in + "~"
	case 2:
		return "*" + in + "*"
	case 3:
		return "**" + in + "**"
	case 4:
		return "[" + in + "](/u \"t\")"
	case 5:
		return "![" + in + "](/i)"
	case 6:
		return "\"" + in + "\""
	case 7:
		return "'" + in + "'"
	case 8:
		return "[" + in + "][r]"
	}
	return in
}

func extBlock(r *RNG, depth int) string {
	il := func() string { return strings.ReplaceAll(extInline(r, 2), "\n", " ") }
	switch r.Intn(12) {
	case 0: // table
		cols := 1 + r.Intn(4)
		var sb strings.Builder
		row := func(n int, f func(int) string) {
			lead, trail := r.Intn(4) != 0, r.Intn(4) != 0
			if lead {
				sb.WriteString("|")
			}
			for i := 0; i < n; i++ {
				if i > 0 {
					sb.WriteString("|")
				}
				sb.WriteString(f(i))
			}
			if trail || (n == 1 && !lead) {
				sb.WriteString("|")
			}
			sb.WriteString("\n")
		}
		row(cols, func(int) string { return " " + il() + " " })
		dcols := cols
		if r.Intn(8) == 0 {
			dcols = cols + r.Intn(3) - 1
			if dcols < 1 {
				dcols = 1
			}
		}
		row(dcols, func(int) string { return r.PickS([]string{"-", "--", ":-", "-:", ":-:", " --- ", ":--:", "-- -", ""}) })
		for k := r.Intn(4); k > 0; k-- {
			n := cols
			if r.Intn(3) == 0 {
				n = 1 + r.Intn(cols+2)
			}
			row(n, func(int) string { return r.PickS([]string{"", " ", il(), " " + il() + " ", "\\|", "`a|b`"}) })
		}
		if r.Intn(4) == 0 {
			sb.WriteString(r.PickS([]string{"|\n", "||\n", "| |\n", "x\n", "> q\n"}))
		}
		return sb.String()
	case 1: // footnote definitions
		var sb strings.Builder
		for k := 1 + r.Intn(3); k > 0; k-- {
			l := r.PickS([]string{"1", "a", "1", "b c", "é", "^", "undefined2"})
			sb.WriteString("[^" + l + "]: " + il() + "\n")
			if r.Intn(3) == 0 {
				sb.WriteString("    " + il() + "\n")
			}
			if r.Intn(3) == 0 {
				sb.WriteString("\n    - " + il() + "\n")
			}
			if r.Intn(2) == 0 {
				sb.WriteString("\n")
			}
		}
		return sb.String()
	case 2: // definition list
		var sb strings.Builder
		sb.WriteString(il() + "\n")
		if r.Intn(3) == 0 {
			sb.WriteString(il() + "\n")
		}
		if r.Intn(3) == 0 {
			sb.WriteString("\n")
		}
		for k := 1 + r.Intn(3); k > 0; k-- {
			sb.WriteString(r.PickS([]string{": ", ":   ", ":\t", "  : ", ": \n  "}) + il() + "\n")
			if r.Intn(3) == 0 {
				sb.WriteString("\n  " + il() + "\n")
			}
		}
		return sb.String()
	case 3: // task list
		var sb strings.Builder
		for k := 1 + r.Intn(3); k > 0; k-- {
			sb.WriteString(r.PickS([]string{"- ", "* ", "1. ", "  - "}) + r.PickS([]string{"[ ] ", "[x] ", "[X] ", "[ ]", "[x]a", "[  ] ", "\\[ ] ", "[ ]\t"}) + il() + "\n")
		}
		return sb.String()
	case 4: // heading or fence with attributes
		attrs := r.PickS([]string{"{#i}", "{.c}", "{#i .c k=v}", "{k=\"v w\"}", "{k='v'}", "{k=1.5}", "{k=[1,2]}", "{k}", "{ }", "{#i #j}", "{id=x}", "{id=\"a\\\" onclick=\\\"b\"}", "{onclick=x}", "{data-x=<}", "{class=\"a&b\"}", "{k=", "{", "{#}", "{.}"})
		switch r.Intn(4) {
		case 0:
			return strings.Repeat("#", 1+r.Intn(6)) + " " + il() + " " + attrs + "\n"
		case 1:
			return il() + " " + attrs + "\n" + r.PickS([]string{"===", "---"}) + "\n"
		case 2:
			return "```go " + attrs + "\ncode\n```\n"
		}
		return "# " + il() + " ## " + attrs + "\n"
	case 5: // several headings with colliding auto ids
		var sb strings.Builder
		for k := 2 + r.Intn(3); k > 0; k-- {
			sb.WriteString(strings.Repeat("#", 1+r.Intn(3)) + " " + r.PickS([]string{"a", "A", "a-1", "a 1", "", "é", "heading", "#", "a!", "  a  "}) + "\n\n")
		}
		return sb.String()
	case 6: // container around more of the same
		if depth <= 0 {
			return il() + "\n"
		}
		inner := extBlock(r, depth-1)
		pre := r.PickS([]string{"> ", ">", "- ", "1. ", "    ", "  "})
		cont := pre
		if pre == "- " {
			cont = "  "
		} else if pre == "1. " {
			cont = "   "
		}
		lines := strings.SplitAfter(inner, "\n")
		var sb strings.Builder
		for i, l := range lines {
			if l == "" {
				continue
			}
			if i == 0 {
				sb.WriteString(pre + l)
			} else {
				sb.WriteString(cont + l)
			}
		}
		return sb.String()
	case 7: // CJK paragraph
		return r.PickS([]string{"あい\nうえ\n", "漢字\nabc\n", "abc\n漢字\n", "ｱｲ\nｳｴ\n", "あ\\ い\n", "Ａ\nｂ\n", "안녕\n하세\n", "あ。\nい\n", "a.\nb\n", "あ\n*い*\n"})
	default:
		s := extInline(r, 3)
		if !strings.HasSuffix(s, "\n") {
			s += "\n"
		}
		return s
	}
}

func extDoc(r *RNG) []byte {
	var sb strings.Builder
	for k := 1 + r.Intn(4); k > 0; k-- {
		sb.WriteString(extBlock(r, 2))
		if r.Intn(5) != 0 {
			sb.WriteString("\n")
		}
	}
	if r.Intn(3) == 0 {
		sb.WriteString("\n[r]: /ref 'T'\n")
	}
	return []byte(sb.String())
}

// ---------- every snippet in every context ----------
// The misses of the seeded batch E were all interactions of two features (a footnote reference in
// a surplus table cell, a reference definition as a definition-list term, unmatched strikethrough
// openers inside emphasis, a typographic run of three, a multi-line title rendered later, an
// escaped pipe in a code span followed by a rejected table).  This stream places every snippet of
// matrixContents into every hole of matrixContexts.
var matrixContexts = []string{
	"%s\n", "# %s\n", "%s\n===\n", "%s\n---\n", "> %s\n", "- %s\n", "1. %s\n", "- a\n  - %s\n", "> - %s\n", "- > %s\n",
	"| %s | x |\n|---|---|\n| y | z |\n", "| h | x |\n|---|:-:|\n| %s | z |\n", "| h |\n|---|\n| a | %s |\n", "| h | i |\n|---|---|\n| %s |\n", "h|i\n-|-\n%s|b\n",
	"| %s | def |\n| --- |\nbar\n", "| a |\n| --- |\n| %s |\n\n# sep\n\n| abc | def |\n| --- |\nbar\n",
	"[^1]: %s\n\n[^1]\n", "x[^n]\n\n[^n]: %s\n", "[^n]: a\n\n    %s\n\nx[^n]\n",
	"term\n: %s\n", "%s\n: desc\n", "a\n: b\n\n%s\n: c\n", "a\n\n: %s\n\n: d\n",
	"- [ ] %s\n", "- [x] %s\n", "1. [ ] %s\n",
	"[%s](/u)\n", "![%s](/u)\n", "*%s*\n", "**%s**\n", "~~%s~~\n", "~%s~\n", "[%s][r]\n", "[%s]\n", "\"%s\"\n", "'%s'\n", "<div>%s</div>\n", "<span>%s</span>\n", "<div>\n%s\n</div>\n",
	"```\n%s\n```\n", "    %s\n", "`%s`\n", "``%s``\n",
	"a\n%s\nb\n", "%s  \nnext\n", "%s\\\nnext\n", "a %s b\n", "a%sb\n",
	"## %s {#id .c}\n", "%s {#i}\n===\n", "> %s\n> %s\n", "- %s\n- %s\n",
}

var matrixContents = []string{
	"[^1]", "[^1] [^1]", "[^u]", "![^1]", "[^1][^1]", "x[^1]y", "[^1]: z",
	"[a]: /u", "[a]: /u \"t\"", "[a]: <u v> 't'", "[b]: /first\n[b]: /second", "[a]",
	"`\\|`", "`a|b`", "\\|", "a \\| b", "`x\\|y` z", "`x\\|y\\|z`", "`\\|\\|`", "`a\\|b` `c\\|d`", "`a\\|b\\|c\\|d` \\| `e\\|f`", "\\|\\|", "a \\| b \\| c", "``x\\|y\\|``", "`` ` ``", "`a", "a`",
	"*a ~b* *c ~d* e *f", "*a ~b* *c ~d* *e ~f*", "**a ~~b** c~~", "_a *b_ c*", "*a [b*](u)", "~a *b~ c*", "*a **b* c**", "***a** b*", "*a _b* c_ *d", "~~a ~b~~ c~", "__a__b", "a*b*c", "a_b_c", "*", "**", "~", "~~", "~~~a~~~",
	"<<<", ">>>", "<<<<", "<<", ">>", "--", "---", "----", "...", "....", "'''", "\"\"\"", "'a'", "\"a\"", "a's", "<<a>>", "<<<a>>>", "'", "\"", "1'2\"", "a--b---c",
	"http://a.b/c", "www.a.b", "a@b.c", "http://a.b/c).", "www.a.b,", "<http://a.b>", "http://a.b/?q=`x`", "https://a.b/c_d_e", "www.a.b/(c)", "mailto:a@b.c", "ftp://a.b", "http://a.b/&amp;", "http://a.b/<c>", "xhttp://a.b", "http://é.b",
	"<b>", "</b>", "<!-- c -->", "<script>", "<script>alert(1)</script>", "&amp;", "&#60;", "&lt;script&gt;", "&#0;", "&#xD800;", "&bogus;", "<a href=\"x\">", "<?p?>", "<![CDATA[x]]>", "<!D>",
	"[l](/u \"multi\nline\")", "[l](/u 'a\nb')", "![i](/u \"m\nn\")", "[l](<a b> (t))", "[l]( /u )", "[l]()", "[l](<>)", "[l](/u \"a\\\"b\")", "[l][]", "[l][r]", "![i][r]", "[l\nm][r]", "[r]",
	"a  \nb", "a\\\nb", "a\nb", "a \nb", "a\\\\\nb",
	"javascript:alert(1)", "[x](javascript:alert(1))", "<javascript:x>", "![x](data:text/html,x)", "[x](JAVASCRIPT:a)", "[x](file:///e)", "[x](data:,x)", "[x](vbscript:x)", "[x](java&#115;cript:a)", "[x](data:image/png;x)", "<file:///a>", "<data:,y>",
	"{#i}", "{.c k=v}", "[x]{onclick=a}", "{", "}", "{#i", "{k=\"v\"}",
	"漢字", "あ\nい", "é", "\xff", "\x00", "\xc3", "a\xe2\x80\xa8b",
	"[ ]", "[x]", ":", "| a |", "|", "||", "a||", "a | b | c", "-", "--- | ---", "=", "#", "# a", "> a", "- a", "1. a", "1) a", "***", "```", "~~~", "    a", "\ta", "<div>", "</div>",
	"\\*a\\*", "\\\\", "\\", "a\\", "\\[a\\]", "\\`", "\\<b>",
	"", " ", "a", "A A", "a-1", "a a",
}

func matrixDocs(f func([]byte)) {
	trailer := "\n[^1]: note\n\n[r]: /ref\n\n[a]: /early 'T'\n"
	for i, cx := range matrixContexts {
		for j, ct := range matrixContents {
			d := strings.ReplaceAll(cx, "%s", ct)
			if (i+j)%2 == 0 {
				d += trailer
			}
			f([]byte(d))
			// the same snippet twice in one hole (state kept between two occurrences)
			if (i+j)%3 == 0 && ct != "" && !strings.Contains(ct, "\n") {
				d2 := strings.ReplaceAll(cx, "%s", ct+" "+ct)
				if j%2 == 0 {
					d2 = strings.ReplaceAll(cx, "%s", ct+ct)
				}
				if (i+j)%2 == 1 {
					d2 += trailer
				}
				f([]byte(d2))
			}
		}
	}
}

func matrixBlock(r *RNG) string {
	return strings.ReplaceAll(r.PickS(matrixContexts), "%s", r.PickS(matrixContents))
}

func matrixPair(r *RNG) []byte {
	var sb strings.Builder
	for k := 2 + r.Intn(2); k > 0; k-- {
		sb.WriteString(matrixBlock(r))
		if r.Intn(6) != 0 {
			sb.WriteString("\n")
		}
	}
	if r.Intn(2) == 0 {
		sb.WriteString("\n[^1]: note\n\n[r]: /ref\n\n[a]: /early 'T'\n")
	}
	return []byte(sb.String())
}

// ---------- leaf blocks inside containers with every indentation spelling ----------
// (found by the proof attempt of the block-range theorem: a fenced code line indented less than
// its fence, behind a container marker followed by a tab, got a start beyond its stop)
func containerLeafDocs(f func([]byte)) {
	prefixes := []string{"", ">", "> ", ">\t", ">  ", "- ", "-\t", "1. ", "1.\t", "> - ", ">\t-\t", "   > ", "- > "}
	conts := map[string][]string{"": {""}, ">": {">", "> ", ">\t"}, "> ": {">", "> ", ">\t", ">  "}, ">\t": {">", "> ", ">\t"}, ">  ": {"> ", ">\t"},
		"- ": {"  ", "\t", " "}, "-\t": {"  ", "\t", "    "}, "1. ": {"   ", "\t"}, "1.\t": {"   ", "\t", "    "}, "> - ": {">   ", ">\t", "> "}, ">\t-\t": {">\t\t", ">     "}, "   > ": {">", "   >\t"}, "- > ": {"  > ", "  >\t", "\t>\t"}}
	opens := []string{"```", "~~~", "   ```", " ~~~~", "\t```", "  ``` info"}
	bodies := []string{"x", "\tx", " x", "  x", "   x", "    x", "\t\tx", " \tx", "", "\t", "  ", "```x", "x\n\ty"}
	ends := []string{"", "\n", "\n```\n", "\n   ```\n", "\n\nafter\n"}
	for _, p := range prefixes {
		for _, c := range conts[p] {
			for _, o := range opens {
				for bi, b := range bodies {
					e := ends[(bi+len(o)+len(c))%len(ends)]
					body := strings.ReplaceAll(b, "\n", "\n"+c)
					end := strings.ReplaceAll(e, "\n", "\n"+c)
					if strings.HasSuffix(end, "\n"+c) {
						end = end[:len(end)-len(c)]
					}
					f([]byte(p + o + "\n" + c + body + end))
				}
			}
			// the same containers around the other leaf blocks
			for _, leaf := range []string{"    code\n%s\tmore\n", "<div>\n%s\tx\n%s</div>\n", "para\n%s\tlazy\n%s===\n", "# h\n%s\t# not\n", "[a]: /u\n%s\t'title'\n%s\n%s[a]\n", "<!--\n%s\t-->\n%sx\n", "***\n%s\t***\n", "1. x\n%s\t2. y\n"} {
				f([]byte(p + strings.ReplaceAll(leaf, "%s", c)))
			}
		}
	}
}
