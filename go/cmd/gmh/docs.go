package main

// Shared document pipeline: configuration lattice, corpus, generators.

import (
	"bytes"
	"encoding/json"
	"fmt"
	"os"
	"path/filepath"
	"strings"

	"github.com/yuin/goldmark"
	"github.com/yuin/goldmark/extension"
	"github.com/yuin/goldmark/parser"
	"github.com/yuin/goldmark/renderer/html"
)

type Cfg struct {
	Ext        string // core gfm strike table task linkify deflist footnote typo cjk cjkcss3 cjkesc all
	AutoID     bool
	Attr       bool
	Unsafe     bool
	XHTML      bool
	HardWraps  bool
	TableAlign int // 0 default 1 attribute 2 style 3 none
}

func (c Cfg) Name() string {
	s := c.Ext
	for _, f := range []struct {
		on bool
		n  string
	}{{c.AutoID, "autoid"}, {c.Attr, "attr"}, {c.Unsafe, "unsafe"}, {c.XHTML, "xhtml"}, {c.HardWraps, "hardwraps"}} {
		if f.on {
			s += "+" + f.n
		}
	}
	if c.TableAlign != 0 {
		s += fmt.Sprintf("+align%d", c.TableAlign)
	}
	return s
}

func tableExt(align int) goldmark.Extender {
	switch align {
	case 1:
		return extension.NewTable(extension.WithTableCellAlignMethod(extension.TableCellAlignAttribute))
	case 2:
		return extension.NewTable(extension.WithTableCellAlignMethod(extension.TableCellAlignStyle))
	case 3:
		return extension.NewTable(extension.WithTableCellAlignMethod(extension.TableCellAlignNone))
	}
	return extension.Table
}

func (c Cfg) Extenders() []goldmark.Extender {
	gfm := []goldmark.Extender{extension.Linkify, tableExt(c.TableAlign), extension.Strikethrough, extension.TaskList}
	switch c.Ext {
	case "core":
		return nil
	case "gfm":
		if c.TableAlign == 0 {
			return []goldmark.Extender{extension.GFM}
		}
		return gfm
	case "gfm4":
		return gfm
	case "strike":
		return []goldmark.Extender{extension.Strikethrough}
	case "table":
		return []goldmark.Extender{tableExt(c.TableAlign)}
	case "task":
		return []goldmark.Extender{extension.TaskList}
	case "linkify":
		return []goldmark.Extender{extension.Linkify}
	case "deflist":
		return []goldmark.Extender{extension.DefinitionList}
	case "footnote":
		return []goldmark.Extender{extension.Footnote}
	case "typo":
		return []goldmark.Extender{extension.Typographer}
	case "cjk":
		return []goldmark.Extender{extension.NewCJK(extension.WithEastAsianLineBreaks(extension.EastAsianLineBreaksSimple))}
	case "cjkcss3":
		return []goldmark.Extender{extension.NewCJK(extension.WithEastAsianLineBreaks(extension.EastAsianLineBreaksCSS3Draft))}
	case "cjkesc":
		return []goldmark.Extender{extension.NewCJK(extension.WithEscapedSpace())}
	case "all":
		return append(gfm, extension.DefinitionList, extension.Footnote, extension.Typographer, extension.CJK)
	case "gfm+footnote":
		return append(gfm, extension.Footnote)
	}
	// "gfm+<ext>": GFM plus one further extension
	if strings.HasPrefix(c.Ext, "gfm+") {
		one := c
		one.Ext = strings.TrimPrefix(c.Ext, "gfm+")
		return append(gfm, one.Extenders()...)
	}
	panic("unknown ext " + c.Ext)
}

func (c Cfg) Build() goldmark.Markdown {
	var po []parser.Option
	if c.AutoID {
		po = append(po, parser.WithAutoHeadingID())
	}
	if c.Attr {
		po = append(po, parser.WithAttribute())
	}
	var ro []rendererOption
	_ = ro
	opts := []goldmark.Option{goldmark.WithExtensions(c.Extenders()...), goldmark.WithParserOptions(po...)}
	if c.Unsafe {
		opts = append(opts, goldmark.WithRendererOptions(html.WithUnsafe()))
	}
	if c.XHTML {
		opts = append(opts, goldmark.WithRendererOptions(html.WithXHTML()))
	}
	if c.HardWraps {
		opts = append(opts, goldmark.WithRendererOptions(html.WithHardWraps()))
	}
	return goldmark.New(opts...)
}

type rendererOption interface{}

var allExts = []string{"core", "gfm", "deflist", "footnote", "typo", "cjk", "cjkcss3", "cjkesc", "all"}

// the full lattice of C01: 9 x 4 x 8 = 288
func fullLattice() []Cfg {
	var out []Cfg
	for _, e := range allExts {
		for po := 0; po < 4; po++ {
			for ro := 0; ro < 8; ro++ {
				out = append(out, Cfg{Ext: e, AutoID: po&1 != 0, Attr: po&2 != 0, Unsafe: ro&1 != 0, XHTML: ro&2 != 0, HardWraps: ro&4 != 0})
			}
		}
	}
	return out
}

// a smaller representative set
func smallLattice() []Cfg {
	return []Cfg{
		{Ext: "core"}, {Ext: "core", Unsafe: true}, {Ext: "core", XHTML: true, HardWraps: true},
		{Ext: "gfm"}, {Ext: "gfm", Unsafe: true, XHTML: true}, {Ext: "gfm", AutoID: true, Attr: true},
		{Ext: "all"}, {Ext: "all", AutoID: true, Attr: true, XHTML: true}, {Ext: "all", Unsafe: true, HardWraps: true},
		{Ext: "footnote", AutoID: true}, {Ext: "deflist", Attr: true}, {Ext: "typo"}, {Ext: "cjk"}, {Ext: "cjkcss3", HardWraps: true}, {Ext: "cjkesc", XHTML: true},
	}
}

// convert under recover; returns output, error string, panic string
func convertSafe(md goldmark.Markdown, src []byte) (out []byte, errS string, panicS string) {
	defer func() {
		if r := recover(); r != nil {
			panicS = fmt.Sprint(r)
		}
	}()
	var b bytes.Buffer
	if err := md.Convert(src, &b); err != nil {
		errS = err.Error()
	}
	return b.Bytes(), errS, ""
}

// ---------- corpus ----------

type SpecExample struct {
	Markdown string `json:"markdown"`
	HTML     string `json:"html"`
	Example  int    `json:"example"`
	Section  string `json:"section"`
}

var specCache []SpecExample

func loadSpec() []SpecExample {
	if specCache != nil {
		return specCache
	}
	b, err := os.ReadFile("/repo/_test/spec.json")
	if err != nil {
		panic(err)
	}
	if err := json.Unmarshal(b, &specCache); err != nil {
		panic(err)
	}
	return specCache
}

// the markdown sources of the repository's own test-case files
func loadTestFiles() [][]byte {
	var out [][]byte
	files, _ := filepath.Glob("/repo/_test/*.txt")
	f2, _ := filepath.Glob("/repo/extension/_test/*.txt")
	for _, f := range append(files, f2...) {
		b, err := os.ReadFile(f)
		if err != nil {
			continue
		}
		for _, cs := range strings.Split(string(b), "//= = = = = = = = = = = = = = = = = = = = = = = =//") {
			parts := strings.Split(cs, "//- - - - - - - - -//")
			if len(parts) >= 3 {
				src := strings.TrimPrefix(parts[1], "\n")
				out = append(out, []byte(src))
			}
		}
	}
	return out
}

func corpusDocs() [][]byte {
	var out [][]byte
	for _, e := range loadSpec() {
		out = append(out, []byte(e.Markdown))
	}
	out = append(out, loadTestFiles()...)
	return out
}

// minimised past failures: /verif/corpus/<prop>/*
func propCorpus(prop string) [][]byte {
	var out [][]byte
	files, _ := filepath.Glob("/verif/corpus/" + prop + "/*")
	for _, f := range files {
		if b, err := os.ReadFile(f); err == nil {
			out = append(out, b)
		}
	}
	return out
}

// ---------- generators ----------

var mdAlpha = []byte{'a', '1', ' ', '\t', '\n', '\r', '\\', '`', '*', '_', '[', ']', '(', ')', '<', '>', '!', '#', '-', '+', '.', ':', '|', '~', '&', ';', '"', '\'', '{', '}', '=', '^', 0, 0x80, 0xc3, 0xe3, 0x81, 0x82}

var mdTokens = []string{
	"a", "b", "foo", "bar", "1", "2.", "1)", " ", "  ", "   ", "    ", "\t", "\n", "\n\n", "\r\n", "\\", "\\\n", "  \n", "`", "``", "```", "~~~", "*", "**", "_", "__", "***",
	"[", "]", "(", ")", "[foo]", "[foo]: /url \"t\"\n", "[^1]", "[^1]: note\n", "![", "](/u)", "](<a b>)", "<", ">", "<a>", "</a>", "<!--", "-->", "<?", "?>", "<![CDATA[", "]]>", "<div>", "</div>", "<script>", "<http://a.b>", "<a@b.c>",
	"# ", "## ", "###### ", "#", "=", "===", "-", "--", "---", "+ ", "- ", "* ", "1. ", "2) ", "> ", ">", "|", "|-|", "|:-:|", ":", ": ", "~", "~~", "[ ] ", "[x] ", "&amp;", "&#65;", "&#x41;", "&bogus;", "&", ";",
	"\"", "'", "...", "--", "http://x.y", "www.a.b", "a@b.c", "{#id}", "{.c}", "{a=b}", "{", "}",
	"![^1]", "![^u]", "[^u]", "[^1]: n\n\n", " {k=", " {k=[1,", " {k=\"v", " {#", " {.", "=", ",", "[1,2]", "\\\t", "\\\thttp://x.y/z", "\\\twww.a.b", "\\\ta@b.c",
	"&#x100000041;", "&#4294967361;", "&#x0000000041;", "&#xFFFFFFFFF;", "[ΑΓΩ]: /g\n\n", "[αγω]", "[Straße][]", "[STRASSE]: /s\n\n", "\x00", "\x80", "\xc3", "あ", "い", "é", "\\ ", "!", "^", "javascript:", "data:", "%41",
}

func randDoc(r *RNG, maxTok int) []byte {
	n := 1 + r.Intn(maxTok)
	var b []byte
	for i := 0; i < n; i++ {
		b = append(b, r.PickS(mdTokens)...)
	}
	return b
}

// mutate a document: splice, line duplication, container prefixing, byte insertion, truncation
func mutate(r *RNG, d []byte, other []byte) []byte {
	d = append([]byte(nil), d...)
	switch r.Intn(6) {
	case 0:
		if len(d) > 0 && len(other) > 0 {
			i, j := r.Intn(len(d)), r.Intn(len(other))
			d = append(append([]byte{}, d[:i]...), other[j:]...)
		}
	case 1:
		lines := bytes.SplitAfter(d, []byte("\n"))
		if len(lines) > 0 {
			i := r.Intn(len(lines))
			lines = append(lines[:i+1], lines[i:]...)
			d = bytes.Join(lines, nil)
		}
	case 2:
		pre := []string{"> ", "- ", "    ", "1. ", "\t", "  "}[r.Intn(6)]
		lines := bytes.SplitAfter(d, []byte("\n"))
		var o []byte
		for _, l := range lines {
			if len(l) > 0 {
				o = append(o, pre...)
				o = append(o, l...)
			}
		}
		d = o
	case 3:
		for k := 1 + r.Intn(3); k > 0; k-- {
			i := r.Intn(len(d) + 1)
			t := r.PickS(mdTokens)
			d = append(append(append([]byte{}, d[:i]...), t...), d[i:]...)
		}
	case 4:
		if len(d) > 1 {
			d = d[:r.Intn(len(d))]
		}
	default:
		if len(d) > 0 {
			i := r.Intn(len(d))
			d[i] = r.Pick(mdAlpha)
		}
	}
	return d
}

// docStreams feeds f with (stream name, document) for the standard streams.
type docOpts struct {
	blockLines      int // exhaustive line-structured documents up to this many lines
	randLines       int // number of random line-structured documents
	exhaustiveLen   int
	exhaustiveAlpha []byte
	corpus          bool
	random          int
	randomTok       int
	mutants         int
}

func docStreams(c *Ctx, o docOpts, f func(stream string, doc []byte)) {
	for _, d := range propCorpus(c.Prop) {
		f("past-failures", d)
	}
	if o.exhaustiveLen > 0 {
		alpha := o.exhaustiveAlpha
		if alpha == nil {
			alpha = mdAlpha
		}
		enumStrings(alpha, o.exhaustiveLen, func(b []byte) { f(fmt.Sprintf("exhaustive<=%d", o.exhaustiveLen), b) })
	}
	if o.blockLines > 0 {
		blockLineDocs(o.blockLines, func(b []byte) { f(fmt.Sprintf("block-lines<=%d", o.blockLines), b) })
	}
	for i := 0; i < o.randLines; i++ {
		f("random-lines", randLineDoc(c.R, 8))
	}
	var corp [][]byte
	if o.corpus || o.mutants > 0 {
		corp = corpusDocs()
	}
	if o.corpus {
		for _, d := range corp {
			f("corpus", d)
		}
	}
	tok := o.randomTok
	if tok == 0 {
		tok = 12
	}
	for i := 0; i < o.random; i++ {
		f("random-tokens", randDoc(c.R, tok))
	}
	// documents assembled from the extension constructs
	for i := 0; i < o.random/2; i++ {
		f("extension-constructs", extDoc(c.R))
	}
	// headings and fences with attribute blocks cut off at every point
	if o.random > 0 {
		frag := []string{"#id", ".c", "k=v", "k=\"v\"", "k='v'", "k=[1,2]", "k=[1,", "k=", "k", "=", "[", ",", "\"", "}", "{", " ", "data-x=1", "width=3", "1", "-", "k=1.5e", "k=\\\"", "é"}
		for i := 0; i < o.random/4; i++ {
			d := c.R.PickS([]string{"# t {", "## t {", "t {", "```go {", "# t {#a} {", "> # q {", "- # l {"})
			for k := c.R.Intn(6); k > 0; k-- {
				d += c.R.PickS(frag)
				if c.R.Intn(3) == 0 {
					d += " "
				}
			}
			switch c.R.Intn(5) {
			case 0:
				d += "}"
			case 1:
				d += "}\n"
			case 2:
				d += "\n=====\n"
			case 3:
				d += "\n"
			}
			f("attribute-soup", []byte(d))
		}
	}
	// documents printed from random SpecDoc trees (every construct of the C02 fragment, nested
	// containers, both indentation spellings) and deeply nested inline constructs
	if o.random > 0 {
		g := &sGen{r: c.R}
		for i := 0; i < o.random/4; i++ {
			f("specdoc", mdOf(i%4 == 3, i%2 == 0, g.doc(1+i%3)))
		}
		for i := 0; i < o.random/4; i++ {
			d := nestedInlines(c.R, 2+c.R.Intn(4))
			if i%2 == 0 {
				d += "\n\n[r]: /ref"
			}
			f("nested-inlines", []byte(d))
		}
	}
	for i := 0; i < o.mutants; i++ {
		d := corp[c.R.Intn(len(corp))]
		for k := 1 + c.R.Intn(3); k > 0; k-- {
			d = mutate(c.R, d, corp[c.R.Intn(len(corp))])
		}
		f("mutants", d)
	}
}

// ---------- line-structured documents ----------
// Every document made of up to n lines, each a container prefix followed by a block-level body.
var linePrefixes = []string{"", "> ", "- ", "  "}
var lineBodies = []string{"```", "a", "", "# h", "---", "<!--", "-->", "    c", "~~~", "* * *", "[a]: /u", "|a|b|", "|-|-|", "1. x", "<div>", "=="}

func blockLineDocs(n int, f func([]byte)) {
	var forms []string
	for _, p := range linePrefixes {
		for _, b := range lineBodies {
			forms = append(forms, p+b+"\n")
		}
	}
	var rec func(prefix string, d int)
	rec = func(prefix string, d int) {
		if d > 0 {
			f([]byte(prefix))
		}
		if d == n {
			return
		}
		for _, fm := range forms {
			rec(prefix+fm, d+1)
		}
	}
	rec("", 0)
}

// random longer line-structured documents over a richer vocabulary
var linePrefixesRich = []string{"", "", "> ", "- ", "  ", "1. ", "    ", "\t", ">", "* ", "   ", "> > ", "- - "}
var lineBodiesRich = []string{"```", "~~~", "````", "``` go", "a", "b c", "", "", "# h", "## h #", "---", "===", "***", "<!--", "-->", "<?php", "?>", "<div>", "</div>", "<pre>", "</pre>", "<a href=\"x\">",
	"    c", "\tc", "[a]: /u", "[a]: /u 't'", "[a]", "[a][]", "![a](b)", "|a|b|", "|-|-|", "|:-|-:|", "a|b", "1. x", "2) y", "- z", "+ w", ": d", "term", "[^1]: n", "[^1]", "- [ ] t", "- [x] t",
	"a  ", "a\\", "*e*", "**s**", "`c`", "~~d~~", "<b>", "http://x.y", "\"q\"", "a -- b...", "&amp;", "\\*", "あい", "\x80", "#", ">", "-", "+", "1.", "`", "[", "]("}

func randLineDoc(r *RNG, maxLines int) []byte {
	n := 1 + r.Intn(maxLines)
	var b []byte
	for i := 0; i < n; i++ {
		b = append(b, r.PickS(linePrefixesRich)...)
		if r.Intn(4) == 0 {
			b = append(b, r.PickS(linePrefixesRich)...)
		}
		b = append(b, r.PickS(lineBodiesRich)...)
		if i < n-1 || r.Intn(3) > 0 {
			b = append(b, '\n')
		}
	}
	return b
}

// ---------- documents built from the extension constructs ----------
// extDoc assembles tables, footnotes, definition lists, task lists, strikethrough, typographic
// punctuation, linkifiable text, attribute blocks and CJK text, alone, nested in containers and
// mixed with core constructs.  No expected output is known: the documents feed the oracles.
func extInline(r *RNG, depth int) string {
	leaf := []string{"a", "b c", "x_y", "1", "é", "あ", "ｱ", "\\|", "\\*", "&amp;", "&#65;", "`c|d`", "``", "<b>", "</b>", "<!-- c -->",
		"http://x.y/z?a=b&c=d", "https://e.f", "www.g.h/i", "ftp://j.k", "m@n.o", "mailto:p@q.r", "<http://s.t>", "<u@v.w>",
		"\"q\"", "'s'", "--", "---", "...", "<<", ">>", "it's", "'90s", "1/2", "(c)",
		"[^1]", "[^a]", "[^undefined]", "![^1]", "[^1][^a]", "[ ]", "[x]", "[X]", "~", "~~", ":", "|", "=", "{", "}", "{#i}", "{.c}", "\\\t", "\\ ", "  \n", "\\\n", "\n"}
	if depth <= 0 || r.Intn(3) == 0 {
		return r.PickS(leaf)
	}
	in := extInline(r, depth-1)
	if r.Intn(2) == 0 {
		in += " " + extInline(r, depth-1)
	}
	switch r.Intn(10) {
	case 0:
		return "~~" + in + "~~"
	case 1:
		return "~" + in + "~"
	case 2:
		return "*" + in + "*"
	case 3:
		return "**" + in + "**"
	case 4:
		return "[" + in + "](/u \"t\")"
	case 5:
		return "![" + in + "](/i)"
	case 6:
		return "\"" + in + "\""
	case 7:
		return "'" + in + "'"
	case 8:
		return "[" + in + "][r]"
	}
	return in
}

func extBlock(r *RNG, depth int) string {
	il := func() string { return strings.ReplaceAll(extInline(r, 2), "\n", " ") }
	switch r.Intn(12) {
	case 0: // table
		cols := 1 + r.Intn(4)
		var sb strings.Builder
		row := func(n int, f func(int) string) {
			lead, trail := r.Intn(4) != 0, r.Intn(4) != 0
			if lead {
				sb.WriteString("|")
			}
			for i := 0; i < n; i++ {
				if i > 0 {
					sb.WriteString("|")
				}
				sb.WriteString(f(i))
			}
			if trail || (n == 1 && !lead) {
				sb.WriteString("|")
			}
			sb.WriteString("\n")
		}
		row(cols, func(int) string { return " " + il() + " " })
		dcols := cols
		if r.Intn(8) == 0 {
			dcols = cols + r.Intn(3) - 1
			if dcols < 1 {
				dcols = 1
			}
		}
		row(dcols, func(int) string { return r.PickS([]string{"-", "--", ":-", "-:", ":-:", " --- ", ":--:", "-- -", ""}) })
		for k := r.Intn(4); k > 0; k-- {
			n := cols
			if r.Intn(3) == 0 {
				n = 1 + r.Intn(cols+2)
			}
			row(n, func(int) string { return r.PickS([]string{"", " ", il(), " " + il() + " ", "\\|", "`a|b`"}) })
		}
		if r.Intn(4) == 0 {
			sb.WriteString(r.PickS([]string{"|\n", "||\n", "| |\n", "x\n", "> q\n"}))
		}
		return sb.String()
	case 1: // footnote definitions
		var sb strings.Builder
		for k := 1 + r.Intn(3); k > 0; k-- {
			l := r.PickS([]string{"1", "a", "1", "b c", "é", "^", "undefined2"})
			sb.WriteString("[^" + l + "]: " + il() + "\n")
			if r.Intn(3) == 0 {
				sb.WriteString("    " + il() + "\n")
			}
			if r.Intn(3) == 0 {
				sb.WriteString("\n    - " + il() + "\n")
			}
			if r.Intn(2) == 0 {
				sb.WriteString("\n")
			}
		}
		return sb.String()
	case 2: // definition list
		var sb strings.Builder
		sb.WriteString(il() + "\n")
		if r.Intn(3) == 0 {
			sb.WriteString(il() + "\n")
		}
		if r.Intn(3) == 0 {
			sb.WriteString("\n")
		}
		for k := 1 + r.Intn(3); k > 0; k-- {
			sb.WriteString(r.PickS([]string{": ", ":   ", ":\t", "  : ", ": \n  "}) + il() + "\n")
			if r.Intn(3) == 0 {
				sb.WriteString("\n  " + il() + "\n")
			}
		}
		return sb.String()
	case 3: // task list
		var sb strings.Builder
		for k := 1 + r.Intn(3); k > 0; k-- {
			sb.WriteString(r.PickS([]string{"- ", "* ", "1. ", "  - "}) + r.PickS([]string{"[ ] ", "[x] ", "[X] ", "[ ]", "[x]a", "[  ] ", "\\[ ] ", "[ ]\t"}) + il() + "\n")
		}
		return sb.String()
	case 4: // heading or fence with attributes
		attrs := r.PickS([]string{"{#i}", "{.c}", "{#i .c k=v}", "{k=\"v w\"}", "{k='v'}", "{k=1.5}", "{k=[1,2]}", "{k}", "{ }", "{#i #j}", "{id=x}", "{id=\"a\\\" onclick=\\\"b\"}", "{onclick=x}", "{data-x=<}", "{class=\"a&b\"}", "{k=", "{", "{#}", "{.}"})
		switch r.Intn(4) {
		case 0:
			return strings.Repeat("#", 1+r.Intn(6)) + " " + il() + " " + attrs + "\n"
		case 1:
			return il() + " " + attrs + "\n" + r.PickS([]string{"===", "---"}) + "\n"
		case 2:
			return "```go " + attrs + "\ncode\n```\n"
		}
		return "# " + il() + " ## " + attrs + "\n"
	case 5: // several headings with colliding auto ids
		var sb strings.Builder
		for k := 2 + r.Intn(3); k > 0; k-- {
			sb.WriteString(strings.Repeat("#", 1+r.Intn(3)) + " " + r.PickS([]string{"a", "A", "a-1", "a 1", "", "é", "heading", "#", "a!", "  a  "}) + "\n\n")
		}
		return sb.String()
	case 6: // container around more of the same
		if depth <= 0 {
			return il() + "\n"
		}
		inner := extBlock(r, depth-1)
		pre := r.PickS([]string{"> ", ">", "- ", "1. ", "    ", "  "})
		cont := pre
		if pre == "- " {
			cont = "  "
		} else if pre == "1. " {
			cont = "   "
		}
		lines := strings.SplitAfter(inner, "\n")
		var sb strings.Builder
		for i, l := range lines {
			if l == "" {
				continue
			}
			if i == 0 {
				sb.WriteString(pre + l)
			} else {
				sb.WriteString(cont + l)
			}
		}
		return sb.String()
	case 7: // CJK paragraph
		return r.PickS([]string{"あい\nうえ\n", "漢字\nabc\n", "abc\n漢字\n", "ｱｲ\nｳｴ\n", "あ\\ い\n", "Ａ\nｂ\n", "안녕\n하세\n", "あ。\nい\n", "a.\nb\n", "あ\n*い*\n"})
	default:
		s := extInline(r, 3)
		if !strings.HasSuffix(s, "\n") {
			s += "\n"
		}
		return s
	}
}

func extDoc(r *RNG) []byte {
	var sb strings.Builder
	for k := 1 + r.Intn(4); k > 0; k-- {
		sb.WriteString(extBlock(r, 2))
		if r.Intn(5) != 0 {
			sb.WriteString("\n")
		}
	}
	if r.Intn(3) == 0 {
		sb.WriteString("\n[r]: /ref 'T'\n")
	}
	return []byte(sb.String())
}
