package main

import (
	"bytes"
	"fmt"
	"strings"
	"unicode"
)

// C11: enabling an extension never changes a document free of its trigger characters
type c11Ext struct {
	name  string
	free  func(d []byte) bool
	ascii bool
}

func noneOf(chars string) func([]byte) bool {
	return func(d []byte) bool { return !bytes.ContainsAny(d, chars) }
}

var c11OnGFM = []string{"footnote", "deflist", "typo", "cjk", "cjkesc", "cjkcss3"}

var c11Exts = []c11Ext{
	{"strike", noneOf("~"), false},
	{"table", noneOf("-"), false},
	{"task", noneOf("["), false},
	{"footnote", func(d []byte) bool { return !bytes.Contains(d, []byte("[^")) }, false},
	{"deflist", noneOf(":"), false},
	{"tablex", noneOf("-"), false},
	{"footnotex", func(d []byte) bool { return !bytes.Contains(d, []byte("[^")) }, false},
	{"typo", noneOf("'\"-.<>"), false},
	{"linkify", func(d []byte) bool {
		return !bytes.ContainsAny(d, ":@") && !bytes.Contains(bytes.ToLower(d), []byte("www."))
	}, false},
	{"cjk", func(d []byte) bool {
		for _, b := range d {
			if b >= 0x80 {
				return false
			}
		}
		return !bytes.Contains(d, []byte("\\ "))
	}, true},
	{"cjkesc", func(d []byte) bool {
		for _, b := range d {
			if b >= 0x80 {
				return false
			}
		}
		return !bytes.Contains(d, []byte("\\ "))
	}, true},
	{"cjkcss3", func(d []byte) bool {
		for _, b := range d {
			if b >= 0x80 {
				return false
			}
		}
		return !bytes.Contains(d, []byte("\\ "))
	}, true},
}

func runC11(c *Ctx) {
	c.Rep.Rule = "a case is (extension, base configuration, document free of the extension's trigger characters); Convert with the extension must equal Convert without; plus GFM versus its four members; distinct by hash; non-trivial = the document renders to at least 2 blocks"
	// tie of the dispatch model the theorems are about: block and inline probe components whose
	// trigger does not occur or that decline, next to the built-ins
	np := 1500
	if !c.Quick() {
		np = 40000
	}
	prioScenarios(c, np, []byte{'a', 'b'})
	bases := []Cfg{{Ext: "core"}, {Ext: "core", Unsafe: true, XHTML: true}, {Ext: "core", AutoID: true, Attr: true, HardWraps: true}}
	var cfgs []Cfg
	for _, b := range bases {
		cfgs = append(cfgs, b)
		for _, e := range c11Exts {
			x := b
			x.Ext = e.name
			cfgs = append(cfgs, x)
		}
		g := b
		g.Ext = "gfm"
		cfgs = append(cfgs, g)
		g4 := b
		g4.Ext = "gfm4"
		cfgs = append(cfgs, g4)
		// each non-GFM extension on top of GFM as well (extensions interact through the shared
		// inline loop and the renderer)
		for _, e := range c11OnGFM {
			x := b
			x.Ext = "gfm+" + e
			cfgs = append(cfgs, x)
		}
	}
	o := docOpts{exhaustiveLen: 3, corpus: true, random: 8000, mutants: 8000, blockLines: 2, randLines: 10000}
	if !c.Quick() {
		o = docOpts{exhaustiveLen: 3, corpus: true, random: 300000, randomTok: 16, mutants: 300000, blockLines: 3, randLines: 300000}
	}
	items := collectDocs(c, o, func(add func(string, []byte)) {
		for _, t := range []string{"### bar    ###", "foo    \nbar", "foo\n*bar*", "foo\n`c`", "a\\\tb", "col1\\\tcol2", "see\\\thttp://example.com/docs", "x\\\twww.a.b y", "m\\\ta@b.c", "a\\\nhttp://x.y", "t\\\t~~s~~", "[t](/u \"a\\\nb\")", "see ftp://a.b/c now", "| ftp://a.b |\n|--|", "- [ ] ftp://x.y", "http://a.b https://c.d www.e.f g@h.i",
			"a  \nb", "a \\  \nb", "*a*   \nb", "x\n\n    y   \n", "# h  \n", "> a   \n> b", "- a   \n", "a\n b\n  c", "\\*a\\*", "a\\\nb", "1. x\n   y  \n"} {
			add("targeted", []byte(t))
		}
		// bytes that come close to an extension's trigger syntax without being it
		near := []string{"x!y^2]", "(n!)^2]", "!^]", "a!b^c] d", "[x^]", "^[a]", "[ ^a]", "[a^b]", "!x^", "![a!b^c](/u)", "[q!r^s][ref]\n\n[ref]: /u", "[wow!2^8]\n\n[wow!2^8]: /u", "a [x] b", "- a [x]", "[x] a", "-[ ] a", "- [y] a", "- [ ]a", "-  [ ] a", "1.[x] a",
			"http:/a.b", "http//a.b", "www a.b", "www.a", "ww.a.b", "a@b", "a@.b", "@a.b", "mailto:", "ftp:a.b", "http://", "://a.b", "a:b", "a : b", "x\n:y", "x\n :", ":\n", "a\n\n:b",
			"a|b", "|", "a|\nb|", "|-", "-|-\n", "a\n-|", "| a |\n| b |", "a|b\n=|=", "1-2", "a - b", "a -- b"[:5], "'", "it's", "2\"", "a.b", "a. .b", "<a", "a>", "< <", "> >", "~", "a~b", "~ ~", "a ~ b~"}
		// documents in the syntax of one extension with the near-triggers of the others
		for _, t := range []string{"漢字 \n漢字", "あい \nうえ ", "漢 字\t\n漢字", "Ａ \nｂ", "漢字  \n漢字", "漢字 \n*漢字*", "*漢字* \n漢字", "漢字\\ \n漢字 \nabc", "- 漢字 \n  漢字", "> あ \n> い",
			"~~s~~ \nt", "a ~~b~~ \n", "|a |b |\n|-|-|\n|c |d |", "- [ ] a \n  b", "t \n: d \n", "x[^1] \ny\n\n[^1]: n \n", "\"q\" \n'r'", "a -- b \n... c", "http://a.b \nc", "www.a.b \n"} {
			add("pairwise", []byte(t))
		}
		for _, n := range near {
			add("near-trigger", []byte(n))
			add("near-trigger", []byte("- "+n+"\n\n> "+n+"\n"))
			add("near-trigger", []byte("# "+n+"\n\n*"+n+"* ["+n+"](/u)\n"))
		}
	})
	if c.Quick() {
		gfmModelCases(c, items, 5000)
	} else {
		gfmModelCases(c, items, 50000)
	}
	if c.Quick() {
		typoDefModelCases(c, items, 4000)
		footnoteModelCases(c, items, 2000)
	} else {
		typoDefModelCases(c, items, 40000)
		footnoteModelCases(c, items, 20000)
	}
	c11Pairwise(c, items)
	lawSweepAll(c, cfgs, items, "extension-conservativity", func(d []byte) bool { return true }, func(m mdT, all []mdT, d []byte) (string, bool) {
		if m.cf.Ext != "core" {
			return "", false
		}
		base, e, p := convertSafe(m.md, d)
		if e != "" || p != "" {
			return "", false
		}
		nontrivial := bytes.Count(base, []byte("\n")) >= 2
		same := func(a, b Cfg) bool { a.Ext, b.Ext = "", ""; return a == b }
		var gfm, gfm4 []byte
		for _, s := range all {
			if !same(s.cf, m.cf) || s.cf.Ext == "core" {
				continue
			}
			if strings.HasPrefix(s.cf.Ext, "gfm+") {
				continue // compared with GFM below
			}
			if s.cf.Ext == "gfm" || s.cf.Ext == "gfm4" {
				o, e2, p2 := convertSafe(s.md, d)
				if e2 != "" || p2 != "" {
					return "", nontrivial
				}
				if s.cf.Ext == "gfm" {
					gfm = o
				} else {
					gfm4 = o
				}
				continue
			}
			var ext *c11Ext
			for i := range c11Exts {
				if c11Exts[i].name == s.cf.Ext {
					ext = &c11Exts[i]
				}
			}
			if ext == nil || !ext.free(d) {
				continue
			}
			o, e2, p2 := convertSafe(s.md, d)
			if e2 != "" || p2 != "" {
				continue
			}
			if !bytes.Equal(o, base) {
				if ext.name == "cjkcss3" && onlyPunctBreaksDropped(d, base, o) {
					return "KNOWN:cjkcss3-ascii-punct " + fmt.Sprintf("%.120q vs %.120q", o, base), nontrivial
				}
				return fmt.Sprintf("extension %s changes a document without its trigger characters: %.250q vs %.250q", strings.ToUpper(ext.name), o, base), nontrivial
			}
		}
		if gfm != nil {
			for _, s := range all {
				if !same(s.cf, m.cf) || !strings.HasPrefix(s.cf.Ext, "gfm+") {
					continue
				}
				name := strings.TrimPrefix(s.cf.Ext, "gfm+")
				var ext *c11Ext
				for i := range c11Exts {
					if c11Exts[i].name == name {
						ext = &c11Exts[i]
					}
				}
				if ext == nil || !ext.free(d) {
					continue
				}
				o, e2, p2 := convertSafe(s.md, d)
				if e2 != "" || p2 != "" {
					continue
				}
				if !bytes.Equal(o, gfm) {
					if name == "cjkcss3" && onlyPunctBreaksDropped(d, gfm, o) {
						return "KNOWN:cjkcss3-ascii-punct " + fmt.Sprintf("%.120q vs %.120q", o, gfm), nontrivial
					}
					return fmt.Sprintf("extension %s on top of GFM changes a document without its trigger characters: %.250q vs %.250q", strings.ToUpper(name), o, gfm), nontrivial
				}
			}
		}
		if gfm != nil && gfm4 != nil && !bytes.Equal(gfm, gfm4) {
			return fmt.Sprintf("extension.GFM differs from its four members: %.250q vs %.250q", gfm, gfm4), nontrivial
		}
		return "", nontrivial
	})
}

// every extension on top of every other single extension: B+E against B, on the documents free
// of E's trigger characters (they may well use B's syntax)
func c11Pairwise(c *Ctx, items []docItem) {
	names := []string{"strike", "table", "task", "footnote", "deflist", "typo", "linkify", "cjk", "cjkesc", "cjkcss3", "tablex", "footnotex"}
	var cfgs []Cfg
	for _, b := range names {
		cfgs = append(cfgs, Cfg{Ext: b})
		for _, e := range names {
			if e != b && !(strings.HasPrefix(e, "cjk") && strings.HasPrefix(b, "cjk")) && strings.TrimSuffix(e, "x") != strings.TrimSuffix(b, "x") {
				cfgs = append(cfgs, Cfg{Ext: "pair:" + b + ":" + e})
			}
		}
	}
	var sub []docItem
	for i, it := range items {
		if it.stream == "targeted" || it.stream == "near-trigger" || it.stream == "pairwise" || it.stream == "past-failures" || i%5 == 0 || !c.Quick() && i%2 == 0 {
			sub = append(sub, it)
		}
	}
	lawSweepAll(c, cfgs, sub, "extension-conservativity-pairwise", func(d []byte) bool { return true }, func(m mdT, all []mdT, d []byte) (string, bool) {
		if strings.HasPrefix(m.cf.Ext, "pair:") {
			return "", false
		}
		base, e, p := convertSafe(m.md, d)
		if e != "" || p != "" {
			return "", false
		}
		nontrivial := bytes.Count(base, []byte("\n")) >= 2
		for _, s := range all {
			pre := "pair:" + m.cf.Ext + ":"
			if !strings.HasPrefix(s.cf.Ext, pre) {
				continue
			}
			name := strings.TrimPrefix(s.cf.Ext, pre)
			var ext *c11Ext
			for i := range c11Exts {
				if c11Exts[i].name == name {
					ext = &c11Exts[i]
				}
			}
			if ext == nil || !ext.free(d) {
				continue
			}
			o, e2, p2 := convertSafe(s.md, d)
			if e2 != "" || p2 != "" {
				continue
			}
			if !bytes.Equal(o, base) {
				if name == "cjkcss3" && onlyPunctBreaksDropped(d, base, o) {
					return "KNOWN:cjkcss3-ascii-punct " + fmt.Sprintf("%.120q vs %.120q", o, base), nontrivial
				}
				return fmt.Sprintf("extension %s on top of %s changes a document without its trigger characters: %.250q vs %.250q", strings.ToUpper(name), strings.ToUpper(m.cf.Ext), o, base), nontrivial
			}
		}
		return "", nontrivial
	})
}

// The recorded CSS3-draft finding: `got` equals `base` with some newlines removed, and the
// source has at least as many line ends with an ASCII Unicode-punctuation character next to them
// (the rule looks at the source text, e.g. the ';' of a character reference).
func onlyPunctBreaksDropped(src, base, got []byte) bool {
	i, j := 0, 0
	dropped := 0
	for i < len(base) {
		if j < len(got) && base[i] == got[j] {
			i++
			j++
			continue
		}
		if base[i] != '\n' {
			return false
		}
		dropped++
		i++
	}
	if j != len(got) || dropped == 0 {
		return false
	}
	cand := 0
	for k := 0; k < len(src); k++ {
		if src[k] != '\n' {
			continue
		}
		p := k - 1
		for p >= 0 && (src[p] == '\r' || src[p] == ' ' || src[p] == '\t') {
			p--
		}
		n := k + 1
		for n < len(src) && (src[n] == ' ' || src[n] == '\t' || src[n] == '>' || src[n] == '\r') {
			n++
		}
		if p >= 0 && unicode.IsPunct(rune(src[p])) || n < len(src) && unicode.IsPunct(rune(src[n])) {
			cand++
		}
	}
	return cand >= dropped
}
