package main

import (
	"bytes"
	"fmt"
	"runtime/debug"
	"sync"
	"syscall"
	"unsafe"

	"github.com/yuin/goldmark/text"
	"github.com/yuin/goldmark/util"
)

func init() { runners["C12"] = runC12 }

const pageSize = 4096

// a read-only mapping: [data pages, PROT_READ][guard page, PROT_NONE]
type roMap struct {
	mem  []byte
	data []byte // the read-only part
}

func newROMap(pages int) (*roMap, error) {
	mem, err := syscall.Mmap(-1, 0, (pages+1)*pageSize, syscall.PROT_READ|syscall.PROT_WRITE, syscall.MAP_ANON|syscall.MAP_PRIVATE)
	if err != nil {
		return nil, err
	}
	return &roMap{mem: mem, data: mem[:pages*pageSize]}, nil
}

// place doc so that it ends `tail` bytes before the end of the read-only region
func (m *roMap) place(doc []byte, tail int) ([]byte, bool) {
	if len(doc)+tail > len(m.data) {
		return nil, false
	}
	if err := syscall.Mprotect(m.mem, syscall.PROT_READ|syscall.PROT_WRITE); err != nil {
		return nil, false
	}
	for i := range m.data {
		m.data[i] = 'X'
	}
	end := len(m.data) - tail
	copy(m.data[end-len(doc):end], doc)
	if err := syscall.Mprotect(m.data, syscall.PROT_READ); err != nil {
		return nil, false
	}
	if err := syscall.Mprotect(m.mem[len(m.data):], syscall.PROT_NONE); err != nil {
		return nil, false
	}
	// capacity runs to the end of the read-only region: a store into the spare capacity faults too
	return m.data[end-len(doc) : end : len(m.data)], true
}

func aliases(a, b []byte) bool {
	if cap(a) == 0 || cap(b) == 0 {
		return false
	}
	pa := uintptr(unsafe.Pointer(unsafe.SliceData(a)))
	pb := uintptr(unsafe.Pointer(unsafe.SliceData(b)))
	return pa >= pb && pa < pb+uintptr(cap(b))
}

func runC12(c *Ctx) {
	c.Rep.Rule = "a case is (configuration, document, placement in read-only memory) or (util function / Segment.Value, input with spare capacity and canary bytes); distinct by hash; non-trivial = the run performed a copy-on-write transformation or a forced-newline value (the document contains an escape, entity, code block or link)"
	// ---- part 1: Segment.Value and the util transformers on slices with spare capacity ----
	nSeg := 6000
	if !c.Quick() {
		nSeg = 150000
	}
	for i := 0; i < nSeg; i++ {
		doc := randBytes(c.R, []byte{'a', 'b', ' ', '\n', '\t', '`'}, 12)
		extra := c.R.Intn(4)
		big := make([]byte, len(doc)+extra)
		copy(big, doc)
		for k := len(doc); k < len(big); k++ {
			big[k] = 'X'
		}
		src := big[:len(doc)]
		a := c.R.Intn(len(doc) + 1)
		b := a + c.R.Intn(len(doc)-a+1)
		seg := text.NewSegmentPadding(a, b, c.R.Intn(3))
		seg.ForceNewline = c.R.Bool()
		v := seg.Value(src)
		stored := !bytes.Equal(big[:len(doc)], doc)
		for k := len(doc); k < len(big); k++ {
			if big[k] != 'X' {
				stored = true
			}
		}
		if stored {
			c.Violate("segment-value-writes-source", map[string]interface{}{"source": q(doc), "spare_capacity": extra, "segment": segStr(seg), "force_newline": seg.ForceNewline},
				fmt.Sprintf("Segment.Value wrote into the caller's array: %q", big), "segment-value-writes-source")
		}
		c.Case("SegValueHeap", []string{hx(doc), itoa(extra), itoa(a), itoa(b), itoa(seg.Padding), btoa(seg.ForceNewline)},
			fmt.Sprintf("%s:%s:%s", btoa(stored), btoa(aliases(v, big)), hx(v)))
		c.Count("segment-values", fmt.Sprintf("%s/%d/%s/%v", doc, extra, segStr(seg), seg.ForceNewline), seg.ForceNewline && b > a)
	}
	type ufn struct {
		name string
		f    func([]byte) []byte
	}
	ufns := []ufn{{"EscapeHTML", util.EscapeHTML}, {"UnescapePunctuations", util.UnescapePunctuations}, {"ResolveNumericReferences", util.ResolveNumericReferences},
		{"ResolveEntityNames", util.ResolveEntityNames}, {"URLEscape", func(b []byte) []byte { return util.URLEscape(b, true) }}, {"DoFullUnicodeCaseFolding", util.DoFullUnicodeCaseFolding},
		{"ReplaceSpaces", func(b []byte) []byte { return util.ReplaceSpaces(b, ' ') }}, {"TrimLeftSpace", util.TrimLeftSpace}, {"TrimRightSpace", util.TrimRightSpace},
		{"ToLinkReference", func(b []byte) []byte { return []byte(util.ToLinkReference(b)) }}}
	nU := 3000
	if !c.Quick() {
		nU = 80000
	}
	for i := 0; i < nU; i++ {
		in := c19Random(c.R, 5)
		for _, f := range ufns {
			extra := 1 + c.R.Intn(8)
			big := make([]byte, len(in)+extra)
			copy(big, in)
			for k := len(in); k < len(big); k++ {
				big[k] = 0xAA
			}
			out := f.f(big[:len(in)])
			// the result may alias the input (that is the point of copy-on-write); appending to it
			// must not be done by the library, so the canary must be intact
			bad := !bytes.Equal(big[:len(in)], in)
			for k := len(in); k < len(big); k++ {
				if big[k] != 0xAA {
					bad = true
				}
			}
			if bad {
				c.Violate("util-writes-input", map[string]string{"fn": f.name, "input": q(in)}, fmt.Sprintf("input array after the call: %q", big), "util-writes-input")
			}
			_ = out
			c.Count("util-with-canary", f.name+string(in), len(in) > 0)
		}
	}
	// ---- part 2: whole conversions with the source in read-only memory ----
	cfgs := smallLattice()
	o := docOpts{exhaustiveLen: 2, corpus: true, random: 3000, mutants: 3000, blockLines: 2, randLines: 3000}
	if !c.Quick() {
		o = docOpts{exhaustiveLen: 3, corpus: true, random: 100000, mutants: 100000, blockLines: 3, randLines: 100000}
	}
	items := collectDocs(c, o, func(add func(string, []byte)) {
		for _, t := range []string{"```\nabc", "    code", "> ```\n> x", "`foo\nbar`\n", "> [a](/url \"line1\n> line2\")", "[a](/u 't\n  u')", "- `a\n  b`", "~~~\nx", "\tcode", "a\\\nb", "&amp; \\* [l]: /u", "[foo\nbar]: /u\n\n[foo bar]", "<a\nb>", "|a|\n|-|\n|`x\\|y`|", "# h {#i}", "[^1]\n\n[^1]: n", "t\n: d", "\"q\" -- ...",
			// attribute blocks: values that are slices of the source next to values that have to be
			// formatted (numbers, booleans), on names that pass the filters
			"# Title {.intro tabindex=2}", "# T {#i data-n=1.5 data-b=true}", "t {lang=en hidden=true}\n===", "## T {title=x data-z=-3e2 .c}", "# T {data-a=b data-c=7 data-d=e data-f=false}", "# T {tabindex=2 .intro}", "# T {.a .b data-n=12345678901234567890}",
			"```go {.c data-n=1}\nx\n```", "> # q {#a data-k=0.5}"} {
			add("targeted", []byte(t))
			// the same document in capitals: labels, names and tags that some component folds or
			// normalises must be folded into a copy, never in place
			if u := bytes.ToUpper([]byte(t)); !bytes.Equal(u, []byte(t)) {
				add("targeted", u)
			}
		}
		for _, t := range []string{"[^Note]\n\n[^Note]: n", "[^NOTE]: n\n\n[^note] [^Note]", "[^\u00c0B]: n\n\n[^\u00e0b]", "[Foo]: /u\n\n[FOO] [foo]", "[\u00c0B  C]: /u\n\n[\u00e0b c]", "<DIV>\nx\n</DIV>", "<HTTP://EXAMPLE.COM>", "WWW.EXAMPLE.COM HTTP://A.B FOO@BAR.COM",
			"Term\n: Def", "- [X] done", "|A|B|\n|:-|-:|\n|C|D|", "# H {#ID .CLASS DATA-N=X}", "```GO\nX\n```", "&AMP; &Amp; &#X41;", "[a](/U%C3%A4 \"T\")"} {
			add("targeted", []byte(t))
		}
	})
	for _, it := range append([]docItem{}, items...) {
		if it.stream == "corpus" || it.stream == "context-x-content" {
			if u := bytes.ToUpper(it.doc); !bytes.Equal(u, it.doc) {
				items = append(items, docItem{it.stream, u})
			}
		}
	}
	nw := 16
	maps := make([]*roMap, nw)
	built := make([][]mdT, nw)
	for w := 0; w < nw; w++ {
		m, err := newROMap(2)
		if err != nil {
			c.Violate("harness", "mmap", err.Error(), "harness")
			return
		}
		maps[w] = m
		for _, cf := range cfgs {
			built[w] = append(built[w], mdT{cf, cf.Build()})
		}
	}
	var mu sync.Mutex
	type viol struct {
		i            int
		cfg, kind, d string
	}
	var viols []viol
	parallelItems(items, func(w, i int, it docItem) {
		w = w % nw
		if len(it.doc) > pageSize {
			return
		}
		use := built[w]
		if it.stream != "targeted" && it.stream != "corpus" {
			use = []mdT{use[i%len(use)], use[(i+5)%len(use)]}
		}
		for _, tail := range []int{0, 7} {
			src, ok := maps[w].place(it.doc, tail)
			if !ok {
				continue
			}
			for _, m := range use {
				func() {
					debug.SetPanicOnFault(true)
					defer func() {
						if r := recover(); r != nil {
							mu.Lock()
							viols = append(viols, viol{i, m.cf.Name(), "write-to-readonly-source", fmt.Sprintf("fault while converting a source in read-only memory (%d bytes before the end of the mapping): %v", tail, r)})
							mu.Unlock()
						}
					}()
					var b bytes.Buffer
					_ = m.md.Convert(src, &b)
				}()
			}
		}
	})
	shown := 0
	for _, v := range viols {
		if shown < 8 {
			shown++
			c.Violate(v.kind, map[string]string{"config": v.cfg, "source": q(items[v.i].doc), "stream": items[v.i].stream}, v.d, v.kind)
		}
	}
	for _, it := range items {
		c.Count(it.stream, it.stream+string(it.doc), bytes.ContainsAny(it.doc, "\\&`[") || bytes.Contains(it.doc, []byte("    ")))
	}
	c.Rep.Extra["configurations"] = len(cfgs)
	c.Rep.Extra["readonly_mapping"] = "2 data pages PROT_READ + 1 guard page PROT_NONE; source placed at the end of the data pages and 7 bytes before it; debug.SetPanicOnFault"
}
