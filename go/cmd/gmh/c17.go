package main

import (
	"bytes"
	"fmt"
	"regexp"
	"strings"

	"github.com/yuin/goldmark/ast"
	"github.com/yuin/goldmark/extension"
	east "github.com/yuin/goldmark/extension/ast"
	"github.com/yuin/goldmark/parser"
	"github.com/yuin/goldmark/text"
)

func init() { runners["C17"] = runC17; runners["C16"] = runC16 }

var c17Cells = []string{"a", "b c", "", " ", "`x|y`", "x\\|y", "`a\\|b`", "*e*", "[l](u)", "\\", "`", "|", "-", ":-", "<b>", "&amp;", "あ",
	// runs of one to four backslashes at the end of a cell (in front of the separator), inside a
	// cell in front of a pipe, in code spans
	"a\\\\", "\\\\", "a\\\\\\", "\\\\\\\\", "x\\\\|y", "x\\\\\\|y", "`a\\\\|b`", "`a\\\\\\|b`", "\\ ", "a\\ "}
var c17Delims = []string{"-", "--", ":-", "-:", ":-:", ":--:", " - ", "---", "=", ":", "", "-x", ":-:-"}

func c17Row(r *RNG, n int, cells []string) string {
	var parts []string
	for i := 0; i < n; i++ {
		parts = append(parts, r.PickS(cells))
	}
	s := strings.Join(parts, []string{"|", " | ", "| "}[r.Intn(3)])
	switch r.Intn(4) {
	case 0:
		return "|" + s + "|"
	case 1:
		return "|" + s
	case 2:
		return s + "|"
	}
	return s
}

// every table in the output: (header cells, each body row's cells, alignments)
type tableShape struct {
	theads, header int
	rows           []int
	bad            string
}

var rawTableTag = regexp.MustCompile(`(?i)</?(table|thead|tbody|tr|td|th)\b`)

func tableShapes(out []byte) []tableShape {
	toks, _ := scanHTML(out)
	var res []tableShape
	var cur *tableShape
	inHead := false
	rowCells := -1
	for _, t := range toks {
		switch {
		case t.kind == 's' && t.name == "table":
			res = append(res, tableShape{})
			cur = &res[len(res)-1]
		case cur == nil:
		case t.kind == 's' && t.name == "thead":
			cur.theads++
			inHead = true
		case t.kind == 'e' && t.name == "thead":
			inHead = false
		case t.kind == 's' && t.name == "tr":
			rowCells = 0
		case t.kind == 'e' && t.name == "tr":
			if inHead {
				cur.header = rowCells
			} else {
				cur.rows = append(cur.rows, rowCells)
			}
			rowCells = -1
		case t.kind == 's' && (t.name == "th" || t.name == "td"):
			if rowCells < 0 {
				cur.bad = "cell outside a row"
			} else {
				rowCells++
			}
			if (t.name == "th") != inHead {
				cur.bad = "th/td in the wrong section"
			}
		case t.kind == 'e' && t.name == "table":
			cur = nil
		}
	}
	return res
}

func runC17(c *Ctx) {
	c.Rep.Rule = "a case is (configuration, document with pipe/dash/colon soup); every rendered table must have one header row and body rows of the header's width, cells carrying their column's alignment; a header/delimiter mismatch must not become a table; distinct by hash; non-trivial = a table was produced or a delimiter-like line was present"
	cfgs := []Cfg{{Ext: "table", TableAlign: 1}, {Ext: "gfm"}, {Ext: "all", Attr: true}, {Ext: "gfm", XHTML: true, Unsafe: true}}
	n := 25000
	if !c.Quick() {
		n = 600000
	}
	var items []docItem
	for _, d := range propCorpus("C17") {
		items = append(items, docItem{"past-failures", d})
	}
	for i := 0; i < n; i++ {
		hc := 1 + c.R.Intn(4)
		dc := hc
		if c.R.Intn(4) == 0 {
			dc = 1 + c.R.Intn(4)
		}
		var b strings.Builder
		if c.R.Intn(4) == 0 {
			b.WriteString("intro text\n")
		}
		header := c17Row(c.R, hc, c17Cells)
		if c.R.Intn(10) == 0 {
			header = []string{"|", "||", "| |", "a", ""}[c.R.Intn(5)]
		}
		b.WriteString(header + "\n")
		var ds []string
		for k := 0; k < dc; k++ {
			ds = append(ds, c.R.PickS(c17Delims[:8]))
			if c.R.Intn(12) == 0 {
				ds[k] = c.R.PickS(c17Delims)
			}
		}
		dl := strings.Join(ds, "|")
		if c.R.Bool() {
			dl = "|" + dl + "|"
		}
		b.WriteString(dl + "\n")
		for r := c.R.Intn(4); r > 0; r-- {
			b.WriteString(c17Row(c.R, 1+c.R.Intn(6), c17Cells) + "\n")
		}
		d := b.String()
		switch c.R.Intn(6) {
		case 0:
			d = string(prefixLines([]byte(d), "> "))
		case 1:
			d = "- " + strings.ReplaceAll(strings.TrimSuffix(d, "\n"), "\n", "\n  ") + "\n"
		}
		items = append(items, docItem{"table-soup", []byte(d)})
	}
	// header/delimiter mismatch, with plain cells so that the counts are known by construction
	for hc := 1; hc <= 5; hc++ {
		for dc := 1; dc <= 5; dc++ {
			if hc == dc {
				continue
			}
			for v := 0; v < 8; v++ {
				h := "zqhm" + strings.Repeat("|x", hc-1)
				dl := strings.TrimSuffix(strings.Repeat([]string{"-|", ":-|", "-:|", ":-:|"}[v%4], dc), "|")
				if v >= 4 {
					h = "|" + h + "|"
					dl = "|" + dl + "|"
				}
				body := "\n" + strings.TrimSuffix(strings.Repeat("y|", dc), "|") + "\n"
				items = append(items, docItem{"header-mismatch", []byte(h + "\n" + dl + body)})
				// the delimiter row as the last line, with and without a line end; in front of a
				// Setext underline; inside a block quote and a list item
				for _, d := range []string{h + "\n" + dl, h + "\n" + dl + "\n", h + "\n" + dl + "\n===\n", h + "\n" + dl + "\n---", "> " + h + "\n> " + dl, "- " + h + "\n  " + dl, "text\n" + h + "\n" + dl} {
					items = append(items, docItem{"header-mismatch", []byte(d)})
				}
			}
		}
	}
	// header lines without any cell above a valid delimiter row
	for _, h := range []string{"|", "||", "| |", " | ", "|  |"} {
		for dc := 1; dc <= 3; dc++ {
			for _, pre := range []string{"", "> ", "intro\n"} {
				dl := "|" + strings.Repeat("-|", dc)
				doc := pre + h + "\n" + strings.TrimPrefix(pre, "intro\n") + dl + "\n" + strings.TrimPrefix(pre, "intro\n") + strings.TrimSuffix(strings.Repeat("y|", dc), "|") + "\n\nzqmismatch\n"
				if h == "| |" && dc == 1 || h == "|  |" && dc == 1 || h == " | " && dc == 1 {
					continue // one (empty) cell: a legitimate one-column header
				}
				items = append(items, docItem{"header-mismatch", []byte(doc)})
			}
		}
	}
	for _, it := range collectDocs(c, docOpts{corpus: true, random: 2000, randLines: 3000}, nil) {
		if bytes.Contains(it.doc, []byte("|")) || bytes.Contains(it.doc, []byte("-")) {
			items = append(items, it)
		}
	}
	for i, it := range items {
		if it.stream == "table-soup" || it.stream == "header-mismatch" || i%5 == 0 {
			if !bytes.HasPrefix(it.doc, []byte("> ")) && !bytes.HasPrefix(it.doc, []byte("- ")) {
				tableTransformCase(c, it.doc)
			}
		}
	}
	// the GFM model (model/GfmI.v: default parser + table, strikethrough, task list, linkify):
	// its tree and its output against goldmark's, on these documents and on the GFM streams
	{
		ng := 3000
		if !c.Quick() {
			ng = 60000
		}
		gfmDocs(c, ng, func(stream string, d []byte) { items = append(items, docItem{stream, d}) })
		gfmModelCases(c, items, 4*ng)
	}
	// interleaved renderings on one instance: while the header row of document A is being
	// written, the writer converts document B on the same Markdown value; both outputs must be
	// what they are when the documents are converted one after the other
	{
		tbl := []string{"|a|b|c|\n|-|:-|-:|\n|1|2|3|\n|4|5|6|\n", "x|y\n-|-\nz|w\n", "|h|\n|-|\n|`c\\|d`|\n|e|f|\n", "- |p|q|\n  |-|-|\n  |r|\n"}
		for _, cf := range cfgs {
			md := cf.Build()
			for _, a := range tbl {
				for _, b := range tbl {
					seqA, _, _ := convertSafe(md, []byte(a))
					seqB, _, _ := convertSafe(md, []byte(b))
					var outB bytes.Buffer
					w := &reentrantWriter{at: []byte("<thead>\n<tr>\n"), f: func() { _ = md.Convert([]byte(b), &outB) }}
					func() {
						defer func() { recover() }()
						_ = md.Convert([]byte(a), w)
					}()
					in := map[string]interface{}{"config": cf.Name(), "source": q([]byte(a)), "converted_inside_the_writer": q([]byte(b))}
					if !bytes.Equal(w.buf.Bytes(), seqA) || !bytes.Equal(outB.Bytes(), seqB) {
						c.Violate("table-shape", in, fmt.Sprintf("interleaved renderings differ from sequential ones: %.300q and %.300q, sequentially %.300q and %.300q", w.buf.Bytes(), outB.Bytes(), seqA, seqB), "table-shape")
					}
					c.Count("interleaved-renderings", cf.Name()+a+"\x00"+b, true)
				}
			}
		}
	}
	// large tables: many columns times many short rows, so that the number of cells the
	// transformer has to add (or drop) in one table crosses every power of two up to 2^20
	// (2^22 in the thorough tier): a budget, a counter or a buffer sized for ordinary tables
	{
		type dim struct{ cols, rows int }
		dims := []dim{{8, 3000}, {64, 1100}, {256, 300}, {1024, 40}, {1024, 140}, {1024, 520}, {1024, 1030}, {2048, 260}, {3000, 100}}
		if !c.Quick() {
			dims = append(dims, dim{1024, 2100}, dim{1024, 4100}, dim{4096, 1030}, dim{16, 70000})
		}
		for di, dm := range dims {
			for pat := 0; pat < 3; pat++ {
				var b strings.Builder
				b.WriteString(strings.Repeat("|h", dm.cols) + "|\n" + strings.Repeat("|-", dm.cols) + "|\n")
				for r := 0; r < dm.rows; r++ {
					switch {
					case pat == 0 || (pat == 1 && r%3 == 0):
						b.WriteString("|x|\n")
					case pat == 1 && r%3 == 1:
						b.WriteString(strings.Repeat("|y", dm.cols) + "|\n")
					case pat == 1:
						b.WriteString(strings.Repeat("|z", dm.cols+3) + "|\n")
					default:
						b.WriteString("|" + strings.Repeat("w|", 1+r%7) + "\n")
					}
				}
				cf := cfgs[(di+pat)%len(cfgs)]
				out, e, p := convertSafe(cf.Build(), []byte(b.String()))
				if e != "" || p != "" {
					continue
				}
				in := map[string]interface{}{"config": cf.Name(), "columns": dm.cols, "rows": dm.rows, "row_pattern": []string{"one cell", "one cell / full / three too many", "one to seven cells"}[pat], "source": "|h (x columns)|, |- (x columns)|, then the rows of the pattern"}
				parts := bytes.Split(out, []byte("<tr>"))
				if len(parts) != dm.rows+2 || bytes.Count(out, []byte("<table>")) != 1 {
					c.Violate("table-shape", in, fmt.Sprintf("%d rows and %d tables in the output, expected %d and 1", len(parts)-1, bytes.Count(out, []byte("<table>")), dm.rows+1), "table-shape")
					continue
				}
				for ri, part := range parts[1:] {
					n := bytes.Count(part, []byte("<td")) + bytes.Count(part, []byte("<th"))
					if n != dm.cols {
						c.Violate("table-shape", in, fmt.Sprintf("row %d (0 = header) has %d cells, the header %d", ri, n, dm.cols), "table-shape")
						break
					}
				}
				c.Count("large-tables", fmt.Sprintf("%d/%d/%d", dm.cols, dm.rows, pat), true)
			}
		}
	}
	lawSweep(c, cfgs, items, "table-shape", func(d []byte) bool { return true }, func(m mdT, d []byte) (string, bool) {
		out, e, p := convertSafe(m.md, d)
		if e != "" || p != "" {
			return "", false
		}
		if m.cf.Unsafe && rawTableTag.Match(d) {
			// with raw HTML passed through, a <table> in the output may be the author's own
			// markup, which the property does not speak about
			return "", false
		}
		shapes := tableShapes(out)
		for _, s := range shapes {
			if s.bad != "" {
				return s.bad + fmt.Sprintf("; output %.300q", out), true
			}
			if s.theads != 1 {
				return fmt.Sprintf("table with %d header rows; output %.300q", s.theads, out), true
			}
			if s.header == 0 {
				return fmt.Sprintf("table with an empty header row; output %.300q", out), true
			}
			for i, r := range s.rows {
				if r != s.header {
					return fmt.Sprintf("body row %d has %d cells, the header %d; output %.300q", i+1, r, s.header, out), true
				}
			}
		}
		// constructed mismatch documents (stream "header-mismatch"): no table at all
		if (bytes.Contains(d, []byte("zqhm")) || bytes.HasSuffix(d, []byte("zqmismatch\n"))) && len(shapes) > 0 {
			return fmt.Sprintf("a header whose cell count differs from the delimiter row became a table; output %.300q", out), true
		}
		return "", len(shapes) > 0 || bytes.Contains(d, []byte("-|"))
	})
}

// ---- correspondence of the table paragraph transformer (public API) ----

// line segments as the paragraph parser would record them: each line from its first non-space
// byte to the end of the line (newline included)
func paragraphLines(src []byte) []text.Segment {
	var out []text.Segment
	start := 0
	for start < len(src) {
		end := start
		for end < len(src) && src[end] != '\n' {
			end++
		}
		if end < len(src) {
			end++
		}
		a := start
		for a < end && (src[a] == ' ' || src[a] == '\t') {
			a++
		}
		if a < end && src[a] != '\n' {
			out = append(out, text.NewSegment(a, end))
		}
		start = end
	}
	return out
}

func cellStr(c ast.Node) string {
	tc := c.(*east.TableCell)
	s := "-"
	if tc.Lines().Len() > 0 {
		l := tc.Lines().At(0)
		s = fmt.Sprintf("%d:%d", l.Start, l.Stop)
	}
	return fmt.Sprintf("%s/%d", s, int(tc.Alignment))
}

func tableTransformCase(c *Ctx, src []byte) {
	lines := paragraphLines(src)
	if len(lines) == 0 {
		return
	}
	doc := ast.NewDocument()
	para := ast.NewParagraph()
	segs := text.NewSegments()
	segs.AppendAll(append([]text.Segment(nil), lines...))
	para.SetLines(segs)
	doc.AppendChild(doc, para)
	res := ""
	func() {
		defer func() {
			if r := recover(); r != nil {
				res = "PANIC"
			}
		}()
		extension.NewTableParagraphTransformer().Transform(para, text.NewReader(src), parser.NewContext())
	}()
	if res == "" {
		var tbl *east.Table
		kept := 0
		for n := doc.FirstChild(); n != nil; n = n.NextSibling() {
			if t, ok := n.(*east.Table); ok {
				tbl = t
			} else if p, ok := n.(*ast.Paragraph); ok {
				kept = p.Lines().Len()
			}
		}
		if tbl == nil {
			res = "none"
		} else {
			var al strings.Builder
			for _, a := range tbl.Alignments {
				al.WriteString(itoa(int(a)))
			}
			var header []string
			var rows []string
			for r := tbl.FirstChild(); r != nil; r = r.NextSibling() {
				var cs []string
				for cc := r.FirstChild(); cc != nil; cc = cc.NextSibling() {
					cs = append(cs, cellStr(cc))
				}
				if _, ok := r.(*east.TableHeader); ok {
					header = cs
				} else {
					rows = append(rows, strings.Join(cs, ","))
				}
			}
			res = fmt.Sprintf("%d|%s|%s|%s", kept, al.String(), strings.Join(header, ","), strings.Join(rows, ";"))
		}
	}
	var ls []string
	for _, l := range lines {
		ls = append(ls, fmt.Sprintf("%d,%d,%d", l.Start, l.Stop, l.Padding))
	}
	c.Case("TableTransform", []string{hx(src), strings.Join(ls, ";")}, res)
}

// a destination that runs f once, when what it has received so far ends with `at`
type reentrantWriter struct {
	buf   bytes.Buffer
	at    []byte // nil: run f when atLen bytes have been received
	atLen int
	f     func()
	done  bool
}

func (w *reentrantWriter) check() {
	if !w.done && (w.at != nil && bytes.HasSuffix(w.buf.Bytes(), w.at) || w.at == nil && w.buf.Len() >= w.atLen) {
		w.done = true
		w.f()
	}
}

// the methods of util.BufWriter: the renderer then writes through without a buffer of its own
func (w *reentrantWriter) Write(p []byte) (int, error) {
	n, err := w.buf.Write(p)
	w.check()
	return n, err
}
func (w *reentrantWriter) WriteString(s string) (int, error) {
	n, err := w.buf.WriteString(s)
	w.check()
	return n, err
}
func (w *reentrantWriter) WriteByte(b byte) error {
	err := w.buf.WriteByte(b)
	w.check()
	return err
}
func (w *reentrantWriter) WriteRune(r rune) (int, error) {
	n, err := w.buf.WriteRune(r)
	w.check()
	return n, err
}
func (w *reentrantWriter) Available() int { return 1 << 20 }
func (w *reentrantWriter) Buffered() int  { return 0 }
func (w *reentrantWriter) Flush() error   { return nil }
