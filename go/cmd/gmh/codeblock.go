package main

// Correspondence cases for parser/code_block.go (coq/model/CodeBlock.v): the real indented
// code block parser is driven line by line the way the block driver does.

import (
	"fmt"
	"strings"

	"github.com/yuin/goldmark/parser"
	"github.com/yuin/goldmark/text"

	"github.com/yuin/goldmark/ast"
)

func segStrF(s text.Segment) string {
	return fmt.Sprintf("%d,%d,%d,%s", s.Start, s.Stop, s.Padding, btoa(s.ForceNewline))
}

func codeBlockCases(c *Ctx, n int) {
	cb := parser.NewCodeBlockParser()
	one := func(prefix string, pad int, lines []string) {
		var sb strings.Builder
		for _, l := range lines {
			sb.WriteString(prefix)
			sb.WriteString(l)
		}
		src := []byte(sb.String())
		res := ""
		func() {
			defer func() {
				if x := recover(); x != nil {
					res += "PANIC"
				}
			}()
			r := text.NewReader(src)
			pc := parser.NewContext()
			skip := func() {
				if pad > 0 {
					r.AdvanceAndSetPadding(len(prefix), pad)
				} else if len(prefix) > 0 {
					r.Advance(len(prefix))
				}
			}
			skip()
			node, _ := cb.Open(ast.NewDocument(), r, pc)
			if node == nil {
				res = "nil"
				return
			}
			var parts []string
			parts = append(parts, "open:"+segStrF(node.Lines().At(0)))
			for {
				r.AdvanceLine()
				if ln, _ := r.PeekLine(); ln == nil {
					break
				}
				skip()
				if ln, _ := r.PeekLine(); ln == nil {
					break
				}
				before := node.Lines().Len()
				st := cb.Continue(node, r, pc)
				if st == parser.Close {
					parts = append(parts, "close")
					break
				}
				if node.Lines().Len() != before+1 {
					parts = append(parts, "?")
					break
				}
				parts = append(parts, "cont:"+segStrF(node.Lines().At(before)))
			}
			l, p := r.Position()
			parts = append(parts, fmt.Sprintf("@%d,%s", l, segStr(p)))
			cb.Close(node, r, pc)
			var ls []string
			for i := 0; i < node.Lines().Len(); i++ {
				ls = append(ls, segStrF(node.Lines().At(i)))
			}
			parts = append(parts, "lines:"+strings.Join(ls, ";"))
			res = strings.Join(parts, "|")
		}()
		c.Case("CodeBlockRun", []string{hx(src), itoa(len(prefix)), itoa(pad), itoa(len(lines))}, res)
	}
	indents := []string{"    ", "\t", "  \t", " \t", "     ", "\t ", "\t\t", "      ", "   \t ", "  ", "", " ", "   ", "    \t"}
	bodies := []string{"a\n", "a", "\n", " \n", "\t\n", "  b  \n", "- x\n", "\ta\n"}
	prefixes := []struct {
		p   string
		pad int
	}{{"", 0}, {"> ", 0}, {">", 0}, {"  ", 0}, {">\t", 1}, {">\t", 2}, {"\t", 2}, {"-\t", 0}, {"1. ", 0}}
	for _, pf := range prefixes {
		for _, i1 := range indents {
			for _, b1 := range bodies[:3] {
				one(pf.p, pf.pad, []string{i1 + b1})
				for _, i2 := range indents {
					b2 := bodies[(len(i1)+len(i2)+len(b1))%len(bodies)]
					if !strings.HasSuffix(b1, "\n") {
						continue
					}
					one(pf.p, pf.pad, []string{i1 + b1, i2 + b2})
				}
			}
		}
	}
	for i := 0; i < n; i++ {
		pf := prefixes[c.R.Intn(len(prefixes))]
		k := 1 + c.R.Intn(5)
		var ls []string
		for j := 0; j < k; j++ {
			l := c.R.PickS(indents) + c.R.PickS(bodies)
			if j < k-1 && !strings.HasSuffix(l, "\n") {
				l += "\n"
			}
			ls = append(ls, l)
		}
		one(pf.p, pf.pad, ls)
	}
}
