package main

// Correspondence cases for parser/code_span.go (coq/model/CodeSpan.v): the real code-span
// parser is run on block readers positioned at a backtick.

import (
	"fmt"
	"strings"

	"github.com/yuin/goldmark/ast"
	"github.com/yuin/goldmark/parser"
	"github.com/yuin/goldmark/text"
)

func codeSpanCases(c *Ctx, n int) {
	cs := parser.NewCodeSpanParser()
	one := func(src []byte, lines []text.Segment, adv int) {
		res := ""
		func() {
			defer func() {
				if x := recover(); x != nil {
					res = "PANIC"
				}
			}()
			segs := text.NewSegments()
			segs.AppendAll(lines)
			r := text.NewBlockReader(src, segs)
			// advance to the adv-th backtick that starts a run
			seen := 0
			prev := byte(0)
			for {
				ch := r.Peek()
				if ch == text.EOF {
					res = "skip"
					return
				}
				if ch == '`' && prev != '`' {
					if seen == adv {
						break
					}
					seen++
				}
				prev = ch
				if ch == '\n' {
					r.AdvanceLine()
					prev = 0
				} else {
					r.Advance(1)
				}
			}
			l0, p0 := r.Position()
			node := cs.Parse(ast.NewParagraph(), r, parser.NewContext())
			l, p := r.Position()
			var parts []string
			switch v := node.(type) {
			case *ast.CodeSpan:
				for ch := v.FirstChild(); ch != nil; ch = ch.NextSibling() {
					parts = append(parts, segStr(ch.(*ast.Text).Segment))
				}
				res = "c:" + strings.Join(parts, ";")
			case *ast.Text:
				res = "t:" + segStr(v.Segment)
			default:
				res = "?"
			}
			res = fmt.Sprintf("%d,%s|%s@%d,%s", l0, segStr(p0), res, l, segStr(p))
		}()
		if res == "skip" {
			return
		}
		var ls []string
		for _, s := range lines {
			ls = append(ls, segStr(s))
		}
		c.Case("CodeSpan", []string{hx(src), strings.Join(ls, ";"), itoa(adv)}, res)
	}
	natural := func(src []byte) []text.Segment {
		var out []text.Segment
		start := 0
		for i := 0; i < len(src); i++ {
			if src[i] == '\n' {
				out = append(out, text.NewSegment(start, i+1))
				start = i + 1
			}
		}
		if start < len(src) {
			out = append(out, text.NewSegment(start, len(src)))
		}
		return out
	}
	// systematic: every string over a small alphabet
	enumStrings([]byte{'`', 'a', ' ', '\n'}, 7, func(b []byte) {
		if len(b) == 0 || !strings.Contains(string(b), "`") {
			return
		}
		one(b, natural(b), 0)
	})
	alpha := []byte{'`', '`', '`', 'a', 'b', ' ', ' ', '\n', '\\', '*', '\t'}
	for i := 0; i < n; i++ {
		src := randBytes(c.R, alpha, 24)
		if !strings.Contains(string(src), "`") {
			continue
		}
		lines := natural(src)
		if c.R.Intn(3) == 0 {
			lines = c18Lines(c.R, src)
		}
		if len(lines) == 0 {
			continue
		}
		one(src, lines, c.R.Intn(3))
	}
}
