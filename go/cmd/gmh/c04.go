package main

import (
	"fmt"
	"strings"
)

// what a browser does with an href/src value before looking at its scheme
func browserScheme(attrValue string) string {
	v := decodeRefs(attrValue)
	// strip leading C0 control or space
	i := 0
	for i < len(v) && v[i] <= 0x20 {
		i++
	}
	v = v[i:]
	// remove ASCII tab and newlines anywhere
	v = strings.NewReplacer("\t", "", "\n", "", "\r", "").Replace(v)
	return strings.ToLower(v)
}

func dangerousURL(attrValue string) bool {
	v := browserScheme(attrValue)
	if strings.HasPrefix(v, "javascript:") || strings.HasPrefix(v, "vbscript:") || strings.HasPrefix(v, "file:") {
		return true
	}
	if strings.HasPrefix(v, "data:") {
		for _, ok := range []string{"data:image/png;", "data:image/gif;", "data:image/jpeg;", "data:image/webp;", "data:image/svg+xml;"} {
			if strings.HasPrefix(v, ok) {
				return false
			}
		}
		return true
	}
	return false
}

// what follows the scheme: shapes on which URL parsers of different strictness disagree
// (authority with percent-escapes, non-numeric port, bad IPv6 literal, blanks, bare percent)
var c04Payloads = []string{"alert(1)", "//%0Aalert(1)", "//x:alert(1)", "//%2Fetc/passwd", "//[::1", "//a b/c", "//u:p@h:x/", "%", "%zz", "//%", "?q#f", "#f", "/", "//", "///etc/passwd", "\\\\x", "//h\tx", "//%00", "text/html,<script>a</script>", "//x:y/,<script>", "image/png;base64,xx", "image/svg+xml;x", ",x", ""}

func init() {
	for _, sc := range []string{"javascript", "JaVaScRiPt", "vbscript", "VBScript", "file", "FILE", "data", "DATA", "http", "mailto", "javascripts", "xjavascript", "java script"} {
		for _, p := range c04Payloads {
			c04Schemes = append(c04Schemes, sc+":"+p)
		}
	}
}

var c04Schemes = []string{"javascript:alert(1)", "JaVaScRiPt:alert(1)", "vbscript:x", "VBScript:x", "file:///etc/passwd", "FILE:/x", "data:text/html,<script>", "data:image/png;base64,xx", "DATA:image/svg+xml;x", "data:image/bmp;x", "data:,x", "http://ok/", "/rel", "#frag", "mailto:a@b.c"}

// every way of spelling a byte of the scheme
func c04Spell(r *RNG, s string) string {
	var b strings.Builder
	for i := 0; i < len(s); i++ {
		c := s[i]
		switch r.Intn(14) {
		case 12:
			// a reference whose ampersand is itself written as a reference: one round of
			// resolution leaves the text of a reference, which must be escaped on output
			fmt.Fprintf(&b, r.PickS([]string{"&amp;#%d;", "&#38;#%d;", "&AMP;#x%x;", "&#x26;#X%X;", "&amp;amp;#%d;"}), c)
		case 13:
			if c == ':' {
				b.WriteString(r.PickS([]string{"&amp;colon;", "&#38;colon;", "&amp;#58;"}))
			} else {
				b.WriteString(r.PickS([]string{"&amp;Tab;", "&amp;NewLine;", "&#38;#9;", "&lt;", "&gt;", "&quot;", "&amp;"}))
				b.WriteByte(c)
			}
		case 0:
			fmt.Fprintf(&b, "&#%d;", c)
		case 1:
			fmt.Fprintf(&b, "&#x%x;", c)
		case 2:
			fmt.Fprintf(&b, "&#X%X;", c)
		case 3:
			if c == ':' {
				b.WriteString("&colon;")
			} else if strings.IndexByte("!\"#$%&'()*+,-./:;<=>?@[\\]^_`{|}~", c) >= 0 {
				b.WriteString("\\" + string(c))
			} else {
				b.WriteByte(c)
			}
		case 4:
			fmt.Fprintf(&b, "&#%07d;", c)
		case 5:
			if i > 0 && i < 10 {
				b.WriteString([]string{"&Tab;", "&NewLine;", "&#9;", "&#10;", "\\\n", "&amp;Tab;", "&amp;colon;", "&amp;#58;", "%0A", "\t"}[r.Intn(10)])
			}
			b.WriteByte(c)
		default:
			b.WriteByte(c)
		}
	}
	return b.String()
}

// harmless strings that multiplicative string hashes (h*31+c, h*33+c, ...) map to the hash of a
// dangerous scheme: two neighbouring bytes changed by +1 / -m and -1 / +m.  A cache or table
// keyed by such a hash answers for the dangerous URL what it learnt from the harmless one.
func hashNeighbours(s string) []string {
	var out []string
	for _, m := range []int{31, 33, 37} {
		for i := 0; i+1 < len(s) && i < 12; i++ {
			for _, d := range []int{1, -1} {
				a, b := int(s[i])+d, int(s[i+1])-d*m
				if a > 0x20 && a < 0x7f && b > 0x20 && b < 0x7f && a != '<' && a != '>' && b != '<' && b != '>' && a != '(' && b != '(' && a != ')' && b != ')' && a != '\\' && b != '\\' && a != '&' && b != '&' {
					out = append(out, s[:i]+string([]byte{byte(a), byte(b)})+s[i+2:])
				}
			}
		}
	}
	return out
}

var c04Dangerous = []string{"javascript:alert(1)", "vbscript:msgbox(1)", "file:///etc/passwd", "data:text/html,<script>x</script>", "JAVASCRIPT:alert(1)", "data:,x"}

func c04Targeted(r *RNG, n int) []string {
	var out []string
	// a harmless hash neighbour first, the dangerous URL after it: in one document, and in
	// documents of their own (in this order)
	for _, dg := range c04Dangerous {
		for _, nb := range hashNeighbours(dg) {
			out = append(out, "[a]("+nb+") [b]("+dg+")", "<"+nb+">", "[c]("+dg+")", "![i]("+nb+")\n\n![j]("+dg+")")
		}
	}
	pre := []string{"", "", "", " ", "&#32;", "&#1;", "\\ ", "&nbsp;", "&Tab;", "%20", "\x01"}
	for i := 0; i < n; i++ {
		u := r.PickS(pre) + c04Spell(r, r.PickS(c04Schemes))
		switch r.Intn(9) {
		case 0:
			out = append(out, "[a]("+u+")")
		case 1:
			out = append(out, "[a](<"+u+">)")
		case 2:
			out = append(out, "![a]("+u+" \"t\")")
		case 3:
			out = append(out, "[a][r]\n\n[r]: "+u+"\n")
		case 4:
			out = append(out, "[r]: <"+u+"> 't'\n\n![x][r]")
		case 5:
			out = append(out, "<"+u+">")
		case 6:
			out = append(out, "see "+u+" now")
		case 7:
			out = append(out, "[a]("+u+"){target=x}")
		default:
			out = append(out, "|[a]("+u+")|\n|-|\n")
		}
	}
	return out
}

func runC04(c *Ctx) {
	c.Rep.Rule = "a case is (safe-mode configuration, document); distinct by hash of the document; non-trivial = the output contains an href or src attribute"
	n := 6000
	if !c.Quick() {
		n = 200000
	}
	hist := map[string]int{}
	treeEvery = 40
	for _, sch := range c04Schemes {
		htmlWriterCases(c, []byte(sch))
	}
	for _, dg := range c04Dangerous {
		for _, nb := range hashNeighbours(dg) {
			htmlWriterCases(c, []byte(nb))
			htmlWriterCases(c, []byte(dg))
		}
	}
	for i := 0; i < n; i++ {
		htmlWriterCases(c, []byte(c.R.PickS([]string{"", " ", "&#32;", "\\ "})+c04Spell(c.R, c.R.PickS(c04Schemes))))
	}
	tg := c04Targeted(c.R, n)
	var pit []docItem
	for _, t := range tg {
		pit = append(pit, docItem{"targeted", []byte(t)})
	}
	parserModelCases(c, pit, n)
	gfmModelCases(c, pit, n/4)
	otherModelCases(c, pit, n/12)
	safeModeSweep(c, tg, func(cf Cfg, it docItem, out []byte, report func(kind, detail string)) {
		toks, _ := scanHTML(out)
		for _, t := range toks {
			if t.kind != 's' {
				continue
			}
			for _, an := range []string{"href", "src"} {
				if v, ok := t.attr(an); ok {
					if dangerousURL(v) {
						report("dangerous-url", fmt.Sprintf("<%s %s=%q> (browser sees scheme of %.40q); output %.200q", t.name, an, v, browserScheme(v), out))
					}
				}
			}
		}
	})
	_ = hist
}
