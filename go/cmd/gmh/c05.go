package main

import (
	"fmt"
	"sort"
	"sync"

	"github.com/yuin/goldmark/ast"
	east "github.com/yuin/goldmark/extension/ast"
	"github.com/yuin/goldmark/text"
)

func init() { runners["C05"] = runC05 }

var publicKinds = map[string]bool{}

func init() {
	for _, k := range []string{"Blockquote", "CodeBlock", "Document", "FencedCodeBlock", "HTMLBlock", "Heading", "List", "ListItem", "Paragraph", "TextBlock", "ThematicBreak",
		"AutoLink", "CodeSpan", "Emphasis", "Image", "Link", "RawHTML", "String", "Text",
		"DefinitionDescription", "DefinitionList", "DefinitionTerm", "Footnote", "FootnoteBacklink", "FootnoteLink", "FootnoteList", "Strikethrough", "Table", "TableCell", "TableHeader", "TableRow", "TaskCheckBox"} {
		publicKinds[k] = true
	}
}

func segOK(s text.Segment, n int) bool { return 0 <= s.Start && s.Start <= s.Stop && s.Stop <= n }

// checkTree is the direct statement of C05 on a parsed tree; returns the first problems found
func checkTree(doc ast.Node, src []byte) []string {
	var errs []string
	bad := func(f string, a ...interface{}) {
		if len(errs) < 5 {
			errs = append(errs, fmt.Sprintf(f, a...))
		}
	}
	seen := map[ast.Node]bool{}
	n := len(src)
	var walk func(nd ast.Node, inLink bool, block ast.Node, lastStart *int)
	walk = func(nd ast.Node, inLink bool, block ast.Node, lastStart *int) {
		if seen[nd] {
			bad("node %s appears twice", nd.Kind())
			return
		}
		seen[nd] = true
		kind := nd.Kind().String()
		if !publicKinds[kind] {
			bad("non-public node kind %s in the tree", kind)
		}
		// (S) structure
		cnt := 0
		var prev ast.Node
		for c := nd.FirstChild(); c != nil; c = c.NextSibling() {
			cnt++
			if cnt > 1000000 {
				bad("sibling chain of %s does not end", kind)
				return
			}
			if c.Parent() != nd {
				bad("child %s of %s has Parent %v", c.Kind(), kind, c.Parent())
			}
			if c.PreviousSibling() != prev {
				bad("PreviousSibling of a %s under %s is inconsistent", c.Kind(), kind)
			}
			prev = c
		}
		if nd.LastChild() != prev {
			bad("LastChild of %s is not its last child", kind)
		}
		if nd.ChildCount() != cnt {
			bad("ChildCount of %s is %d but it has %d children", kind, nd.ChildCount(), cnt)
		}
		if nd.HasChildren() != (cnt > 0) {
			bad("HasChildren of %s is %v with %d children", kind, nd.HasChildren(), cnt)
		}
		// (K) kinds in legal places
		if p := nd.Parent(); p != nil {
			if nd.Type() == ast.TypeBlock && p.Type() == ast.TypeInline {
				bad("block %s below inline %s", kind, p.Kind())
			}
			if nd.Kind() == ast.KindListItem && p.Kind() != ast.KindList {
				bad("ListItem below %s", p.Kind())
			}
			if p.Kind() == ast.KindCodeSpan && nd.Kind() != ast.KindText {
				bad("CodeSpan holds a %s", kind)
			}
			if nd.Type() == ast.TypeInline && p.Type() == ast.TypeDocument {
				bad("inline %s directly below the document", kind)
			}
			if nd.Kind() == east.KindTableCell && p.Kind() != east.KindTableRow && p.Kind() != east.KindTableHeader {
				bad("TableCell below %s", p.Kind())
			}
		}
		switch v := nd.(type) {
		case *ast.Heading:
			if v.Level < 1 || v.Level > 6 {
				bad("heading level %d", v.Level)
			}
		case *ast.Emphasis:
			if v.Level < 1 || v.Level > 2 {
				bad("emphasis level %d", v.Level)
			}
		case *ast.Link:
			if inLink {
				bad("Link nested in a Link")
			}
			inLink = true
		case *ast.Text:
			if !segOK(v.Segment, n) {
				bad("Text segment %v outside the source (len %d)", v.Segment, n)
			} else if lastStart != nil {
				// lastStart holds the end of the previous non-empty text segment of the block:
				// document order means the next one begins at or after it
				if v.Segment.Start < *lastStart && v.Segment.Start < v.Segment.Stop {
					bad("Text segment %v begins before the end (%d) of an earlier one in the same block", v.Segment, *lastStart)
				}
				if v.Segment.Stop > *lastStart && v.Segment.Start < v.Segment.Stop {
					*lastStart = v.Segment.Stop
				}
				if block != nil && block.Lines().Len() > 0 && v.Segment.Start < v.Segment.Stop {
					in := false
					ls := block.Lines()
					for i := 0; i < ls.Len(); i++ {
						l := ls.At(i)
						if v.Segment.Start >= l.Start && v.Segment.Stop <= l.Stop {
							in = true
						}
					}
					if !in {
						bad("Text segment %v lies in none of the lines of its %s", v.Segment, block.Kind())
					}
				}
			}
		case *ast.AutoLink:
			// value is a Text reached through the exported API only by URL/Label; nothing to check here
		case *ast.RawHTML:
			for i := 0; i < v.Segments.Len(); i++ {
				if !segOK(v.Segments.At(i), n) {
					bad("RawHTML segment %v outside the source", v.Segments.At(i))
				}
			}
		case *ast.FencedCodeBlock:
			if v.Info != nil && !segOK(v.Info.Segment, n) {
				bad("fenced code info %v outside the source", v.Info.Segment)
			}
		case *ast.HTMLBlock:
			if v.HasClosure() && !segOK(v.ClosureLine, n) {
				bad("HTML block closure line %v outside the source", v.ClosureLine)
			}
		}
		// (P) positions of block lines
		if nd.Type() == ast.TypeBlock || nd.Type() == ast.TypeDocument {
			ls := nd.Lines()
			if ls != nil {
				for i := 0; i < ls.Len(); i++ {
					l := ls.At(i)
					if !segOK(l, n) {
						bad("line %d of %s is %v, outside the source (len %d)", i, kind, l, n)
					}
					if i > 0 && ls.At(i-1).Stop > l.Start {
						bad("lines of %s not increasing: %v then %v", kind, ls.At(i-1), l)
					}
				}
			}
		}
		nb := block
		nl := lastStart
		if nd.Type() == ast.TypeBlock {
			nb = nd
			z := -1
			nl = &z
		}
		for c := nd.FirstChild(); c != nil; c = c.NextSibling() {
			walk(c, inLink, nb, nl)
		}
	}
	walk(doc, false, nil, nil)
	return errs
}

func runC05(c *Ctx) {
	c.Rep.Rule = "a case is (configuration, document); every node of the parsed tree is checked; distinct by hash of the document; non-trivial = the tree has depth >= 3"
	// tie of the block-scanner models whose totality / range theorems this property states
	listItemCases(c, 1000)
	leafBlockCases(c, 0)
	delimCases(c, 1000)
	cfgs := []Cfg{{Ext: "core"}, {Ext: "gfm"}, {Ext: "all", AutoID: true, Attr: true}, {Ext: "footnote"}, {Ext: "deflist"}, {Ext: "typo"}, {Ext: "gfm+footnote", Attr: true}, {Ext: "cjk"}, {Ext: "table"}}
	o := docOpts{exhaustiveLen: 2, corpus: true, random: 6000, mutants: 6000, blockLines: 2, randLines: 6000}
	if !c.Quick() {
		o = docOpts{exhaustiveLen: 3, corpus: true, random: 200000, randomTok: 16, mutants: 200000, blockLines: 3, randLines: 200000}
	}
	items := collectDocs(c, o, func(add func(string, []byte)) {
		nn := 6000
		if !c.Quick() {
			nn = 200000
		}
		for i := 0; i < nn; i++ {
			d := nestedInlines(c.R, 2+c.R.Intn(4))
			if c.R.Intn(2) == 0 {
				d += "\n\n[r]: /ref"
			}
			add("nested-inlines", []byte(d))
		}
		for _, t := range []string{"![^u]\n\n[^1]: n\n", "a ![^x] b [^1]\n\n[^1]: d\n", "![^1]\n\n[^1]: d\n", "[^u] ![^u]\n\n[^v]: d\n", "[![*[a](/u1)*](/u2)](/u3)", "[![_[a]_](/u2)][a]\n\n[a]: /u1", "- Foo\n--", "|a|\n|-|\n", ">\t# ab", "-\t# ab", "a\n=\n", "[^a] [^b] [^c]\n\n[^a]: 1\n\n[^c]: 3\n\n[^b]: 2\n", "[a]: /u\n===\n", "[![a](b)](c)", "[a [b](c) d](e)", "*a **b* c**", "`a\nb`", "<a\nb>", "t\n: d\n\n  e", "0\n-:\n-", "|a|b|\n|-|-|\n|`c\\|d`|\n", "- [x] a\n  - [ ] b", "~~a *b~~ c*", "> - a\n>   b\n> c", "1. a\n\n   b\n2. c", "\ta\n\tb", "```\n>\t\tx\n```", "[a]:\n/u\n't'\nb"} {
			add("targeted", []byte(t))
		}
	})
	if c.Quick() {
		parserModelCases(c, items, 8000)
		gfmModelCases(c, items, 4000)
		otherModelCases(c, items, 500)
	} else {
		otherModelCases(c, items, 20000)
		parserModelCases(c, items, 80000)
		gfmModelCases(c, items, 40000)
	}
	nw := 16
	built := make([][]mdT, nw)
	for w := 0; w < nw; w++ {
		for _, cf := range cfgs {
			built[w] = append(built[w], mdT{cf, cf.Build()})
		}
	}
	var mu sync.Mutex
	type viol struct {
		i      int
		cfg, d string
	}
	var viols []viol
	var wfCases [][2]string
	depth3 := make([]bool, len(items))
	parallelItems(items, func(w, i int, it docItem) {
		for _, m := range built[w%nw] {
			func() {
				defer func() { recover() }() // panics are C01's business
				doc := m.md.Parser().Parse(text.NewReader(it.doc))
				if len(it.doc) <= 2000 && (i%3 == 0 || it.stream == "targeted" || it.stream == "corpus") {
					if d, ok := dumpTree(doc, it.doc); ok {
						mu.Lock()
						wfCases = append(wfCases, [2]string{hx(it.doc), d})
						mu.Unlock()
					}
				}
				if errs := checkTree(doc, it.doc); len(errs) > 0 {
					mu.Lock()
					viols = append(viols, viol{i, m.cf.Name(), errs[0]})
					mu.Unlock()
				}
				for c1 := doc.FirstChild(); c1 != nil && !depth3[i]; c1 = c1.NextSibling() {
					for c2 := c1.FirstChild(); c2 != nil; c2 = c2.NextSibling() {
						if c2.HasChildren() {
							depth3[i] = true
							break
						}
					}
				}
			}()
		}
	})
	// the formal well-formedness predicate of the renderer theorems, evaluated by the model on
	// what the real parser produced (hypothesis monitor)
	sort.Slice(wfCases, func(a, b int) bool { return wfCases[a][0]+wfCases[a][1] < wfCases[b][0]+wfCases[b][1] })
	for _, w := range wfCases {
		c.Case("WfTree", []string{w[0], w[1]}, "1")
	}
	c.Rep.Extra["wf_tree_evaluations"] = len(wfCases)
	kinds := map[string]int{}
	for _, v := range viols {
		k := v.d
		if len(k) > 24 {
			k = k[:24]
		}
		if kinds[k] < 3 {
			kinds[k]++
			c.Violate("wf-tree", map[string]string{"config": v.cfg, "source": q(items[v.i].doc), "stream": items[v.i].stream}, v.d, "wf-tree:"+k)
		}
	}
	for i, it := range items {
		c.Count(it.stream, it.stream+string(it.doc), depth3[i])
		if i%(len(items)/6+1) == 0 {
			c.Sample(map[string]string{"stream": it.stream, "source": q(it.doc)})
		}
	}
	c.Rep.Extra["configurations"] = len(cfgs)
}
