module gmverif

go 1.22

toolchain go1.23.5

require github.com/yuin/goldmark v0.0.0

replace github.com/yuin/goldmark => /repo
