#!/bin/bash
# confirm_seed.sh <src-dir with patch.diff demo_test.go meta.json> <seed-id>
# Confirms in a scratch worktree that the patch applies, compiles, passes the existing suite,
# and that the demo fails with it and passes without it; then stores it as /verif/seeded/<id>/.
set -u
src=$1; id=$2
export GOFLAGS=-mod=mod GOPROXY=off GOSUMDB=off GOTOOLCHAIN=local
wt=/tmp/confirm_$id
rm -rf $wt; git -C /repo worktree prune; git -C /repo worktree add -q --detach $wt HEAD || exit 1
res=/tmp/confirm_$id.log; : > $res
ddir=$(python3 -c "import json,sys;print(json.load(open('$src/meta.json')).get('demo_dir','.') or '.')" 2>/dev/null || echo .)
demo=$wt/$ddir/zz_demo_test.go
cp $src/demo_test.go $demo
run_demo() { (cd $wt/$ddir && timeout 300 go test -vet=off -count=1 -run 'ZZ|Demo|zz' . >/tmp/confirm_$id.demo 2>&1); echo $?; }
clean=$(run_demo)
# fall back to running every test of the package if the name filter matched nothing
if grep -q "no tests to run" /tmp/confirm_$id.demo; then run_demo() { (cd $wt/$ddir && timeout 600 go test -vet=off -count=1 . >/tmp/confirm_$id.demo 2>&1); echo $?; }; clean=$(run_demo); fi
echo "demo on clean tree: exit $clean" >> $res
rm -f $demo
if ! git -C $wt apply $src/patch.diff 2>>$res; then echo "PATCH DOES NOT APPLY" >> $res; ok=0; else
  (cd $wt && go build ./... >>$res 2>&1 && timeout 900 go test -vet=off -count=1 ./... >/tmp/confirm_$id.suite 2>&1); suite=$?
  echo "existing suite with patch: exit $suite" >> $res
  cp $src/demo_test.go $demo
  mut=$(run_demo)
  echo "demo with patch: exit $mut" >> $res
  ok=0; if [ "$clean" = 0 ] && [ "$suite" = 0 ] && [ "$mut" != 0 ]; then ok=1; fi
fi
if [ $ok = 1 ]; then
  mkdir -p /verif/seeded/$id && cp $src/patch.diff $src/demo_test.go /verif/seeded/$id/
  python3 - <<PY
import json
m=json.load(open('$src/meta.json'))
m['confirmed']=open('$res').read().strip().splitlines()
m['confirmed_how']='tools/confirm_seed.sh: scratch worktree of /repo HEAD; demo passes on clean tree, existing suite passes with patch, demo fails with patch'
json.dump(m,open('/verif/seeded/$id/meta.json','w'),indent=1)
PY
  echo "CONFIRMED $id"
else
  echo "REJECTED $id"; cat $res
fi
git -C /repo worktree remove --force $wt; rm -f /tmp/confirm_$id.*
