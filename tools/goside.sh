#!/bin/bash
# goside.sh <Cxx> [tier]: development helper - builds the harness against /repo, runs the runner of
# one property and the extracted model over its cases (no Coq build, no evidence): prints the
# number of oracle violations that are not known findings and the model mismatches.
p=$1; tier=${2:-quick}; V=$(cd $(dirname $0)/.. && pwd)
export GOFLAGS=-mod=mod GOPROXY=off GOSUMDB=off GOTOOLCHAIN=local GOCACHE=${GOCACHE:-$V/.work/gocache}
W=/tmp/goside; mkdir -p $W
race=""; [ $p = C07 ] && race="-race"
(cd $V/go && go build $race -tags verif -o $W/gmh ./cmd/gmh) || exit 1
$W/gmh run $p --tier $tier --seed ${SEED:-1} --out $W/$p >$W/$p.log 2>&1 || { tail $W/$p.log; exit 1; }
python3 - <<PY
import json
r=json.load(open('$W/$p/report.json'))
v=[x for x in (r.get('violations') or []) if not x['detail'].startswith('KNOWN')]
print('$p oracle violations (not known):', len(v))
for x in v[:3]: print('  ', json.dumps(x)[:400])
PY
[ -s $W/$p/cases.txt ] && $V/ocaml/_build/modelrun $W/$p/cases.txt | tail -n 3
