#!/bin/bash
# seedtest1.sh <seed-id e.g. C02-C> [check-prop]: one seeded change against one quick check.
id=$1; p=${id%%-*}; chk=${2:-$p}
cd /verif
d=seeded/$id
[ -f $d/patch.diff ] || { echo "$id: no patch"; exit 2; }
if ! git -C /repo apply /verif/$d/patch.diff 2>/dev/null; then echo "$id: PATCH-DOES-NOT-APPLY"; exit 2; fi
out=$(timeout 1500 ./check $chk --tier quick 2>&1); rc=$?
git -C /repo checkout -- . ; git -C /repo status --short | grep -v '^??' | head -3
v=$(echo "$out" | grep -c '^VIOLATION')
nf=$(echo "$out" | grep -c 'no-failing-input-found')
kinds=$(for f in evidence/replay/$chk-*.json; do python3 -c "import json,sys; print(json.load(open('$f')).get('kind','?'))" 2>/dev/null; done | sort | uniq -c | tr '\n' ' ')
if [ $rc -ne 0 ] && [ $v -gt 0 ]; then
  if [ $nf -gt 0 ]; then echo "$id [$chk]: CAUGHT (no-failing-input-found) $kinds"; else echo "$id [$chk]: CAUGHT with input ($v) $kinds"; fi
else echo "$id [$chk]: MISSED (rc=$rc)"; fi
