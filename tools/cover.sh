#!/bin/bash
# cover.sh [tier]: statement coverage of /repo's packages reached by the runners of all twenty checks
# (the harness is built with -cover; nothing is compared here, this only measures what the
# generators of the correspondence cases and oracles execute).  Writes tools/coverage.txt.
V=$(cd $(dirname $0)/.. && pwd); tier=${1:-quick}
export GOFLAGS=-mod=mod GOPROXY=off GOSUMDB=off GOTOOLCHAIN=local GOCACHE=${GOCACHE:-$V/.work/gocache}
W=$(mktemp -d /tmp/gmcover.XXXX); mkdir -p $W/cov
cd $V/go && cp /repo/go.sum . 2>/dev/null
go build -tags verif -cover -coverpkg=github.com/yuin/goldmark/...,./... -o $W/gmh ./cmd/gmh || exit 1
for p in C01 C02 C03 C04 C05 C06 C08 C09 C10 C11 C12 C13 C14 C15 C16 C17 C18 C19 C20; do
  GOCOVERDIR=$W/cov timeout 3000 $W/gmh run $p --tier $tier --seed 1 --out $W/out >/dev/null 2>&1 &
done; wait
{ echo "# statement coverage of /repo reached by the runners (tier $tier), $(git -C /repo rev-parse --short HEAD)"; go tool covdata percent -i=$W/cov 2>/dev/null | grep goldmark | grep -v 'verif/go';
  echo "# functions of parser, text, util, renderer, extension, ast below 70% (accessors, Dump, Text, Kind left out)";
  go tool covdata func -i=$W/cov 2>/dev/null | grep 'goldmark/\(parser\|text\|util\|renderer\|extension\|ast\)' | grep -v 'Dump\|\.Kind\|\.Text\|verif_export\|Inline$\|String$' | awk '{gsub("%","",$NF); if ($NF+0 < 70) print $NF"%", $1, $2}' | sort -n; } > $V/tools/coverage.txt
rm -rf $W; cat $V/tools/coverage.txt | head -20
