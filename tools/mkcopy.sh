#!/bin/bash
# mkcopy.sh <k>: an isolated copy of /verif in /tmp/v<k> wired to a clone of /repo in /tmp/repo<k>,
# for running seeded changes without touching /repo (scratch; remove both when done).
k=$1; V=/tmp/v$k; R=/tmp/repo$k
rm -rf $R; git clone -q /repo $R || exit 1
mkdir -p $V
rsync -a --delete --exclude '.work/gocache' --exclude '.work/C*' --exclude '.work/PX' --exclude .git --exclude 'seedlog*' /verif/ $V/
sed -i "s#=> /repo#=> $R#" $V/go/go.mod; sed -i "s#cp /repo/go.sum#cp $R/go.sum#" $V/check
sed -i "s#\"/repo\"#\"$R\"#g; s#\"/repo/#\"$R/#g" $V/go/cmd/gmh/*.go
cat > $V/tools/seedtest1.sh <<EOS
#!/bin/bash
id=\$1; p=\${id%%-*}; chk=\${2:-\$p}
cd $V
export GOCACHE=/verif/.work/gocache
d=seeded/\$id
[ -f \$d/patch.diff ] || { echo "\$id: no patch"; exit 2; }
if ! git -C $R apply $V/\$d/patch.diff 2>/dev/null; then echo "\$id: PATCH-DOES-NOT-APPLY"; exit 2; fi
rm -f evidence/replay/\$chk-*.json
out=\$(timeout 1800 ./check \$chk --tier quick 2>&1); rc=\$?
git -C $R checkout -- . ; git -C $R status --short | grep -v '^??' | head -3
v=\$(echo "\$out" | grep -c '^VIOLATION')
nf=\$(echo "\$out" | grep -c 'no-failing-input-found')
kinds=\$(for f in evidence/replay/\$chk-*.json; do python3 -c "import json,sys; r=json.load(open('\$f')); print(r.get('kind','?'), r.get('oracle',''), str(r.get('input',''))[:50])" 2>/dev/null; done | sort | uniq -c | head -2 | tr '\n' ';')
if [ \$rc -ne 0 ] && [ \$v -gt 0 ]; then
  if [ \$nf -gt 0 ]; then echo "\$id [\$chk]: CAUGHT (no-failing-input-found) \$kinds"; else echo "\$id [\$chk]: CAUGHT with input (\$v) \$kinds"; fi
else echo "\$id [\$chk]: MISSED (rc=\$rc)"; echo "\$out" | tail -n 2; fi
EOS
chmod +x $V/tools/seedtest1.sh
echo "copy $k ready"
