#!/bin/bash
# seedtest.sh <Cxx> [check-prop]: applies every /verif/seeded/<Cxx>-*/patch.diff to /repo in turn,
# runs the quick check of the property (or of check-prop), restores /repo. Prints CAUGHT / MISSED.
p=$1; chk=${2:-$1}
cd /verif
for d in seeded/$p-*; do
  [ -f $d/patch.diff ] || continue
  if ! git -C /repo apply /verif/$d/patch.diff 2>/dev/null; then echo "$(basename $d): PATCH-DOES-NOT-APPLY"; continue; fi
  out=$(timeout 1500 ./check $chk --tier quick 2>&1); rc=$?
  git -C /repo checkout -- . ; git -C /repo status --short | grep -v '^??' | head -3
  v=$(echo "$out" | grep -c '^VIOLATION')
  nf=$(echo "$out" | grep -c 'no-failing-input-found')
  if [ $rc -ne 0 ] && [ $v -gt 0 ]; then
    if [ $nf -gt 0 ]; then echo "$(basename $d) [$chk]: CAUGHT (no-failing-input-found)"; else echo "$(basename $d) [$chk]: CAUGHT with input ($v)"; fi
  else echo "$(basename $d) [$chk]: MISSED (rc=$rc)"; fi
done
