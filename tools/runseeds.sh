#!/bin/bash
# runseeds.sh id1 id2 ... : runs seeds over copies 1..4 in parallel, 4 at a time
i=0
for id in "$@"; do
  k=$(( i % 4 + 1 ))
  ( /tmp/v$k/tools/seedtest1.sh $id > /tmp/st_$id.log 2>&1 ) &
  i=$((i+1))
  if [ $((i % 4)) = 0 ]; then wait; fi
done
wait
for id in "$@"; do cat /tmp/st_$id.log; done
