#!/usr/bin/env python3
"""Writes MANIFEST.json from the table below (kept in one place so that it stays valid)."""
import json, os
V = os.path.dirname(os.path.abspath(__file__))
props = [json.loads(l) for l in open(os.path.join(V, "properties.jsonl"))]
claims = json.load(open(os.path.join(V, "claims.json")))
checks = []
na = []
for p in props:
    pid = p["id"]
    c = claims.get(pid)
    if not c or not c.get("claimed"):
        na.append({"property_id": pid, "reason": (c or {}).get("reason", "check not built yet in this round; see DESIGN.md section 11")})
        continue
    checks.append({
        "property_id": pid,
        "quick_cmd": "./check %s --tier quick" % pid,
        "thorough_cmd": "./check %s --tier thorough" % pid,
        "evidence_file": "evidence/%s.json" % pid,
        "replay_cmd_template": "./check %s --replay {path}" % pid,
        "engine": "coq-model+correspondence",
        "level_claimed": {"category": "proof", "text": c["text"], "design_ref": c.get("design_ref", "DESIGN.md section 7, " + pid)},
        "level_note": c["note"],
        "technique": c["technique"],
    })
m = {
    "version": 1,
    "setup_cmd": "./check setup",
    "hooks": {
        "guard": "verif",
        "enable": "go build -tags verif (the harness /verif/go is built with -tags verif against /repo via a replace directive)",
        "baseline_off_cmd": "cd /repo && GOFLAGS=-mod=mod GOPROXY=off GOSUMDB=off GOTOOLCHAIN=local go test -json -vet=off -count=1 -timeout 25m ./...",
        "source_commits": claims.get("_hook_commits", []),
        "add_only": True,
    },
    "engines": [{"name": "coq-model+correspondence", "path": "check",
                 "serves_properties": [c["property_id"] for c in checks],
                 "kind_free_text": "Coq 8.16.1 theorems over hand-written executable Gallina models (coq/), tied to /repo by regenerated tables (coq/gen) and by differential execution of the extracted model (ocaml/) against the Go implementation (go/), plus direct property oracles on the implementation for the counterexample search"}],
    "checks": checks,
    "notes": "All fix: commits and verif-tagged hook commits in /repo are listed in known_findings.json / hooks.source_commits. See DESIGN.md.",
    "not_applicable": na,
}
json.dump(m, open(os.path.join(V, "MANIFEST.json"), "w"), indent=1)
print("claimed", len(checks), "not claimed", len(na))
