(* Case kinds of the extension models (GFM: tables, strikethrough, task lists, linkify; ...).
   Dispatch2's helpers (print_tree, parse_rcfg, ...) are available here. *)
open Model
open Glue
open Dispatch2

(* the tree dump of go/cmd/gmh/dump.go with the node kinds of the GFM extensions *)
let print_kind_x (k : kind) : string * string =
  match k with
  | KTable -> "Table", "-" | KTableHeader -> "TableHeader", "-" | KTableRow -> "TableRow", "-"
  | KTableCell a -> "TableCell", align_digit a
  | KStrikethrough -> "Strikethrough", "-"
  | KTaskCheckBox c -> "TaskCheckBox", s_of_bool c
  | KFootnoteLink (i, rc, ri) -> "FootnoteLink", Printf.sprintf "%d:%d:%d" (int_of_z i) (int_of_z rc) (int_of_z ri)
  | KFootnoteBacklink (i, rc, ri) -> "FootnoteBacklink", Printf.sprintf "%d:%d:%d" (int_of_z i) (int_of_z rc) (int_of_z ri)
  | KFootnote i -> "Footnote", string_of_int (int_of_z i)
  | KFootnoteList -> "FootnoteList", "-"
  | _ -> print_kind k
let print_tree_x (t : tree) : string =
  let b = Buffer.create 256 in
  let first = ref true in
  let rec go depth (Node (k, lines, _, kids)) =
    if not !first then Buffer.add_char b '~';
    first := false;
    let (name, f) = print_kind_x k in
    let is_inline = (match k with
      | KText _ | KString _ | KCodeSpan | KEmphasis _ | KLink _ | KImage _ | KAutoLink _ | KRawHTML _
      | KStrikethrough | KTaskCheckBox _ | KFootnoteLink _ | KFootnoteBacklink _ -> true
      | _ -> false) in
    Buffer.add_string b (Printf.sprintf "%d|%s|%s|%s|N" depth name f
      (if is_inline || lines = [] then "-" else String.concat "," (List.map seg_s lines)));
    List.iter (go (depth + 1)) kids in
  go 0 t; Buffer.contents b

(* the installed extensions: s strikethrough, t task list, T table, l linkify ("-": none) *)
let parse_xcfg (s : string) : xcfg =
  { x_strike = String.contains s 's'; x_task = String.contains s 't';
    x_table = String.contains s 'T'; x_linkify = String.contains s 'l' }

let tree_res = function Ok t -> print_tree_x t | Panic -> "PANIC" | OutOfFuel -> "FUEL"
let bytes_res = function Ok o -> hex_of_bytes o | Panic -> "PANIC" | OutOfFuel -> "FUEL"

(* the heading options (model/HeadingOpts.v): a WithAttribute, i WithAutoHeadingID ("-": none);
   the tree dump with the attributes of the nodes, as go/cmd/gmh/dump.go dumpAttrs prints them *)
let parse_hcfg (s : string) : hcfg = { h_attr = String.contains s 'a'; h_autoid = String.contains s 'i' }
let attrs_s (a : attr list option) : string =
  match a with
  | None -> "N"
  | Some [] -> "E"
  | Some l -> String.concat ";" (List.map (fun a ->
      match a.a_val with
      | AVBytes v -> hex_of_bytes a.a_name ^ ":b:" ^ hex_of_bytes v
      | AVString v -> hex_of_bytes a.a_name ^ ":s:" ^ hex_of_bytes v
      | AVOther -> hex_of_bytes a.a_name ^ ":o:-") l)
let print_tree_h (t : tree) : string =
  let b = Buffer.create 256 in
  let first = ref true in
  let rec go depth (Node (k, lines, a, kids)) =
    if not !first then Buffer.add_char b '~';
    first := false;
    let (name, f) = print_kind_x k in
    let is_inline = (match k with
      | KText _ | KString _ | KCodeSpan | KEmphasis _ | KLink _ | KImage _ | KAutoLink _ | KRawHTML _
      | KStrikethrough | KTaskCheckBox _ | KFootnoteLink _ | KFootnoteBacklink _ -> true
      | _ -> false) in
    Buffer.add_string b (Printf.sprintf "%d|%s|%s|%s|%s" depth name f
      (if is_inline || lines = [] then "-" else String.concat "," (List.map seg_s lines)) (attrs_s a));
    List.iter (go (depth + 1)) kids in
  go 0 t; Buffer.contents b
let tree_res_h = function Ok t -> print_tree_h t | Panic -> "PANIC" | OutOfFuel -> "FUEL"

(* the node kinds of the Typographer / DefinitionList model (model/TypoDefI.v) *)
let print_kind_td (k : kind) : string * string =
  match k with
  | KDefinitionList -> "DefinitionList", "-" | KDefinitionTerm -> "DefinitionTerm", "-"
  | KDefinitionDescription t -> "DefinitionDescription", s_of_bool t
  | _ -> print_kind k
let print_tree_td (t : tree) : string =
  let b = Buffer.create 256 in
  let first = ref true in
  let rec go depth (Node (k, lines, _, kids)) =
    if not !first then Buffer.add_char b '~';
    first := false;
    let (name, f) = print_kind_td k in
    let is_inline = (match k with
      | KText _ | KString _ | KCodeSpan | KEmphasis _ | KLink _ | KImage _ | KAutoLink _ | KRawHTML _ -> true
      | _ -> false) in
    Buffer.add_string b (Printf.sprintf "%d|%s|%s|%s|N" depth name f
      (if is_inline || lines = [] then "-" else String.concat "," (List.map seg_s lines)));
    List.iter (go (depth + 1)) kids in
  go 0 t; Buffer.contents b
(* the installed extensions: t typographer, d definition list ("-": none) *)
let parse_tcfg (s : string) : tcfg = { t_typo = String.contains s 't'; t_deflist = String.contains s 'd' }
let tree_res_td = function Ok t -> print_tree_td t | Panic -> "PANIC" | OutOfFuel -> "FUEL"
let rune_class = function
  | "uni_punct_ranges" -> 0 | "uni_space_ranges" -> 1 | "uni_digit_ranges" -> 2 | "uni_letter_ranges" -> 3
  | s -> failwith ("unknown rune class " ^ s)

let eval (fn : string) (args : string list) : string =
  match fn, args with
  | "ParseTreeX", [x; src] -> tree_res (parseTreeX (parse_xcfg x) (bytes_of_hex src))
  | "ConvertX", [x; cfg; src] -> bytes_res (convertModelXC (parse_xcfg x) (parse_rcfg cfg) (bytes_of_hex src))
  | "ParseTreeGfm", [src] -> tree_res (parseTreeGfm (bytes_of_hex src))
  | "GfmTablesOk", [x; src] ->
    (match gfmTablesOk (parse_xcfg x) (bytes_of_hex src) with Ok b -> s_of_bool b | Panic -> "PANIC" | OutOfFuel -> "FUEL")
  | "ConvertGfm", [cfg; src] -> bytes_res (convertModelGfmC (parse_rcfg cfg) (bytes_of_hex src))
  | "ParseTreeH", [h; src] -> tree_res_h (parseTreeH (parse_hcfg h) (bytes_of_hex src))
  | "ConvertH", [h; cfg; src] -> bytes_res (convertModelH (parse_hcfg h) (parse_rcfg cfg) (bytes_of_hex src))
  | "ParseTreeFn", [src] -> tree_res (parseTreeFn (bytes_of_hex src))
  | "ConvertFn", [cfg; src] -> bytes_res (convertModelFn (parse_rcfg cfg) (bytes_of_hex src))
  | "ParseTreeTD", [t; src] -> tree_res_td (parseTreeTD (parse_tcfg t) (bytes_of_hex src))
  | "ConvertTD", [t; cfg; src] -> bytes_res (convertModelTD (parse_tcfg t) (parse_rcfg cfg) (bytes_of_hex src))
  | "TDRuneRanges", [c] ->
    (match tDRuneRanges (n_of_int (rune_class c)) with
     | [] -> "-"
     | l -> String.concat "," (List.map (fun (a, b) -> Printf.sprintf "%d-%d" (int_of_n a) (int_of_n b)) l))
  | _ -> failwith ("unknown case kind " ^ fn)
