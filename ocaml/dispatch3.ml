(* Case kinds of the extension models (GFM: tables, strikethrough, task lists, linkify; ...).
   Dispatch2's helpers (print_tree, parse_rcfg, ...) are available here. *)
open Model
open Glue
open Dispatch2

let eval (fn : string) (args : string list) : string =
  match fn, args with
  | _ -> failwith ("unknown case kind " ^ fn)
