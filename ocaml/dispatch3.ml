(* Case kinds of the extension models (GFM: tables, strikethrough, task lists, linkify; ...).
   Dispatch2's helpers (print_tree, parse_rcfg, ...) are available here. *)
open Model
open Glue
open Dispatch2

(* the tree dump of go/cmd/gmh/dump.go with the node kinds of the GFM extensions *)
let print_kind_x (k : kind) : string * string =
  match k with
  | KTable -> "Table", "-" | KTableHeader -> "TableHeader", "-" | KTableRow -> "TableRow", "-"
  | KTableCell a -> "TableCell", align_digit a
  | KStrikethrough -> "Strikethrough", "-"
  | KTaskCheckBox c -> "TaskCheckBox", s_of_bool c
  | _ -> print_kind k
let print_tree_x (t : tree) : string =
  let b = Buffer.create 256 in
  let first = ref true in
  let rec go depth (Node (k, lines, _, kids)) =
    if not !first then Buffer.add_char b '~';
    first := false;
    let (name, f) = print_kind_x k in
    let is_inline = (match k with
      | KText _ | KString _ | KCodeSpan | KEmphasis _ | KLink _ | KImage _ | KAutoLink _ | KRawHTML _
      | KStrikethrough | KTaskCheckBox _ -> true
      | _ -> false) in
    Buffer.add_string b (Printf.sprintf "%d|%s|%s|%s|N" depth name f
      (if is_inline || lines = [] then "-" else String.concat "," (List.map seg_s lines)));
    List.iter (go (depth + 1)) kids in
  go 0 t; Buffer.contents b

(* the installed extensions: s strikethrough, t task list, T table, l linkify ("-": none) *)
let parse_xcfg (s : string) : xcfg =
  { x_strike = String.contains s 's'; x_task = String.contains s 't';
    x_table = String.contains s 'T'; x_linkify = String.contains s 'l' }

let tree_res = function Ok t -> print_tree_x t | Panic -> "PANIC" | OutOfFuel -> "FUEL"
let bytes_res = function Ok o -> hex_of_bytes o | Panic -> "PANIC" | OutOfFuel -> "FUEL"

let eval (fn : string) (args : string list) : string =
  match fn, args with
  | "ParseTreeX", [x; src] -> tree_res (parseTreeX (parse_xcfg x) (bytes_of_hex src))
  | "ConvertX", [x; cfg; src] -> bytes_res (convertModelXC (parse_xcfg x) (parse_rcfg cfg) (bytes_of_hex src))
  | "ParseTreeGfm", [src] -> tree_res (parseTreeGfm (bytes_of_hex src))
  | "GfmTablesOk", [x; src] ->
    (match gfmTablesOk (parse_xcfg x) (bytes_of_hex src) with Ok b -> s_of_bool b | Panic -> "PANIC" | OutOfFuel -> "FUEL")
  | "ConvertGfm", [cfg; src] -> bytes_res (convertModelGfmC (parse_rcfg cfg) (bytes_of_hex src))
  | _ -> failwith ("unknown case kind " ^ fn)
