#!/bin/sh
# Build the extracted model + driver. Run from /verif/ocaml. Rebuilds only when inputs changed.
set -e
cd "$(dirname "$0")"
mkdir -p gen _build
( cd gen && coqc -Q ../../coq GM ../../coq/extract/Extract.v >/dev/null )
stamp=_build/stamp
new=$(cat gen/model.ml gen/model.mli glue.ml dispatch2.ml dispatch3.ml modelrun.ml | md5sum)
if [ -f "$stamp" ] && [ -x _build/modelrun ] && [ "$(cat $stamp)" = "$new" ]; then exit 0; fi
cp gen/model.ml gen/model.mli glue.ml dispatch2.ml dispatch3.ml modelrun.ml _build/
( cd _build && ocamlfind ocamlopt -O2 -w -a -package str model.mli model.ml glue.ml dispatch2.ml dispatch3.ml modelrun.ml -o modelrun 2>/dev/null \
  || ocamlfind ocamlopt -w -a -package str model.mli model.ml glue.ml dispatch2.ml dispatch3.ml modelrun.ml -o modelrun )
echo "$new" > $stamp
