(* modelrun <cases.txt>: evaluates the extracted Coq model on every case line
   "fn<TAB>arg...<TAB>=><TAB>impl_result" and reports where model and implementation differ. *)
open Model
open Glue

let res_bytes = function Ok b -> hex_of_bytes b | Panic -> "PANIC" | OutOfFuel -> "FUEL"
let res_n = function Ok b -> string_of_int (int_of_n b) | Panic -> "PANIC" | OutOfFuel -> "FUEL"

(* bytes-filter programs: ops separated by ',' : a<hex> add, e<hex>;<hex>.. extend (new filter index = next),
   s<k> select filter k, c<hex> contains -> output bit. *)
let run_filter_prog (prog : string) : string =
  let filters = ref [| bf_empty |] in
  let cur = ref 0 in
  let out = Buffer.create 16 in
  List.iter (fun op ->
    if op <> "" then begin
      let arg = String.sub op 1 (String.length op - 1) in
      match op.[0] with
      | 'a' -> !filters.(!cur) <- bf_add !filters.(!cur) (bytes_of_hex arg)
      | 'c' -> Buffer.add_string out (s_of_bool (bf_contains !filters.(!cur) (bytes_of_hex arg)))
      | 's' -> cur := int_of_string arg
      | 'e' -> let keys = List.map bytes_of_hex (split_on ';' arg) in
               let nf = bf_extend !filters.(!cur) keys in
               filters := Array.append !filters [| nf |]
      | _ -> failwith "bad filter op"
    end) (split_on ',' prog);
  Buffer.contents out

let eval (fn : string) (args : string list) : string =
  match fn, args with
  | "EscapeHTML", [a] -> hex_of_bytes (escapeHTML (bytes_of_hex a))
  | "HtmlDecodeEscape", [a] -> hex_of_bytes (html_decode (escapeHTML (bytes_of_hex a)))
  | "URLEscape", [a; r] -> hex_of_bytes (uRLEscape (bytes_of_hex a) (bool_of_s r))
  | "UnescapePunctuations", [a] -> hex_of_bytes (unescapePunctuations (bytes_of_hex a))
  | "ResolveNumericReferences", [a] -> hex_of_bytes (resolveNumericReferences (bytes_of_hex a))
  | "ResolveEntityNames", [a] -> hex_of_bytes (resolveEntityNames (bytes_of_hex a))
  | "TrimLeftSpace", [a] -> hex_of_bytes (trimLeftSpace (bytes_of_hex a))
  | "TrimRightSpace", [a] -> hex_of_bytes (trimRightSpace (bytes_of_hex a))
  | "DoFullUnicodeCaseFolding", [a] -> hex_of_bytes (doFullUnicodeCaseFolding (bytes_of_hex a))
  | "ReplaceSpaces", [a; r] -> hex_of_bytes (replaceSpaces (bytes_of_hex a) (n_of_int (int_of_string r)))
  | "ToLinkReference", [a] -> hex_of_bytes (toLinkReference (bytes_of_hex a))
  | "ToRune", [a; p] -> res_n (toRune (bytes_of_hex a) (z_of_int (int_of_string p)))
  | "IsPunct", [c] -> s_of_bool (isPunct (n_of_int (int_of_string c)))
  | "IsSpace", [c] -> s_of_bool (isSpace (n_of_int (int_of_string c)))
  | "ValidUTF8", [a] -> s_of_bool (valid_utf8 (bytes_of_hex a))
  | "DecodeRune", [a] -> let (r, w) = decode_rune (bytes_of_hex a) in
      Printf.sprintf "%d:%d" (int_of_n r) (int_of_n w)
  | "EncodeRune", [r] -> hex_of_bytes (encode_rune (n_of_int (int_of_string r)))
  | "BytesHashMod64", [a] -> string_of_int (int_of_n (bytes_hash (bytes_of_hex a)) land 63)
  | "FilterProg", [p] -> run_filter_prog p
  | _ -> (try Dispatch2.eval fn args with Dispatch2.Unknown_kind _ -> Dispatch3.eval fn args)

let () =
  let file = Sys.argv.(1) in
  let ic = open_in file in
  let n = ref 0 and bad = ref 0 in
  (try while true do
    let line = input_line ic in
    incr n;
    let fields = split_tab line in
    let rec split_at acc = function
      | "=>" :: [r] -> (List.rev acc, r)
      | x :: tl -> split_at (x :: acc) tl
      | [] -> failwith ("malformed case line " ^ string_of_int !n) in
    (match fields with
     | fn :: rest ->
       let (args, impl) = split_at [] rest in
       let m = (try eval fn args with
                | Failure msg -> "MODEL-ERROR:" ^ msg
                | Not_found -> "MODEL-ERROR:notfound"
                | Stack_overflow -> "MODEL-ERROR:stack") in
       if m <> impl then begin
         incr bad;
         if !bad <= 50 then
           Printf.printf "MISMATCH\t%d\t%s\t%s\timpl=%s\tmodel=%s\n" !n fn (String.concat "\t" args) impl m
       end
     | [] -> ())
  done with End_of_file -> ());
  close_in ic;
  Printf.printf "DONE\t%d\t%d\n" !n !bad
