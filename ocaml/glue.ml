(* Glue between the line-oriented case files and the extracted model:
   int <-> N/Z/nat conversion, hex decoding, printing. Trusted (small). *)
open Model

let rec pos_of_int i = if i = 1 then XH else if i land 1 = 1 then XI (pos_of_int (i lsr 1)) else XO (pos_of_int (i lsr 1))
let n_of_int i = if i = 0 then N0 else Npos (pos_of_int i)
let rec int_of_pos = function XH -> 1 | XO p -> 2 * int_of_pos p | XI p -> 2 * int_of_pos p + 1
let int_of_n = function N0 -> 0 | Npos p -> int_of_pos p
let z_of_int i = if i = 0 then Z0 else if i > 0 then Zpos (pos_of_int i) else Zneg (pos_of_int (-i))
let int_of_z = function Z0 -> 0 | Zpos p -> int_of_pos p | Zneg p -> - (int_of_pos p)
let rec nat_of_int i = if i <= 0 then O else S (nat_of_int (i - 1))
let rec int_of_nat = function O -> 0 | S k -> 1 + int_of_nat k

let hexval c = match c with
  | '0'..'9' -> Char.code c - 48 | 'a'..'f' -> Char.code c - 87 | 'A'..'F' -> Char.code c - 55
  | _ -> failwith "bad hex"
let bytes_of_hex (s : string) : n list =
  if s = "-" || s = "" then [] else begin
    let l = String.length s / 2 in
    let rec go i acc = if i < 0 then acc else
      go (i - 1) (n_of_int (hexval s.[2*i] * 16 + hexval s.[2*i+1]) :: acc) in
    go (l - 1) []
  end
let hex_of_bytes (b : n list) : string =
  if b = [] then "-" else begin
    let buf = Buffer.create 64 in
    List.iter (fun c -> Buffer.add_string buf (Printf.sprintf "%02x" (int_of_n c))) b;
    Buffer.contents buf
  end
let bool_of_s s = (s = "1")
let s_of_bool b = if b then "1" else "0"
let split_tab (s : string) : string list = String.split_on_char '\t' s
let split_on (c : char) (s : string) : string list = if s = "" then [] else String.split_on_char c s

(* decimal string -> Z without going through OCaml's 63-bit int *)
let z_of_string (s : string) : z =
  let neg = String.length s > 0 && s.[0] = '-' in
  let digits = if neg then String.sub s 1 (String.length s - 1) else s in
  let ten = z_of_int 10 in
  let v = ref Z0 in
  String.iter (fun c -> v := Z.add (Z.mul !v ten) (z_of_int (Char.code c - 48))) digits;
  if neg then Z.opp !v else !v
