(* case kinds beyond the util functions *)
open Model
open Glue

(* ---------- C13: AST programs ---------- *)
let oid_of_int i = if i = 0 then None else Some (n_of_int i)
let int_of_oid = function None -> 0 | Some x -> int_of_n x

let parse_op (s : string) : op =
  let k = s.[0] in
  let nums = List.map int_of_string (String.split_on_char '.' (String.sub s 1 (String.length s - 1))) in
  match k, nums with
  | 'A', [s; x] -> OAppend (n_of_int s, oid_of_int x)
  | 'D', [s; x] -> ORemove (n_of_int s, oid_of_int x)
  | 'B', [s; r; x] -> OInsertBefore (n_of_int s, oid_of_int r, oid_of_int x)
  | 'F', [s; r; x] -> OInsertAfter (n_of_int s, oid_of_int r, oid_of_int x)
  | 'R', [s; r; x] -> OReplace (n_of_int s, oid_of_int r, oid_of_int x)
  | 'C', [s] -> ORemoveChildren (n_of_int s)
  | 'S', s :: keys ->
    let arr = Array.of_list keys in
    OSort (n_of_int s, (fun i -> let j = int_of_n i in z_of_int (if j < Array.length arr then arr.(j) else 0)))
  | _ -> failwith ("bad op " ^ s)

let observe_heap (h : heap) (n : int) : string =
  let b = Buffer.create 64 in
  for i = 1 to n do
    if i > 1 then Buffer.add_char b ';';
    let x = n_of_int i in
    Buffer.add_string b (Printf.sprintf "%d,%d,%d,%d,%d,%d,%d"
      (int_of_oid (h.par x)) (int_of_oid (h.fst_ x)) (int_of_oid (h.lst x))
      (int_of_oid (h.nxt x)) (int_of_oid (h.prv x)) (int_of_z (h.cnt x))
      (if h.fst_ x = None then 0 else 1))
  done; Buffer.contents b

(* what the forest specification predicts for the same observers *)
let observe_forest (f : forest) (n : int) : string =
  let b = Buffer.create 64 in
  for i = 1 to n do
    if i > 1 then Buffer.add_char b ';';
    let x = n_of_int i in
    let k = f.ch x in
    let next, prev = match f.pa x with
      | None -> 0, 0
      | Some p ->
        let sib = List.map int_of_n (f.ch p) in
        let rec go prev = function
          | [] -> 0, 0
          | y :: tl -> if y = i then ((match tl with z :: _ -> z | [] -> 0), prev) else go y tl in
        go 0 sib in
    Buffer.add_string b (Printf.sprintf "%d,%d,%d,%d,%d,%d,%d"
      (int_of_oid (f.pa x)) (int_of_oid (head_opt k)) (int_of_oid (last_opt k)) next prev (List.length k)
      (if k = [] then 0 else 1))
  done; Buffer.contents b

let run_ast_prog (n : int) (prog : string) : (heap * forest * string) =
  let fuel = nat_of_int (n + 2) in
  let ops = List.map parse_op (split_on ' ' prog) in
  let obs = ref [] in
  let h = ref empty_heap and f = ref empty_forest in
  (try List.iter (fun o ->
    if not (legal fuel !f o) then begin obs := "ILLEGAL" :: !obs; raise Exit end;
    (match step fuel !h o with
     | Ok h' -> h := h'; f := spec_step !f o;
       let oh = observe_heap h' n and of_ = observe_forest !f n in
       if oh <> of_ then obs := ("SPEC-DIFF(" ^ oh ^ " vs " ^ of_ ^ ")") :: !obs else obs := oh :: !obs
     | Panic -> obs := "PANIC" :: !obs; raise Exit
     | OutOfFuel -> obs := "FUEL" :: !obs; raise Exit)) ops with Exit -> ());
  (!h, !f, String.concat "|" (List.rev !obs))

let visitor_of_script (script : string) : nat -> n -> bool -> (n * bool) =
  let arr = Array.of_list (split_on ',' script) in
  fun k _ _ ->
    let i = int_of_nat k in
    let s = if i < Array.length arr then arr.(i) else "3" in
    (n_of_int (Char.code s.[0] - 48), String.length s > 1 && s.[1] = 'e')

let trace_str tr = String.concat "," (List.map (fun (x, e) -> (if e then "+" else "-") ^ string_of_int (int_of_n x)) tr)

let eval (fn : string) (args : string list) : string =
  match fn, args with
  | "AstProg", [n; prog] -> let (_, _, o) = run_ast_prog (int_of_string n) prog in o
  | "AstWalk", [n; prog; root; script] ->
    let n = int_of_string n in
    let (h, f, _) = run_ast_prog n prog in
    let v = visitor_of_script script in
    let fuel = nat_of_int (2 * n + 4) in
    let r1 = walk fuel h v (n_of_int (int_of_string root)) in
    let r2 = walk_spec fuel f v (n_of_int (int_of_string root)) [] in
    (match r1, r2 with
     | Ok (err, tr), Ok ((_, err2), tr2) ->
       let a = s_of_bool err ^ ":" ^ trace_str tr and b = s_of_bool err2 ^ ":" ^ trace_str tr2 in
       if a <> b then "SPEC-DIFF(" ^ a ^ " vs " ^ b ^ ")" else a
     | Panic, _ | _, Panic -> "PANIC"
     | _, _ -> "FUEL")
  | _ -> failwith ("unknown case kind " ^ fn)
