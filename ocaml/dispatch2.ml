(* case kinds beyond the util functions *)
open Model
open Glue

(* a kind this module does not know: modelrun then asks Dispatch3 (the extension models) *)
exception Unknown_kind of string

(* ---------- C13: AST programs ---------- *)
let oid_of_int i = if i = 0 then None else Some (n_of_int i)
let int_of_oid = function None -> 0 | Some x -> int_of_n x

let parse_op (s : string) : op =
  let k = s.[0] in
  let nums = List.map int_of_string (String.split_on_char '.' (String.sub s 1 (String.length s - 1))) in
  match k, nums with
  | 'A', [s; x] -> OAppend (n_of_int s, oid_of_int x)
  | 'D', [s; x] -> ORemove (n_of_int s, oid_of_int x)
  | 'B', [s; r; x] -> OInsertBefore (n_of_int s, oid_of_int r, oid_of_int x)
  | 'F', [s; r; x] -> OInsertAfter (n_of_int s, oid_of_int r, oid_of_int x)
  | 'R', [s; r; x] -> OReplace (n_of_int s, oid_of_int r, oid_of_int x)
  | 'C', [s] -> ORemoveChildren (n_of_int s)
  | 'S', s :: keys ->
    let arr = Array.of_list keys in
    OSort (n_of_int s, (fun i -> let j = int_of_n i in z_of_int (if j < Array.length arr then arr.(j) else 0)))
  | _ -> failwith ("bad op " ^ s)

let observe_heap (h : heap) (n : int) : string =
  let b = Buffer.create 64 in
  for i = 1 to n do
    if i > 1 then Buffer.add_char b ';';
    let x = n_of_int i in
    Buffer.add_string b (Printf.sprintf "%d,%d,%d,%d,%d,%d,%d"
      (int_of_oid (h.par x)) (int_of_oid (h.fst_ x)) (int_of_oid (h.lst x))
      (int_of_oid (h.nxt x)) (int_of_oid (h.prv x)) (int_of_z (h.cnt x))
      (if h.fst_ x = None then 0 else 1))
  done; Buffer.contents b

(* what the forest specification predicts for the same observers *)
let observe_forest (f : forest) (n : int) : string =
  let b = Buffer.create 64 in
  for i = 1 to n do
    if i > 1 then Buffer.add_char b ';';
    let x = n_of_int i in
    let k = f.ch x in
    let next, prev = match f.pa x with
      | None -> 0, 0
      | Some p ->
        let sib = List.map int_of_n (f.ch p) in
        let rec go prev = function
          | [] -> 0, 0
          | y :: tl -> if y = i then ((match tl with z :: _ -> z | [] -> 0), prev) else go y tl in
        go 0 sib in
    Buffer.add_string b (Printf.sprintf "%d,%d,%d,%d,%d,%d,%d"
      (int_of_oid (f.pa x)) (int_of_oid (head_opt k)) (int_of_oid (last_opt k)) next prev (List.length k)
      (if k = [] then 0 else 1))
  done; Buffer.contents b

let run_ast_prog (n : int) (prog : string) : (heap * forest * string) =
  let fuel = nat_of_int (2 * n + 2) in
  let ops = List.map parse_op (split_on ' ' prog) in
  let obs = ref [] in
  let h = ref empty_heap and f = ref empty_forest in
  (try List.iter (fun o ->
    if not (legal fuel !f o) then begin obs := "ILLEGAL" :: !obs; raise Exit end;
    (match step fuel !h o with
     | Ok h' -> h := h'; f := spec_step !f o;
       let oh = observe_heap h' n and of_ = observe_forest !f n in
       if oh <> of_ then obs := ("SPEC-DIFF(" ^ oh ^ " vs " ^ of_ ^ ")") :: !obs else obs := oh :: !obs
     | Panic -> obs := "PANIC" :: !obs; raise Exit
     | OutOfFuel -> obs := "FUEL" :: !obs; raise Exit)) ops with Exit -> ());
  (!h, !f, String.concat "|" (List.rev !obs))

let visitor_of_script (script : string) : nat -> n -> bool -> (n * bool) =
  let arr = Array.of_list (split_on ',' script) in
  fun k _ _ ->
    let i = int_of_nat k in
    let s = if i < Array.length arr then arr.(i) else "3" in
    (n_of_int (Char.code s.[0] - 48), String.length s > 1 && s.[1] = 'e')

let trace_str tr = String.concat "," (List.map (fun (x, e) -> (if e then "+" else "-") ^ string_of_int (int_of_n x)) tr)

(* ---------- C18: reader programs ---------- *)
let seg_str (s : seg) = Printf.sprintf "%d,%d,%d" (int_of_z s.s_start) (int_of_z s.s_stop) (int_of_z s.s_pad)
let mk_seg a b p = { s_start = z_of_int a; s_stop = z_of_int b; s_pad = z_of_int p; s_fnl = false }
exception Model_panic of string
let un = function Ok x -> x | Panic -> raise (Model_panic "PANIC") | OutOfFuel -> raise (Model_panic "FUEL")
let ints_of s sep = List.map int_of_string (String.split_on_char sep s)

type ('r) rops = {
  peek : 'r -> n result; peek_line : 'r -> (('r * bytes option) * seg) result;
  line_offset : 'r -> ('r * z) result; advance : 'r -> z -> 'r result; advance_line : 'r -> 'r result;
  set_padding : 'r -> z -> 'r; set_position : 'r -> z -> seg -> 'r result;
  adv_pad : 'r -> z -> z -> 'r result; preceding : 'r -> n result;
  skip_blank : nat -> 'r -> ((('r * seg) * z) * bool) result; skip_spaces : nat -> 'r -> ((('r * seg) * z) * bool) result;
  read_rune : 'r -> ((('r * n) * z) * bool) result;
  find_closure : nat -> 'r -> n -> n -> fc_opts -> ('r * seg list option) result;
  value : 'r -> seg -> bytes result; position : 'r -> z * seg }

let run_reader_prog (type r) (ops : r rops) (r0 : r) (srclen : int) (script : string) : string =
  let r = ref r0 in
  let saved = ref [||] in
  let fuel = nat_of_int (srclen + 8) in
  let obs = ref [] in
  (try List.iter (fun op ->
    let arg = String.sub op 2 (String.length op - 2) in
    let out =
      (try
        (match String.sub op 0 2 with
        | "pl" -> let ((r', l), s) = un (ops.peek_line !r) in r := r';
                  (match l with None -> "nil" | Some b -> hex_of_bytes b) ^ ":" ^ seg_str s
        | "pk" -> string_of_int (int_of_n (un (ops.peek !r)))
        | "ad" -> r := un (ops.advance !r (z_of_int (int_of_string arg))); ""
        | "al" -> r := un (ops.advance_line !r); ""
        | "ap" -> (match ints_of arg '.' with [n; p] -> r := un (ops.adv_pad !r (z_of_int n) (z_of_int p)); "" | _ -> failwith "ap")
        | "sp" -> r := ops.set_padding !r (z_of_int (int_of_string arg)); ""
        | "po" -> saved := Array.append !saved [| ops.position !r |]; ""
        | "re" -> let (l, p) = !saved.(int_of_string arg) in
                  r := un (ops.set_position !r l p);
                  let ((r', l), _) = un (ops.peek_line !r) in r := r';
                  (match l with None -> "nil" | Some b -> hex_of_bytes b)
        | "lo" -> let (r', v) = un (ops.line_offset !r) in r := r'; string_of_int (int_of_z v)
        | "pc" -> string_of_int (int_of_n (un (ops.preceding !r)))
        | "ss" -> let (((r', s), n), ok) = un (ops.skip_spaces fuel !r) in r := r';
                  Printf.sprintf "%s:%d:%s" (seg_str s) (int_of_z n) (s_of_bool ok)
        | "sb" -> let (((r', s), n), ok) = un (ops.skip_blank fuel !r) in r := r';
                  Printf.sprintf "%s:%d:%s" (seg_str s) (int_of_z n) (s_of_bool ok)
        | "rr" -> let (((r', rn), sz), eof) = un (ops.read_rune !r) in r := r';
                  Printf.sprintf "%d,%d,%s" (int_of_n rn) (int_of_z sz) (s_of_bool eof)
        | "fc" -> (match ints_of arg '.' with
                   | [o; c; bits] ->
                     let opts = { o_codespan = bits land 1 <> 0; o_nesting = bits land 2 <> 0;
                                  o_newline = bits land 4 <> 0; o_advance = bits land 8 <> 0 } in
                     let (r', res) = un (ops.find_closure fuel !r (n_of_int o) (n_of_int c) opts) in
                     r := r';
                     (match res with None -> "no" | Some l -> "ok:" ^ String.concat ";" (List.map seg_str l))
                   | _ -> failwith "fc")
        | "va" -> (match ints_of arg '.' with
                   | [a; b; p] -> hex_of_bytes (un (ops.value !r (mk_seg a b p)))
                   | _ -> failwith "va")
        | _ -> failwith ("bad reader op " ^ op))
      with Model_panic m -> obs := m :: !obs; raise Exit) in
    let (l, p) = ops.position !r in
    obs := Printf.sprintf "%s@%d,%s" out (int_of_z l) (seg_str p) :: !obs)
    (split_on ' ' script) with Exit -> ());
  String.concat "|" (List.rev !obs)

let plain_ops : reader rops = {
  peek = r_peek; peek_line = rPeekLine; line_offset = r_line_offset; advance = r_advance;
  advance_line = (fun r -> Ok (r_advance_line r)); set_padding = r_set_padding; set_position = r_set_position;
  adv_pad = r_advance_and_set_padding; preceding = r_preceding; skip_blank = rSkipBlankLines; skip_spaces = rSkipSpaces;
  read_rune = rReadRune; find_closure = rFindClosure; value = r_value; position = r_position }
let block_ops : breader rops = {
  peek = b_peek; peek_line = b_peek_line; line_offset = b_line_offset; advance = b_advance;
  advance_line = b_advance_line; set_padding = b_set_padding; set_position = b_set_position;
  adv_pad = b_advance_and_set_padding; preceding = b_preceding; skip_blank = bSkipBlankLines; skip_spaces = bSkipSpaces;
  read_rune = bReadRune; find_closure = bFindClosure; value = b_value; position = b_position }

(* ---------- C20: priority scenarios ---------- *)
let parse_comps (d : string) : comp list =
  List.map (fun e ->
    match String.split_on_char ':' e with
    | [id; prio; trig; kinds; acc] ->
      { c_id = n_of_int (int_of_string id); c_prio = z_of_string prio;
        c_trig = (if trig = "-" then None else if trig = "e" then Some [] else Some (bytes_of_hex trig));
        c_kinds = List.map (fun k -> n_of_int (1 + int_of_string k)) (split_on '.' kinds)
                  |> List.concat_map (fun k -> if int_of_n k = 3 then [n_of_int 3; n_of_int 4; n_of_int 5] else [k]);
        c_accept = (acc = "1") }
    | _ -> failwith "comp") (split_on ';' d)

let prio_case (role : string) (d : string) : string =
  let l = parse_comps d in
  let ids xs = String.concat "," (List.map (fun x -> string_of_int (int_of_n x)) xs) in
  let probes_only xs = List.filter (fun x -> int_of_n x < 100) xs in
  match role with
  | "a" -> let (log, _) = consult (block_candidates l (n_of_int 64)) in ids (probes_only log)
  | "b" -> let (log, w) = consult (inline_table l (n_of_int 64)) in
           ids log ^ (match w with Some p -> Printf.sprintf "|<p>x{%d}y</p>" (int_of_n p) | None -> "|<p>x@y</p>")
  | "c" -> ids (probes_only (transformer_order l))
  | "d" -> ids (transformer_order l)
  | "e" ->
    let t = renderer_table l in
    let ev1 = render_ktree t (KNode (n_of_int 1, [])) in
    let ev2 = render_ktree t (KNode (n_of_int 2, [KNode (n_of_int 4, [KNode (n_of_int 5, [])])])) in
    let b = Buffer.create 32 in
    let seen_t = ref false in
    List.iter (fun (f, e) -> let f = int_of_n f in
      if f = 1000 then (if e then Buffer.add_string b "[H]")
      else Buffer.add_string b (Printf.sprintf "[%d%s]" f (if e then "+" else "-"))) ev1;
    List.iter (fun (f, e) -> let f = int_of_n f in
      if f = 1000 then (if not !seen_t then (seen_t := true; Buffer.add_string b "[T]"))
      else Buffer.add_string b (Printf.sprintf "[%d%s]" f (if e then "+" else "-"))) ev2;
    Buffer.contents b
  | _ -> failwith "role"

(* ---------- C14: bufio.Writer sequences ---------- *)
let bufio_case (size : int) (limit : int) (ops : string) : string =
  let d = new_dest (if limit < 0 then None else Some (z_of_int limit)) in
  let b = ref (new_bw (z_of_int size) d) in
  let obs = ref [] in
  List.iter (fun o ->
    let data = bytes_of_hex (String.sub o 1 (String.length o - 1)) in
    let op = match o.[0] with
      | 'W' -> WWrite data
      | 'S' -> WString data
      | 'B' -> WByte (List.hd data)
      | 'R' -> WRune data
      | _ -> failwith "bufio op" in
    b := bw_step !b op;
    obs := Printf.sprintf "%d,%d" (List.length (!b).w_dest.d_acc) (List.length (!b).w_buf) :: !obs) (split_on ' ' ops);
  let (b', err) = bw_flush !b in
  obs := Printf.sprintf "%d,%d,%s" (List.length b'.w_dest.d_acc) (List.length b'.w_buf) (s_of_bool err) :: !obs;
  String.concat "|" (List.rev !obs) ^ "|" ^ hex_of_bytes b'.w_dest.d_acc

(* ---------- C15: IDs call sequences ---------- *)
let ids_case (ops : string) : string =
  let t = ref [] in
  let obs = List.map (fun o ->
    match o.[0] with
    | 'p' -> t := put !t (bytes_of_hex (String.sub o 1 (String.length o - 1))); ""
    | 'g' -> let h = o.[1] = '1' in
             (match idsGenerate !t (bytes_of_hex (String.sub o 2 (String.length o - 2))) h with
              | Ok (r, t') -> t := t'; hex_of_bytes r
              | Panic -> "PANIC" | OutOfFuel -> "FUEL")
    | _ -> failwith "ids op") (split_on ' ' ops) in
  String.concat "|" obs

(* ---------- L1: trees ---------- *)
let parse_seg (s : string) : seg =
  match String.split_on_char ':' s with
  | [a; b; p; f] -> { s_start = z_of_int (int_of_string a); s_stop = z_of_int (int_of_string b);
                      s_pad = z_of_int (int_of_string p); s_fnl = (f = "1") }
  | _ -> failwith ("seg " ^ s)
let parse_segs (s : string) : seg list = if s = "-" then [] else List.map parse_seg (split_on ',' s)
let opt_hex (s : string) : bytes option = if s = "n" then None else Some (bytes_of_hex (String.sub s 1 (String.length s - 1)))
let parse_attrs (s : string) : attr list option =
  if s = "N" then None else if s = "E" then Some [] else
  Some (List.map (fun e -> match String.split_on_char ':' e with
    | [n; k; v] -> { a_name = bytes_of_hex n;
                     a_val = (match k with "b" -> AVBytes (bytes_of_hex v) | "s" -> AVString (bytes_of_hex v) | _ -> AVOther) }
    | _ -> failwith "attr") (split_on ';' s))

let parse_kind (name : string) (f : string) : kind =
  let fs = String.split_on_char ':' f in
  let zi s = z_of_int (int_of_string s) in
  match name, fs with
  | "Document", _ -> KDocument | "TextBlock", _ -> KTextBlock | "Paragraph", _ -> KParagraph
  | "Heading", [l] -> KHeading (zi l) | "ThematicBreak", _ -> KThematicBreak | "Blockquote", _ -> KBlockquote
  | "CodeBlock", _ -> KCodeBlock | "FencedCodeBlock", [l] -> KFencedCodeBlock (opt_hex l)
  | "HTMLBlock", _ -> KHTMLBlock (if f = "n" then None else Some (parse_seg f))
  | "List", [o; st] -> KList (o = "1", zi st) | "ListItem", _ -> KListItem
  | "Text", [a; b; p; fl; soft; hard; raw] -> KText (parse_seg (String.concat ":" [a; b; p; fl]), soft = "1", hard = "1", raw = "1")
  | "String", [v; raw; code] -> KString (bytes_of_hex v, raw = "1", code = "1")
  | "CodeSpan", _ -> KCodeSpan | "Emphasis", [l] -> KEmphasis (zi l)
  | "Link", [d; t] -> KLink (bytes_of_hex d, opt_hex t) | "Image", [d; t] -> KImage (bytes_of_hex d, opt_hex t)
  | "AutoLink", [e; u; l] -> KAutoLink (e = "1", bytes_of_hex u, bytes_of_hex l)
  | "RawHTML", _ -> KRawHTML (parse_segs f)
  | "Table", _ -> KTable | "TableHeader", _ -> KTableHeader | "TableRow", _ -> KTableRow
  | "TableCell", [a] -> KTableCell (match a with "1" -> ALeft | "2" -> ARight | "3" -> ACenter | _ -> ANone)
  | "Strikethrough", _ -> KStrikethrough | "TaskCheckBox", [c] -> KTaskCheckBox (c = "1")
  | "FootnoteLink", [i; rc; ri] -> KFootnoteLink (zi i, zi rc, zi ri)
  | "FootnoteBacklink", [i; rc; ri] -> KFootnoteBacklink (zi i, zi rc, zi ri)
  | "Footnote", [i] -> KFootnote (zi i) | "FootnoteList", _ -> KFootnoteList
  | "DefinitionList", _ -> KDefinitionList | "DefinitionTerm", _ -> KDefinitionTerm
  | "DefinitionDescription", [t] -> KDefinitionDescription (t = "1")
  | _ -> KOther

(* nodes in pre-order with depths -> tree *)
let parse_tree (s : string) : tree =
  let nodes = List.map (fun n -> match String.split_on_char '|' n with
    | [d; k; f; l; a] -> (int_of_string d, parse_kind k f, parse_segs l, parse_attrs a)
    | _ -> failwith ("node " ^ n)) (split_on '~' s) in
  let rec build depth rest =
    (* returns (children at depth, remaining) *)
    match rest with
    | (d, k, l, a) :: tl when d = depth ->
      let (kids, tl') = build (depth + 1) tl in
      let (sibs, tl'') = build depth tl' in
      (Node (k, l, a, kids) :: sibs, tl'')
    | _ -> ([], rest) in
  match build 0 nodes with
  | ([t], []) -> t
  | _ -> failwith "tree shape"

(* ---------- printing a model tree in the format of the Go dumper (inverse of parse_tree) ---------- *)
let seg_s (s : seg) = Printf.sprintf "%d:%d:%d:%s" (int_of_z s.s_start) (int_of_z s.s_stop) (int_of_z s.s_pad) (s_of_bool s.s_fnl)
let opt_hex_s = function None -> "n" | Some b -> "h" ^ hex_of_bytes b
let print_kind (k : kind) : string * string =
  let zi z = string_of_int (int_of_z z) in
  match k with
  | KDocument -> "Document", "-" | KTextBlock -> "TextBlock", "-" | KParagraph -> "Paragraph", "-"
  | KHeading l -> "Heading", zi l | KThematicBreak -> "ThematicBreak", "-" | KBlockquote -> "Blockquote", "-"
  | KCodeBlock -> "CodeBlock", "-" | KFencedCodeBlock l -> "FencedCodeBlock", opt_hex_s l
  | KHTMLBlock c -> "HTMLBlock", (match c with None -> "n" | Some s -> seg_s s)
  | KList (o, st) -> "List", s_of_bool o ^ ":" ^ zi st | KListItem -> "ListItem", "-"
  | KText (s, soft, hard, raw) -> "Text", seg_s s ^ ":" ^ s_of_bool soft ^ ":" ^ s_of_bool hard ^ ":" ^ s_of_bool raw
  | KString (v, raw, code) -> "String", hex_of_bytes v ^ ":" ^ s_of_bool raw ^ ":" ^ s_of_bool code
  | KCodeSpan -> "CodeSpan", "-" | KEmphasis l -> "Emphasis", zi l
  | KLink (d, t) -> "Link", hex_of_bytes d ^ ":" ^ opt_hex_s t
  | KImage (d, t) -> "Image", hex_of_bytes d ^ ":" ^ opt_hex_s t
  | KAutoLink (e, u, l) -> "AutoLink", s_of_bool e ^ ":" ^ hex_of_bytes u ^ ":" ^ hex_of_bytes l
  | KRawHTML segs -> "RawHTML", (if segs = [] then "-" else String.concat "," (List.map seg_s segs))
  | _ -> "Other", "-"
let print_tree (t : tree) : string =
  let b = Buffer.create 256 in
  let first = ref true in
  let rec go depth (Node (k, lines, _, kids)) =
    if not !first then Buffer.add_char b '~';
    first := false;
    let (name, f) = print_kind k in
    let is_inline = (match k with KText _ | KString _ | KCodeSpan | KEmphasis _ | KLink _ | KImage _ | KAutoLink _ | KRawHTML _ -> true | _ -> false) in
    Buffer.add_string b (Printf.sprintf "%d|%s|%s|%s|N" depth name f
      (if is_inline || lines = [] then "-" else String.concat "," (List.map seg_s lines)));
    List.iter (go (depth + 1)) kids in
  go 0 t; Buffer.contents b
let print_refs (refs : (bytes * (bytes * bytes option)) list) : string =
  let l = List.map (fun (k, (d, t)) -> hex_of_bytes k ^ "=" ^ hex_of_bytes d ^ ":" ^ opt_hex_s t) refs in
  String.concat ";" (List.sort compare l)

let caps_str (groups : int) (c : (z * z) option list) : string =
  let arr = Array.make (2 * (groups + 1)) (-1) in
  List.iteri (fun i v -> if i <= groups then (match v with Some (a, b) -> arr.(2*i) <- int_of_z a; arr.(2*i+1) <- int_of_z b | None -> ())) c;
  String.concat "," (Array.to_list (Array.map string_of_int arr))

let parse_rcfg (s : string) : rcfg =
  match String.split_on_char ',' s with
  | [u; x; h; t] -> { unsafe = (u = "1"); xhtml = (x = "1"); hardwraps = (h = "1"); talign = z_of_int (int_of_string t) }
  | _ -> failwith "rcfg"

(* ---------- C17: table transformer ---------- *)
let align_digit = function ALeft -> "1" | ARight -> "2" | ACenter -> "3" | ANone -> "4"
let cell_str ((s, a) : seg option * align) =
  (match s with None -> "-" | Some sg -> Printf.sprintf "%d:%d" (int_of_z sg.s_start) (int_of_z sg.s_stop)) ^ "/" ^ align_digit a
let table_case (src : string) (lines : string) : string =
  let b = bytes_of_hex src in
  let ls = List.map (fun l -> match ints_of l ',' with [a; b; p] -> mk_seg a b p | _ -> failwith "seg") (split_on ';' lines) in
  match tableTransform b ls with
  | Panic -> "PANIC" | OutOfFuel -> "FUEL"
  | Ok None -> "none"
  | Ok (Some (kept, t)) ->
    Printf.sprintf "%d|%s|%s|%s" (List.length kept) (String.concat "" (List.map align_digit t.t_aligns))
      (String.concat "," (List.map cell_str t.t_header))
      (String.concat ";" (List.map (fun r -> String.concat "," (List.map cell_str r)) t.t_rows))

(* ---------- C16: footnotes ---------- *)
let footnote_case (defs : string) (evs : string) : string =
  let dl = List.map bytes_of_hex (split_on ';' defs) in
  let el = if evs = "none" then [] else List.map bytes_of_hex (split_on ';' evs) in
  let (links, items) = footnotes dl el in
  let lk l = Printf.sprintf "%d.%d.%d" (int_of_z l.l_index) (int_of_z l.l_refcount) (int_of_z l.l_refindex) in
  String.concat "," (List.map lk links) ^ "|" ^
  String.concat ";" (List.map (fun it -> Printf.sprintf "%d:%s" (int_of_z it.i_index) (String.concat "," (List.map lk it.i_backlinks))) items)

(* ---------- C02: SpecDoc trees from prefix tokens ---------- *)
let specdoc_case (tabs : string) (fnl : string) (ser : string) : string =
  let toks = ref (split_on ' ' ser) in
  let next () = match !toks with t :: r -> toks := r; t | [] -> failwith "specdoc: out of tokens" in
  let num () = n_of_int (int_of_string (next ())) in
  let hexb () = bytes_of_hex (next ()) in
  let bool () = (next () = "1") in
  let rec atoms () = let n = int_of_string (next ()) in List.init n (fun _ -> ()) |> List.map (fun () -> atom ())
  and atom () =
    match next () with
    | "W" -> AWord (hexb ())
    | "E" -> AEsc (num ())
    | "N" -> let s = num () in let c = num () in AEnt (s, c)
    | "M" -> let d = num () in AEmph (d, atoms ())
    | "S" -> let d = num () in AStrong (d, atoms ())
    | "C" -> let t = num () in let p = bool () in ACode (t, p, hexb ())
    | "L" -> let st = num () in let v = num () in let ts = num () in let dest = hexb () in
             let title = (match next () with "~" -> None | h -> Some (bytes_of_hex h)) in
             let label = hexb () in let body = atoms () in ALink (st, v, ts, body, dest, title, label)
    | "I" -> let src = hexb () in let n = int_of_string (next ()) in
             let alt = List.map (fun () -> hexb ()) (List.init n (fun _ -> ())) in AImage (alt, src)
    | "U" -> AAuto (hexb ())
    | "R" -> ARaw (hexb ())
    | "s" -> ASoft
    | "H" -> AHard (num ())
    | t -> failwith ("specdoc atom " ^ t) in
  let lines () = let n = int_of_string (next ()) in List.map (fun () -> hexb ()) (List.init n (fun _ -> ())) in
  let rec blocks () = let n = int_of_string (next ()) in List.map (fun () -> block ()) (List.init n (fun _ -> ()))
  and block () =
    match next () with
    | "P" -> let i = num () in BPara (i, atoms ())
    | "G" -> let i = num () in let lv = num () in let st = num () in let ex = num () in BHeading (i, lv, st, ex, atoms ())
    | "T" -> let i = num () in let st = num () in BHr (i, st)
    | "K" -> let st = num () in let i = num () in let fl = num () in let info = hexb () in BCode (st, i, fl, info, lines ())
    | "Q" -> let st = num () in BQuote (st, blocks ())
    | "O" -> let i = num () in let g = num () in let o = bool () in let start = num () in let d = num () in let m = num () in
             let tight = bool () in let n = int_of_string (next ()) in
             BList (i, g, o, start, d, m, tight, List.map (fun () -> blocks ()) (List.init n (fun _ -> ())))
    | "X" -> BHtml (lines ())
    | t -> failwith ("specdoc block " ^ t) in
  let d = blocks () in
  if !toks <> [] then failwith "specdoc: trailing tokens";
  hex_of_bytes (md_of (tabs = "1") (fnl = "1") d) ^ "|" ^ hex_of_bytes (html_of d)

(* ---------- block parser models over the reader (ListItem.v, LeafBlocks.v) ---------- *)
let reader_at (src : string) (nlines : string) (adv : string) (pad : string) =
  let r = ref (new_reader (bytes_of_hex src)) in
  for _ = 1 to int_of_string nlines do r := r_advance_line !r done;
  let adv = int_of_string adv and pad = int_of_string pad in
  if pad > 0 then r := un (r_advance_and_set_padding !r (z_of_int adv) (z_of_int pad))
  else if adv > 0 then r := un (r_advance !r (z_of_int adv));
  !r
let pos_str r = let (l, p) = r_position r in Printf.sprintf "%d,%s" (int_of_z l) (seg_str p)
let block_case (fn : string) (args : string list) : string =
  try
    match fn, args with
    | "ListItemOpen", [src; nl; adv; pad; last] ->
      (match un (listItemOpen (z_of_int (int_of_string last)) (reader_at src nl adv pad)) with
       | None -> "nil"
       | Some ((off, r'), ch) -> Printf.sprintf "%d:%s@%s" (int_of_z off) (s_of_bool ch) (pos_str r'))
    | "ThematicBreak", [src; nl; adv; pad] -> s_of_bool (un (thematicBreakOpen (reader_at src nl adv pad)))
    | "AtxOpen", [src; nl; adv; pad; pos] ->
      (match un (atxOpenR (reader_at src nl adv pad) (z_of_int (int_of_string pos))) with
       | None -> "nil"
       | Some (lv, None) -> Printf.sprintf "%d:-" (int_of_z lv)
       | Some (lv, Some (a, b)) -> Printf.sprintf "%d:%d,%d" (int_of_z lv) (int_of_z a) (int_of_z b))
    | "FenceOpen", [src; nl; adv; pad; pos] ->
      (match un (fenceOpenR (reader_at src nl adv pad) (z_of_int (int_of_string pos))) with
       | None -> "nil"
       | Some (_, None) -> "open:-"
       | Some (_, Some (a, b)) -> Printf.sprintf "open:%d,%d" (int_of_z a) (int_of_z b))
    | "FenceContinue", [src; nl; adv; pad; ch; indent; flen] ->
      (match un (fenceContinueR (reader_at src nl adv pad) (n_of_int (int_of_string ch)) (z_of_int (int_of_string indent)) (z_of_int (int_of_string flen))) with
       | ((true, _), r') -> "close@" ^ pos_str r'
       | ((false, Some (s, p)), r') -> Printf.sprintf "line:%d,%d@%s" (int_of_z s) (int_of_z p) (pos_str r')
       | ((false, None), _) -> "?")
    | _ -> failwith ("block case " ^ fn)
  with Model_panic s -> s

(* ---------- code spans (CodeSpan.v): position a block reader at the adv-th backtick run ---------- *)
let code_span_case (src : string) (lines : string) (adv : string) : string =
  try
    let b = bytes_of_hex src in
    let segs = List.map (fun l -> match ints_of l ',' with [a; b; p] -> mk_seg a b p | _ -> failwith "seg") (split_on ';' lines) in
    let r = ref (un (new_block_reader b segs)) in
    let seen = ref 0 and prev = ref 0 and target = int_of_string adv in
    let found = ref false in
    while not !found do
      let ch = int_of_n (un (b_peek !r)) in
      if ch = 255 then raise Exit;
      if ch = 96 && !prev <> 96 && !seen = target then found := true
      else begin
        if ch = 96 && !prev <> 96 then incr seen;
        prev := ch;
        if ch = 10 then (r := un (b_advance_line !r); prev := 0) else r := un (b_advance !r (z_of_int 1))
      end
    done;
    let (l0, p0) = b_position !r in
    let (res, r') = un (codeSpanParse !r) in
    let (l, p) = b_position r' in
    let body = (match res with
      | Inl segs -> "c:" ^ String.concat ";" (List.map seg_str segs)
      | Inr s -> "t:" ^ seg_str s) in
    Printf.sprintf "%d,%s|%s@%d,%s" (int_of_z l0) (seg_str p0) body (int_of_z l) (seg_str p)
  with Model_panic s -> s | Exit -> "skip"

(* ---------- indented code blocks (CodeBlock.v): the driver's line loop ---------- *)
let seg_str_f (s : seg) = Printf.sprintf "%d,%d,%d,%s" (int_of_z s.s_start) (int_of_z s.s_stop) (int_of_z s.s_pad) (s_of_bool s.s_fnl)
let code_block_case (src : string) (plen : string) (pad : string) : string =
  let b = bytes_of_hex src in
  let plen = int_of_string plen and pad = int_of_string pad in
  let parts = ref [] in
  let add s = parts := s :: !parts in
  (try
    let skip r = if pad > 0 then un (r_advance_and_set_padding r (z_of_int plen) (z_of_int pad))
                 else if plen > 0 then un (r_advance r (z_of_int plen)) else r in
    let at_eof r = (match un (r_peek_line r) with ((_, None), _) -> true | _ -> false) in
    let r = skip (new_reader b) in
    (match un (codeBlockOpen r) with
     | None -> add "nil"
     | Some (sg, r) ->
       add ("open:" ^ seg_str_f sg);
       let lines = ref [sg] in
       let r = ref r in
       let fin = ref false in
       while not !fin do
         r := r_advance_line !r;
         if at_eof !r then fin := true
         else begin
           r := skip !r;
           if at_eof !r then fin := true
           else match un (codeBlockContinue !r) with
             | Inr () -> add "close"; fin := true
             | Inl (sg, r') -> lines := !lines @ [sg]; r := r'; add ("cont:" ^ seg_str_f sg)
         end
       done;
       let (l, p) = r_position !r in
       add (Printf.sprintf "@%d,%s" (int_of_z l) (seg_str p));
       let ls = un (codeBlockClose b !lines) in
       add ("lines:" ^ String.concat ";" (List.map seg_str_f ls)))
  with Model_panic s -> add s);
  (match !parts with
   | ["nil"] -> "nil"
   | ps -> let ps = List.rev ps in
     (* a panic message is appended to the last element, as on the Go side *)
     (match List.rev ps with
      | ("PANIC" | "FUEL" as m) :: rest -> String.concat "|" (List.rev rest) ^ m
      | _ -> String.concat "|" ps))

let eval (fn : string) (args : string list) : string =
  match fn, args with
  | "AstProg", [n; prog] -> let (_, _, o) = run_ast_prog (int_of_string n) prog in o
  | "AstWalk", [n; prog; root; script] ->
    let n = int_of_string n in
    let (h, f, _) = run_ast_prog n prog in
    let v = visitor_of_script script in
    let fuel = nat_of_int (2 * n + 4) in
    let r1 = walk fuel h v (n_of_int (int_of_string root)) in
    let r2 = walk_spec fuel f v (n_of_int (int_of_string root)) [] in
    (match r1, r2 with
     | Ok (err, tr), Ok ((_, err2), tr2) ->
       let a = s_of_bool err ^ ":" ^ trace_str tr and b = s_of_bool err2 ^ ":" ^ trace_str tr2 in
       if a <> b then "SPEC-DIFF(" ^ a ^ " vs " ^ b ^ ")" else a
     | Panic, _ | _, Panic -> "PANIC"
     | _, _ -> "FUEL")
  | "WriterWrite", [es; a] -> hex_of_bytes (writerWrite (bool_of_s es) (bytes_of_hex a))
  | "RawWrite", [a] -> hex_of_bytes (rawWrite (bytes_of_hex a))
  | "SecureWrite", [a] -> hex_of_bytes (secureWrite (bytes_of_hex a))
  | "IsDangerousURL", [a] -> s_of_bool (isDangerousURL (bytes_of_hex a))
  | "UrlValue", [unsafe; a; resolve] -> hex_of_bytes (urlValue (bool_of_s unsafe) (bytes_of_hex a) (bool_of_s resolve))
  | "BrowserDangerous", [a] -> s_of_bool (browser_dangerous (bytes_of_hex a))
  | "RenderAttributes", [names; attrs] ->
    (* names: ';'-separated hex names of the filter ("nil" = no filter); attrs: name:kind:value;... *)
    let filt = if names = "nil" then None else
      let l = List.map bytes_of_hex (split_on ';' names) in Some (fun n -> List.mem n l) in
    let al = List.map (fun e -> match String.split_on_char ':' e with
      | [n; k; v] -> { a_name = bytes_of_hex n;
                       a_val = (match k with "b" -> AVBytes (bytes_of_hex v) | "s" -> AVString (bytes_of_hex v) | _ -> AVOther) }
      | _ -> failwith "attr") (split_on ';' attrs) in
    hex_of_bytes (renderAttributes filt al)
  | "ScanDelimiter", [line; before; minimum] ->
    (match scanDelimiter (bytes_of_hex line) (n_of_int (int_of_string before)) (z_of_int (int_of_string minimum)) with
     | Ok None -> "nil"
     | Ok (Some (((co, cc), len), _)) -> Printf.sprintf "%s%s:%d" (s_of_bool co) (s_of_bool cc) (int_of_z len)
     | Panic -> "PANIC" | OutOfFuel -> "FUEL")
  | "CodeSpan", [src; lines; adv] -> code_span_case src lines adv
  | "CodeBlockRun", [src; plen; pad; _] -> code_block_case src plen pad
  | "SpecDoc", [tabs; fnl; ser] -> specdoc_case tabs fnl ser
  | ("ListItemOpen" | "ThematicBreak" | "AtxOpen" | "FenceOpen" | "FenceContinue"), _ -> block_case fn args
  | "RenderTree", [cfg; src; tree] ->
    (match renderHTML (parse_rcfg cfg) (bytes_of_hex src) (parse_tree tree) with
     | Ok o -> hex_of_bytes o | Panic -> "PANIC" | OutOfFuel -> "FUEL")
  | "WfTree", [src; tree] -> s_of_bool (wf_tree (bytes_of_hex src) (parse_tree tree))
  | "TableTransform", [src; lines] -> table_case src lines
  | "Footnotes", [defs; evs] -> footnote_case defs evs
  | "BqProcess", [src; nlines] ->
    let r = ref (new_reader (bytes_of_hex src)) in
    for _ = 1 to int_of_string nlines do r := r_advance_line !r done;
    (match bqProcess !r with
     | Ok (r', b) -> let (l, p) = r_position r' in Printf.sprintf "%s@%d,%s" (s_of_bool b) (int_of_z l) (seg_str p)
     | Panic -> "PANIC" | OutOfFuel -> "FUEL")
  | "RefsProg", [prog] ->
    let m = ref [] in
    String.concat "|" (List.filter_map (fun op ->
      let body = String.sub op 1 (String.length op - 1) in
      match op.[0] with
      | 'a' -> (match String.split_on_char ':' body with
                | [l; d] -> m := refsAdd !m (bytes_of_hex l) (bytes_of_hex d); None
                | _ -> failwith "refs op")
      | 'q' -> Some (match refsLookup !m (bytes_of_hex body) with Some d -> "h" ^ hex_of_bytes d | None -> "n")
      | _ -> failwith "refs op") (split_on ' ' prog))
  | "SegValueHeap", [src; extra; a; b; p; f] ->
    let doc = bytes_of_hex src in
    let n = List.length doc and ex = int_of_string extra in
    let arr = doc @ List.init ex (fun _ -> n_of_int 88) in
    let h = { h_arrays = [arr]; h_stores = [] } in
    let buf = { sl_arr = nat_of_int 0; sl_off = nat_of_int 0; sl_len = nat_of_int n; sl_cap = nat_of_int (n + ex) } in
    let t = { g_start = nat_of_int (int_of_string a); g_stop = nat_of_int (int_of_string b); g_pad = nat_of_int (int_of_string p); g_fnl = (f = "1") } in
    (match seg_value_h h buf t with
     | None -> "PANIC"
     | Some (h', r) ->
       let stored = List.exists (fun (ar, _) -> int_of_nat ar = 0) h'.h_stores in
       Printf.sprintf "%s:%s:%s" (s_of_bool stored) (s_of_bool (int_of_nat r.sl_arr = 0 && int_of_nat r.sl_cap > 0)) (hex_of_bytes (sl_bytes h' r)))
  | "Prio", [role; d] -> prio_case role d
  | "IdsProg", [ops] -> ids_case ops
  | "Bufio", [size; limit; ops] -> bufio_case (int_of_string size) (int_of_string limit) ops
  | "Regex", [name; inp] ->
    (match regexFind (bytes_of_hex name) (bytes_of_hex inp) with
     | None -> "unknown-regex"
     | Some (None, _) -> "no"
     | Some (Some c, g) -> caps_str (int_of_nat g) c)
  | "ParseBlocks", [src] ->
    (match parseBlocksTree (bytes_of_hex src) with
     | Ok (t, refs) -> print_tree t ^ "#" ^ print_refs refs
     | Panic -> "PANIC" | OutOfFuel -> "FUEL")
  | "Convert", [cfg; src] ->
    (match convertModelC (parse_rcfg cfg) (bytes_of_hex src) with
     | Ok o -> hex_of_bytes o | Panic -> "PANIC" | OutOfFuel -> "FUEL")
  | "ConvertA", [cfg; src] ->
    (match convertModelA (parse_rcfg cfg) (bytes_of_hex src) with
     | Ok o -> hex_of_bytes o | Panic -> "PANIC" | OutOfFuel -> "FUEL")
  | "ParseAttrs", [src; adv] ->
    let rec pv = function
      | PBytes v -> "b" ^ hex_of_bytes v | PNumber -> "n" | PBool b -> if b then "t" else "f" | PNull -> "z"
      | PArray l -> "[" ^ String.concat "," (List.map pv l) ^ "]"
      | PAttrs l -> "{" ^ pl l ^ "}"
    and pl l = String.concat ";" (List.map (fun (n, v) -> hex_of_bytes n ^ "=" ^ pv v) l) in
    (match r_advance (new_reader (bytes_of_hex src)) (z_of_int (int_of_string adv)) with
     | Ok r ->
       (match parseAttributesR r with
        | Ok (r', res) ->
          let (l, p) = r_position r' in
          (match res with None -> "no" | Some a -> "ok:" ^ pl a) ^ Printf.sprintf "@%d,%s" (int_of_z l) (seg_str p)
        | Panic -> "PANIC" | OutOfFuel -> "FUEL")
     | Panic -> "PANIC" | OutOfFuel -> "FUEL")
  | "ParseLinesOk", [src] ->
    (match parseLinesOk (bytes_of_hex src) with Ok b -> s_of_bool b | Panic -> "PANIC" | OutOfFuel -> "FUEL")
  | "ParseTree", [src] ->
    (match parseTree (bytes_of_hex src) with
     | Ok t -> print_tree t
     | Panic -> "PANIC" | OutOfFuel -> "FUEL")
  | "ReaderProg", [src; script] ->
    let b = bytes_of_hex src in
    run_reader_prog plain_ops (new_reader b) (List.length b) script
  | "BReaderProg", [src; lines; script] ->
    let b = bytes_of_hex src in
    let segs = List.map (fun l -> match ints_of l ',' with [a; b; p] -> mk_seg a b p | _ -> failwith "seg") (split_on ';' lines) in
    (match new_block_reader b segs with
     | Ok r -> run_reader_prog block_ops r (List.length b) script
     | Panic -> "PANIC" | OutOfFuel -> "FUEL")
  | _ -> raise (Unknown_kind fn)
