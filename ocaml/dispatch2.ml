(* further case kinds are added here as models grow *)
let eval (fn : string) (_args : string list) : string = failwith ("unknown case kind " ^ fn)
